"""Regenerate coq/gen/Keywords.v from the Python AST of /repo/asn1tools/parser.py.

Extracted (fail-closed: anything not recognised raises TranslationError, which
the check reports as a failed obligation):

* every ``Keyword('...')`` terminal of ``create_grammar`` (single- and
  multi-word), and every ``MultiWordKeyword('...')`` terminal of the repaired
  tree, the latter only if the helper ``MultiWordKeyword`` has the recognised
  definition (a ``Combine`` of one ``Keyword`` per word, not adjacent);
* the alternatives of the regular expression that ``ignore_comments`` passes
  to ``re.finditer`` (the scanner's events), which must be a single group of
  literal alternatives.
"""
import ast
import os
import sys


class TranslationError(Exception):
    pass


def _strip_chain(node):
    """X(...).setName(...)/.set_name(...) -> X(...)"""
    while (isinstance(node, ast.Call) and isinstance(node.func, ast.Attribute)
           and node.func.attr in ('setName', 'set_name') and isinstance(node.func.value, ast.Call)):
        node = node.func.value
    return node


def _is_name_call(node, name):
    return isinstance(node, ast.Call) and isinstance(node.func, ast.Name) and node.func.id == name


def _const_str(node):
    return node.value if isinstance(node, ast.Constant) and isinstance(node.value, str) else None


def _check_helper(fn):
    """MultiWordKeyword(words) must be
         return Combine(And([Keyword(word) for word in words.split()]), ' ', False)
       (join string / adjacent given positionally or by keyword)."""
    body = [s for s in fn.body if not (isinstance(s, ast.Expr) and _const_str(s.value) is not None)]
    if len(fn.args.args) != 1 or len(body) != 1 or not isinstance(body[0], ast.Return):
        raise TranslationError('MultiWordKeyword: unexpected body')
    arg = fn.args.args[0].arg
    call = body[0].value
    if not _is_name_call(call, 'Combine') or not call.args:
        raise TranslationError('MultiWordKeyword: expected return Combine(...)')
    opts = {}
    for name, a in zip(('join', 'adjacent'), call.args[1:]):
        opts[name] = a
    for kw in call.keywords:
        key = {'joinString': 'join', 'join_string': 'join', 'adjacent': 'adjacent'}.get(kw.arg)
        if key is None or key in opts:
            raise TranslationError('MultiWordKeyword: unexpected Combine argument %r' % kw.arg)
        opts[key] = kw.value
    if _const_str(opts.get('join')) != ' ':
        raise TranslationError("MultiWordKeyword: Combine join string must be ' '")
    adj = opts.get('adjacent')
    if not (isinstance(adj, ast.Constant) and adj.value is False):
        raise TranslationError('MultiWordKeyword: Combine(..., adjacent=False) expected')
    seq = call.args[0]
    if not _is_name_call(seq, 'And') or len(seq.args) != 1 or seq.keywords:
        raise TranslationError('MultiWordKeyword: expected And([...])')
    comp = seq.args[0]
    ok = (isinstance(comp, ast.ListComp) and len(comp.generators) == 1
          and _is_name_call(comp.elt, 'Keyword') and len(comp.elt.args) == 1 and not comp.elt.keywords
          and isinstance(comp.elt.args[0], ast.Name))
    if ok:
        g = comp.generators[0]
        it = g.iter
        ok = (isinstance(g.target, ast.Name) and g.target.id == comp.elt.args[0].id and not g.ifs
              and isinstance(it, ast.Call) and isinstance(it.func, ast.Attribute) and it.func.attr == 'split'
              and isinstance(it.func.value, ast.Name) and it.func.value.id == arg
              and not it.args and not it.keywords)
    if not ok:
        raise TranslationError('MultiWordKeyword: expected [Keyword(word) for word in %s.split()]' % arg)


def parse_alternatives(regex):
    """'(a|b|c)' with literal (possibly escaped) alternatives -> list of strings."""
    if len(regex) < 2 or regex[0] != '(' or regex[-1] != ')':
        raise TranslationError('scanner regex is not a single group: %r' % regex)
    alts, cur, i, inner = [], '', 0, regex[1:-1]
    while i < len(inner):
        ch = inner[i]
        if ch == '\\':
            if i + 1 >= len(inner):
                raise TranslationError('dangling backslash in %r' % regex)
            nx = inner[i + 1]
            if nx == 'n':
                cur += '\n'
            elif nx in '*/|().+?[]{}^$\\-"':
                cur += nx
            else:
                raise TranslationError('unsupported escape \\%s in scanner regex %r' % (nx, regex))
            i += 2
            continue
        if ch == '|':
            alts.append(cur)
            cur = ''
        elif ch in '*+?.[](){}^$':
            raise TranslationError('unsupported metacharacter %r in scanner regex %r' % (ch, regex))
        else:
            cur += ch
        i += 1
    alts.append(cur)
    if any(a == '' for a in alts):
        raise TranslationError('empty alternative in scanner regex %r' % regex)
    return alts


def extract(repo):
    path = os.path.join(repo, 'asn1tools', 'parser.py')
    tree = ast.parse(open(path, encoding='utf-8').read(), path)
    funcs = {n.name: n for n in tree.body if isinstance(n, ast.FunctionDef)}
    for need in ('create_grammar', 'ignore_comments'):
        if need not in funcs:
            raise TranslationError('parser.py: no function %s' % need)
    helper = funcs.get('MultiWordKeyword')
    if helper is not None:
        _check_helper(helper)

    single, multi = [], []
    seen_calls = set()
    for node in ast.walk(funcs['create_grammar']):
        if isinstance(node, ast.Assign):
            v = _strip_chain(node.value)
            for fname in ('Keyword', 'MultiWordKeyword'):
                if _is_name_call(v, fname):
                    text = _const_str(v.args[0]) if len(v.args) == 1 and not v.keywords else None
                    if text is None or not text or text != text.strip():
                        raise TranslationError('line %d: %s(...) with an unrecognised argument' % (v.lineno, fname))
                    if fname == 'MultiWordKeyword':
                        if helper is None:
                            raise TranslationError('MultiWordKeyword used but not defined')
                        multi.append((text, 'words'))
                    elif any(c.isspace() for c in text):
                        multi.append((text, 'literal'))
                    else:
                        single.append(text)
                    seen_calls.add(id(v))
    # every other use of Keyword/MultiWordKeyword must be one we understood
    helper_calls = set(id(n) for n in ast.walk(helper)) if helper is not None else set()
    for node in ast.walk(tree):
        if (_is_name_call(node, 'Keyword') or _is_name_call(node, 'MultiWordKeyword')) \
                and id(node) not in seen_calls and id(node) not in helper_calls:
            raise TranslationError('line %d: unrecognised use of %s' % (node.lineno, node.func.id))
    if not single or not multi:
        raise TranslationError('no keywords found in create_grammar')

    regexes = []
    for node in ast.walk(funcs['ignore_comments']):
        if (isinstance(node, ast.Call) and isinstance(node.func, ast.Attribute) and node.func.attr == 'finditer'
                and isinstance(node.func.value, ast.Name) and node.func.value.id == 're'):
            rx = _const_str(node.args[0]) if node.args else None
            if rx is None:
                raise TranslationError('ignore_comments: re.finditer pattern is not a string constant')
            regexes.append(rx)
    if len(regexes) != 1:
        raise TranslationError('ignore_comments: expected exactly one re.finditer call, found %d' % len(regexes))
    return {'single': single, 'multi': multi, 'alternatives': parse_alternatives(regexes[0]),
            'regex': regexes[0]}


def _codes(s):
    return '[' + '; '.join(str(ord(c)) for c in s) + ']'


def _qs(s):
    if any(ord(c) < 32 or ord(c) > 126 for c in s):
        raise TranslationError('non-printable character in keyword %r' % s)
    return '"%s"' % s.replace('"', '""')


def render(info):
    out = ['(* GENERATED by translator/keywords.py from asn1tools/parser.py -- do not edit. *)',
           'From Asn1V Require Import Base.Prelude Lex.Keyword.',
           '',
           '(* Keyword terminals of create_grammar without white space. *)',
           'Definition single_word_keywords : list string :=',
           '  [' + ';\n   '.join(_qs(s) for s in info['single']) + ']%string.',
           '',
           '(* Keyword terminals made of several words, and how parser.py builds them:',
           '   KwLiteral = Keyword with the spaces inside the match string,',
           '   KwWords = MultiWordKeyword (one Keyword per word, white space skipped between). *)',
           'Definition multi_word_keywords : list (list (list Z) * kwform) :=',
           '  [']
    rows = []
    for text, form in info['multi']:
        words = '[' + '; '.join(_codes(w) for w in text.split()) + ']'
        f = 'KwWords ' + words if form == 'words' else 'KwLiteral ' + _codes(text)
        rows.append('   (* %s *) (%s, %s)' % (text, words, f))
    out.append(';\n'.join(rows))
    out.append('  ].')
    out.append('')
    out.append('(* Alternatives, in order, of the regular expression whose matches are the')
    out.append('   events of ignore_comments. *)')
    out.append('Definition scanner_alternatives : list (list Z) :=')
    out.append('  [' + '; '.join(_codes(a) for a in info['alternatives']) + '].')
    return '\n'.join(out) + '\n'


def regenerate(repo, coq_dir):
    text = render(extract(repo))
    path = os.path.join(coq_dir, 'gen', 'Keywords.v')
    old = open(path).read() if os.path.exists(path) else None
    if old != text:
        os.makedirs(os.path.dirname(path), exist_ok=True)
        with open(path + '.tmp', 'w') as f:
            f.write(text)
        os.replace(path + '.tmp', path)
    return text


if __name__ == '__main__':
    repo = sys.argv[1] if len(sys.argv) > 1 else os.environ.get('VERIF_REPO', '/repo')
    here = os.path.dirname(os.path.dirname(os.path.abspath(__file__)))
    sys.stdout.write(regenerate(repo, os.path.join(here, 'coq')))
