"""Fail-closed parser of the C dialect that asn1tools.source.c generates.

Used by the C09 (UPER) check and written so that the C10 (OER) check can reuse
it: nothing in here knows about UPER except HELPER_* name tables passed in by
the caller.

  tokenize(text)            -> tokens (comments kept as ('doc', text) only for /** ... */)
  parse_header(text)        -> Header: enums, consts, structs (nested anonymous
                               struct/union members, array capacities), prototypes,
                               and the "Type X in module Y" doc comments
  parse_source(text)        -> Source: struct definitions, functions (name, return
                               type, parameters, locals, body AST)
  python_string_constants(path) -> {NAME: C text} for uper_functions.py / utils.py

Everything outside the dialect raises CParseError: the caller reports that as a
failure of the property ("generated C is outside the dialect the check
understands"), never as a pass.

AST (plain tuples, first component is the node kind):

 expressions
  ('num', value:int, suffix:str)            integer constant (suffix '', 'u', 'ull', ...)
  ('id', name)
  ('bool', True|False)
  ('un', op, e)                             op in - ! ~ & *
  ('bin', op, a, b)                         arithmetic / relational / logical
  ('cond', c, a, b)
  ('cast', ctype, e)
  ('index', a, i)   ('member', a, name)   ('arrow', a, name)
  ('call', fname, [args])
  ('sizeof', e)
  ('assign', op, lhs, rhs)                  op in = += -= |= <<= ...
  ('postinc', e)
 statements
  ('expr', e) ('if', c, then, else|None) ('for', init, cond, step, body)
  ('switch', e, [(label|None, [stmts])]) ('return', e|None) ('break',)
  ('block', [stmts])
 declarations inside a function body
  ('decl', ctype, name, array_len|None, init|None, static_const:bool)
"""
import ast
import re


class CParseError(Exception):
    pass


INT_TYPES = {
    'uint8_t': ('u', 8), 'uint16_t': ('u', 16), 'uint32_t': ('u', 32), 'uint64_t': ('u', 64),
    'int8_t': ('s', 8), 'int16_t': ('s', 16), 'int32_t': ('s', 32), 'int64_t': ('s', 64),
    'size_t': ('u', 64), 'ssize_t': ('s', 64), 'int': ('s', 32), 'bool': ('b', 1),
}
OTHER_TYPES = {'void', 'float', 'double'}

_TOKEN = re.compile(r'''
    (?P<doc>/\*\*.*?\*/)
  | (?P<comment>/\*.*?\*/)
  | (?P<pp>^[ \t]*\#[^\n]*)
  | (?P<num>0[xX][0-9a-fA-F]+[uUlL]*|\d+[uUlL]*)
  | (?P<id>[A-Za-z_]\w*)
  | (?P<str>"(?:[^"\\]|\\.)*")
  | (?P<op><<=|>>=|\+\+|--|->|<<|>>|<=|>=|==|!=|&&|\|\||\+=|-=|\*=|/=|%=|&=|\|=|\^=|[-+*/%<>=!~&|^?:;,.(){}\[\]])
  | (?P<ws>\s+)
''', re.S | re.M | re.X)


def tokenize(text):
    toks = []
    pos = 0
    line = 1
    while pos < len(text):
        m = _TOKEN.match(text, pos)
        if not m:
            raise CParseError('line %d: cannot tokenize %r' % (line, text[pos:pos + 30]))
        kind = m.lastgroup
        s = m.group()
        if kind == 'doc':
            toks.append(('doc', s, line))
        elif kind == 'pp':
            toks.append(('pp', s.strip(), line))
        elif kind in ('num', 'id', 'str', 'op'):
            toks.append((kind, s, line))
        line += s.count('\n')
        pos = m.end()
    toks.append(('eof', '', line))
    return toks


def parse_number(s):
    m = re.match(r'^(0[xX][0-9a-fA-F]+|\d+)([uUlL]*)$', s)
    if not m:
        raise CParseError('bad number %r' % s)
    body, suf = m.groups()
    if body.lower().startswith('0x'):
        v = int(body, 16)
    elif len(body) > 1 and body[0] == '0':
        raise CParseError('octal constant %r' % s)
    else:
        v = int(body)
    return v, suf.lower()


class CType(object):
    """base: 'uint8_t' ... | 'enum X' | 'struct X' | ('anon', 'struct'|'union', [Member]);
    ptr: pointer depth; const: bool."""

    def __init__(self, base, ptr=0, const=False):
        self.base = base
        self.ptr = ptr
        self.const = const

    def key(self):
        b = self.base if isinstance(self.base, str) else (self.base[0], self.base[1])
        return (b, self.ptr)

    def __repr__(self):
        return 'CType(%r, ptr=%d%s)' % (self.base if isinstance(self.base, str) else self.base[:2],
                                         self.ptr, ', const' if self.const else '')


class Member(object):
    def __init__(self, ctype, name, array=None):
        self.ctype = ctype
        self.name = name
        self.array = array     # capacity or None

    def __repr__(self):
        return 'Member(%r, %r, %r)' % (self.ctype, self.name, self.array)


class Function(object):
    def __init__(self, name, ret, params, body, static, line):
        self.name = name
        self.ret = ret
        self.params = params    # [(CType, name)]
        self.body = body        # list of stmts/decls, or None for a prototype
        self.static = static
        self.line = line


class Unit(object):
    def __init__(self):
        self.pp = []            # preprocessor lines
        self.docs = []          # (text, index of the next item)
        self.enums = {}         # name -> [(const, value)] with implicit values resolved
        self.enum_order = []
        self.structs = {}       # name -> [Member]
        self.struct_order = []
        self.consts = {}        # name -> (CType, value)
        self.functions = {}     # name -> Function (definitions)
        self.prototypes = {}    # name -> Function
        self.function_order = []
        self.type_docs = {}     # struct name -> (type_name, module_name) from the doc comment


class Parser(object):
    def __init__(self, text):
        self.toks = tokenize(text)
        self.i = 0

    # -- token helpers
    def peek(self, k=0):
        return self.toks[self.i + k]

    def next(self):
        t = self.toks[self.i]
        self.i += 1
        return t

    def at(self, s, k=0):
        t = self.toks[self.i + k]
        return t[0] in ('op', 'id') and t[1] == s

    def accept(self, s):
        if self.at(s):
            self.i += 1
            return True
        return False

    def expect(self, s):
        t = self.next()
        if t[0] not in ('op', 'id') or t[1] != s:
            raise CParseError('line %d: expected %r, got %r' % (t[2], s, t[1]))
        return t

    def ident(self):
        t = self.next()
        if t[0] != 'id':
            raise CParseError('line %d: expected identifier, got %r' % (t[2], t[1]))
        return t[1]

    def err(self, msg):
        t = self.peek()
        raise CParseError('line %d: %s (at %r)' % (t[2], msg, t[1]))

    # -- types
    def at_type(self, k=0):
        t = self.peek(k)
        if t[0] != 'id':
            return False
        return t[1] in INT_TYPES or t[1] in OTHER_TYPES or t[1] in ('struct', 'enum', 'union', 'const', 'static')

    def parse_type(self, allow_anon=False):
        const = False
        while self.accept('const'):
            const = True
        t = self.next()
        if t[0] != 'id':
            raise CParseError('line %d: expected type, got %r' % (t[2], t[1]))
        if t[1] in ('struct', 'union', 'enum'):
            if self.at('{'):
                if not allow_anon or t[1] == 'enum':
                    self.err('anonymous %s not allowed here' % t[1])
                members = self.parse_members()
                base = ('anon', t[1], members)
            else:
                base = t[1] + ' ' + self.ident()
        elif t[1] in INT_TYPES or t[1] in OTHER_TYPES:
            base = t[1]
        else:
            raise CParseError('line %d: unknown type %r' % (t[2], t[1]))
        while self.accept('const'):
            const = True
        ptr = 0
        while self.accept('*'):
            ptr += 1
        return CType(base, ptr, const)

    def parse_members(self):
        self.expect('{')
        members = []
        while not self.at('}'):
            ct = self.parse_type(allow_anon=True)
            name = self.ident()
            arr = None
            if self.accept('['):
                n = self.next()
                if n[0] != 'num':
                    raise CParseError('line %d: array size must be a constant' % n[2])
                arr = parse_number(n[1])[0]
                self.expect(']')
            self.expect(';')
            if any(m.name == name for m in members):
                self.err('duplicate member %r' % name)
            members.append(Member(ct, name, arr))
        self.expect('}')
        return members

    # -- expressions (precedence climbing)
    BIN = [
        ('||',), ('&&',), ('|',), ('^',), ('&',), ('==', '!='), ('<', '<=', '>', '>='),
        ('<<', '>>'), ('+', '-'), ('*', '/', '%'),
    ]
    ASSIGN = ('=', '+=', '-=', '*=', '/=', '%=', '&=', '|=', '^=', '<<=', '>>=')

    def parse_expr(self):
        e = self.parse_assign()
        if self.at(','):
            self.err('comma operator not in the dialect')
        return e

    def parse_assign(self):
        lhs = self.parse_cond()
        t = self.peek()
        if t[0] == 'op' and t[1] in self.ASSIGN:
            self.next()
            rhs = self.parse_assign()
            return ('assign', t[1], lhs, rhs)
        return lhs

    def parse_cond(self):
        c = self.parse_bin(0)
        if self.accept('?'):
            a = self.parse_assign()
            self.expect(':')
            b = self.parse_cond()
            return ('cond', c, a, b)
        return c

    def parse_bin(self, level):
        if level == len(self.BIN):
            return self.parse_unary()
        e = self.parse_bin(level + 1)
        while True:
            t = self.peek()
            if t[0] == 'op' and t[1] in self.BIN[level]:
                self.next()
                r = self.parse_bin(level + 1)
                e = ('bin', t[1], e, r)
            else:
                return e

    def parse_unary(self):
        t = self.peek()
        if t[0] == 'op' and t[1] in ('-', '!', '~', '&', '*'):
            self.next()
            return ('un', t[1], self.parse_unary())
        if t[0] == 'op' and t[1] in ('++', '--', '+'):
            self.err('prefix %s not in the dialect' % t[1])
        if self.at('sizeof'):
            self.next()
            self.expect('(')
            e = self.parse_expr()
            self.expect(')')
            return ('sizeof', e)
        if self.at('(') and self.at_type(1):
            self.next()
            ct = self.parse_type()
            self.expect(')')
            return ('cast', ct, self.parse_unary())
        return self.parse_postfix()

    def parse_postfix(self):
        t = self.next()
        if t[0] == 'num':
            v, suf = parse_number(t[1])
            e = ('num', v, suf)
        elif t[0] == 'id':
            if t[1] in ('true', 'false'):
                e = ('bool', t[1] == 'true')
            else:
                e = ('id', t[1])
        elif t[0] == 'op' and t[1] == '(':
            e = self.parse_expr()
            self.expect(')')
        else:
            raise CParseError('line %d: unexpected %r in expression' % (t[2], t[1]))
        while True:
            if self.accept('['):
                i = self.parse_expr()
                self.expect(']')
                e = ('index', e, i)
            elif self.accept('.'):
                e = ('member', e, self.ident())
            elif self.accept('->'):
                e = ('arrow', e, self.ident())
            elif self.at('('):
                if e[0] != 'id':
                    self.err('call through an expression')
                self.next()
                args = []
                if not self.at(')'):
                    while True:
                        args.append(self.parse_assign())
                        if not self.accept(','):
                            break
                self.expect(')')
                e = ('call', e[1], args)
            elif self.accept('++'):
                e = ('postinc', e)
            elif self.at('--'):
                self.err('-- not in the dialect')
            else:
                return e

    # -- statements
    def parse_block(self):
        self.expect('{')
        items = []
        while not self.at('}'):
            items.append(self.parse_stmt(allow_decl=True))
        self.expect('}')
        return items

    def parse_stmt(self, allow_decl=False):
        t = self.peek()
        if t[0] == 'op' and t[1] == '{':
            return ('block', self.parse_block())
        if t[0] == 'id' and t[1] == 'if':
            self.next()
            self.expect('(')
            c = self.parse_expr()
            self.expect(')')
            then = self.parse_block()
            els = None
            if self.accept('else'):
                if self.at('if'):
                    els = [self.parse_stmt()]
                else:
                    els = self.parse_block()
            return ('if', c, then, els)
        if t[0] == 'op' and t[1] == ';':
            self.next()
            return ('empty',)
        if t[0] == 'id' and t[1] == 'do':
            self.next()
            body = self.parse_block()
            self.expect('while')
            self.expect('(')
            cond = self.parse_expr()
            self.expect(')')
            self.expect(';')
            return ('dowhile', body, cond)
        if t[0] == 'id' and t[1] == 'for' and self.at('(', 1) and self.at_type(2):
            # C99: for (T x = e; cond; step)
            self.next()
            self.expect('(')
            decl = self.parse_decl()
            cond = self.parse_expr()
            self.expect(';')
            step = self.parse_expr()
            self.expect(')')
            return ('fordecl', decl, cond, step, self.parse_block())
        if t[0] == 'id' and t[1] == 'for':
            self.next()
            self.expect('(')
            init = self.parse_expr()
            self.expect(';')
            cond = self.parse_expr()
            self.expect(';')
            step = self.parse_expr()
            self.expect(')')
            return ('for', init, cond, step, self.parse_block())
        if t[0] == 'id' and t[1] == 'switch':
            self.next()
            self.expect('(')
            e = self.parse_expr()
            self.expect(')')
            self.expect('{')
            arms = []
            while not self.at('}'):
                if self.accept('case'):
                    lab = self.parse_cond()
                    self.expect(':')
                elif self.accept('default'):
                    lab = None
                    self.expect(':')
                else:
                    self.err('statement before the first case label')
                body = []
                while not (self.at('case') or self.at('default') or self.at('}')):
                    body.append(self.parse_stmt())
                arms.append((lab, body))
            self.expect('}')
            return ('switch', e, arms)
        if t[0] == 'id' and t[1] == 'return':
            self.next()
            e = None
            if not self.at(';'):
                e = self.parse_expr()
            self.expect(';')
            return ('return', e)
        if t[0] == 'id' and t[1] == 'break':
            self.next()
            self.expect(';')
            return ('break',)
        if t[0] == 'id' and t[1] in ('while', 'goto', 'continue'):
            self.err('%s not in the dialect' % t[1])
        if allow_decl and self.at_type():
            return self.parse_decl()
        e = self.parse_expr()
        self.expect(';')
        return ('expr', e)

    def parse_decl(self):
        static = self.accept('static')
        ct = self.parse_type()
        name = self.ident()
        arr = None
        if self.accept('['):
            if self.at(']'):
                arr = -1          # size from the initialiser
            else:
                n = self.next()
                if n[0] != 'num':
                    raise CParseError('line %d: array size must be a constant' % n[2])
                arr = parse_number(n[1])[0]
            self.expect(']')
        init = None
        if self.accept('='):
            if self.at('{'):
                self.next()
                init = []
                while not self.at('}'):
                    init.append(self.parse_cond())
                    if not self.accept(','):
                        break
                self.expect('}')
                init = ('list', init)
                if arr == -1:
                    arr = len(init[1])
            else:
                init = self.parse_assign()
        if arr == -1:
            self.err('array without size')
        self.expect(';')
        return ('decl', ct, name, arr, init, bool(static and ct.const))

    # -- top level
    def parse_unit(self):
        u = Unit()
        pending_doc = None
        while self.peek()[0] != 'eof':
            t = self.peek()
            if t[0] == 'doc':
                pending_doc = t[1]
                self.next()
                continue
            if t[0] == 'pp':
                u.pp.append(t[1])
                self.next()
                continue
            static = False
            if self.at('static'):
                static = True
                self.next()
            if self.at('enum') and self.peek(2)[1] == '{':
                self.next()
                name = self.ident()
                self.expect('{')
                items = []
                nextv = 0
                while not self.at('}'):
                    cname = self.ident()
                    if self.accept('='):
                        neg = self.accept('-')
                        n = self.next()
                        if n[0] != 'num':
                            raise CParseError('line %d: enum value must be a constant' % n[2])
                        v = parse_number(n[1])[0]
                        v = -v if neg else v
                    else:
                        v = nextv
                    nextv = v + 1
                    items.append((cname, v))
                    if not self.accept(','):
                        break
                self.expect('}')
                self.expect(';')
                if name in u.enums:
                    self.err('duplicate enum %s' % name)
                u.enums[name] = items
                u.enum_order.append(name)
                continue
            if self.at('struct') and self.peek(2)[1] == '{':
                self.next()
                name = self.ident()
                members = self.parse_members()
                self.expect(';')
                if name in u.structs:
                    self.err('duplicate struct %s' % name)
                u.structs[name] = members
                u.struct_order.append(name)
                if pending_doc:
                    m = re.search(r'Type (\S+) in module (\S+)\.', pending_doc)
                    if m:
                        u.type_docs[name] = (m.group(1), m.group(2))
                pending_doc = None
                continue
            line = t[2]
            ct = self.parse_type()
            name = self.ident()
            if self.at('('):
                self.next()
                params = []
                if self.at('void') and self.at(')', 1):
                    self.next()
                elif not self.at(')'):
                    while True:
                        pt = self.parse_type()
                        pn = self.ident()
                        params.append((pt, pn))
                        if not self.accept(','):
                            break
                self.expect(')')
                if self.accept(';'):
                    u.prototypes[name] = Function(name, ct, params, None, static, line)
                else:
                    body = self.parse_block()
                    if name in u.functions:
                        self.err('duplicate function %s' % name)
                    u.functions[name] = Function(name, ct, params, body, static, line)
                    u.function_order.append(name)
                pending_doc = None
                continue
            # static const T NAME = value;
            self.expect('=')
            neg = self.accept('-')
            n = self.next()
            if n[0] != 'num' or not (static and ct.const):
                raise CParseError('line %d: only "static const T NAME = constant;" is in the dialect' % n[2])
            v = parse_number(n[1])[0]
            self.expect(';')
            u.consts[name] = (ct, -v if neg else v)
            # a doc comment stays pending: helper constants precede the struct they belong to
        return u


def parse_unit(text):
    return Parser(text).parse_unit()


KNOWN_PP = re.compile(
    r'^#\s*(ifndef \w+|define \w+( -?\w+)?|endif|include <(stdint|stdbool|unistd|string|stddef|stdio|math)\.h>|include "[\w.\-]+")$')


def parse_header(text):
    u = parse_unit(text)
    for l in u.pp:
        if not KNOWN_PP.match(l):
            raise CParseError('unexpected preprocessor line %r' % l)
    if u.functions:
        raise CParseError('function definition in the header')
    u.defines = {}
    for l in u.pp:
        m = re.match(r'^#\s*define (\w+) (-?\w+)$', l)
        if m and re.match(r'^-?\d+$', m.group(2)):
            u.defines[m.group(1)] = int(m.group(2))
    return u


def parse_source(text):
    u = parse_unit(text)
    for l in u.pp:
        if not KNOWN_PP.match(l):
            raise CParseError('unexpected preprocessor line %r' % l)
    return u


def python_string_constants(path):
    """Module-level NAME = '''...''' string constants of a Python file (the C
    helper texts live in such constants)."""
    tree = ast.parse(open(path).read(), path)
    out = {}
    for node in tree.body:
        if isinstance(node, ast.Assign) and len(node.targets) == 1 and isinstance(node.targets[0], ast.Name):
            if isinstance(node.value, ast.Constant) and isinstance(node.value.value, str):
                out[node.targets[0].id] = node.value.value
    return out


# --------------------------------------------------------------------------
# canonical printing (used for normal forms and diagnostics)

def show_type(ct):
    b = ct.base if isinstance(ct.base, str) else ct.base[1] + '{...}'
    return ('const ' if ct.const else '') + b + '*' * ct.ptr


def show(e):
    k = e[0]
    if k == 'num':
        return '%d%s' % (e[1], e[2])
    if k == 'id':
        return e[1]
    if k == 'bool':
        return 'true' if e[1] else 'false'
    if k == 'un':
        return '(%s%s)' % (e[1], show(e[2]))
    if k == 'bin':
        return '(%s %s %s)' % (show(e[2]), e[1], show(e[3]))
    if k == 'cond':
        return '(%s ? %s : %s)' % (show(e[1]), show(e[2]), show(e[3]))
    if k == 'cast':
        return '((%s)%s)' % (show_type(e[1]), show(e[2]))
    if k == 'index':
        return '%s[%s]' % (show(e[1]), show(e[2]))
    if k == 'member':
        return '%s.%s' % (show(e[1]), e[2])
    if k == 'arrow':
        return '%s->%s' % (show(e[1]), e[2])
    if k == 'call':
        return '%s(%s)' % (e[1], ', '.join(show(a) for a in e[2]))
    if k == 'sizeof':
        return 'sizeof(%s)' % show(e[1])
    if k == 'assign':
        return '%s %s %s' % (show(e[2]), e[1], show(e[3]))
    if k == 'postinc':
        return '%s++' % show(e[1])
    if k == 'list':
        return '{%s}' % ', '.join(show(x) for x in e[1])
    raise CParseError('show: %r' % (e,))


def show_stmt(s, ind=0):
    p = '  ' * ind
    k = s[0]
    if k == 'expr':
        return [p + show(s[1]) + ';']
    if k == 'decl':
        return [p + '%s%s %s%s%s;' % ('static ' if s[5] else '', show_type(s[1]), s[2],
                                       '[%d]' % s[3] if s[3] is not None else '',
                                       ' = ' + show(s[4]) if s[4] is not None else '')]
    if k == 'if':
        out = [p + 'if %s {' % show(s[1])]
        for x in s[2]:
            out += show_stmt(x, ind + 1)
        if s[3] is not None:
            out.append(p + '} else {')
            for x in s[3]:
                out += show_stmt(x, ind + 1)
        return out + [p + '}']
    if k == 'for':
        out = [p + 'for (%s; %s; %s) {' % (show(s[1]), show(s[2]), show(s[3]))]
        for x in s[4]:
            out += show_stmt(x, ind + 1)
        return out + [p + '}']
    if k == 'empty':
        return [p + ';']
    if k == 'dowhile':
        out = [p + 'do {']
        for x in s[1]:
            out += show_stmt(x, ind + 1)
        return out + [p + '} while %s;' % show(s[2])]
    if k == 'fordecl':
        out = [p + 'for (%s %s; %s) {' % (show_stmt(s[1])[0], show(s[2]), show(s[3]))]
        for x in s[4]:
            out += show_stmt(x, ind + 1)
        return out + [p + '}']
    if k == 'switch':
        out = [p + 'switch %s {' % show(s[1])]
        for lab, body in s[2]:
            out.append(p + ('case %s:' % show(lab) if lab is not None else 'default:'))
            for x in body:
                out += show_stmt(x, ind + 1)
        return out + [p + '}']
    if k == 'return':
        return [p + 'return%s;' % (' ' + show(s[1]) if s[1] is not None else '')]
    if k == 'break':
        return [p + 'break;']
    if k == 'block':
        out = [p + '{']
        for x in s[1]:
            out += show_stmt(x, ind + 1)
        return out + [p + '}']
    raise CParseError('show_stmt: %r' % (s,))


def show_function(f):
    head = '%s%s %s(%s)' % ('static ' if f.static else '', show_type(f.ret), f.name,
                            ', '.join('%s %s' % (show_type(t), n) for t, n in f.params))
    out = [head + ' {']
    for s in f.body:
        out += show_stmt(s, 1)
    return '\n'.join(out + ['}'])


# --------------------------------------------------------------------------
# alpha-normalisation (normal forms must not depend on the names of locals)

def _rename_expr(e, ren):
    if not isinstance(e, tuple):
        return e
    k = e[0]
    if k == 'id':
        return ('id', ren.get(e[1], e[1]))
    if k in ('member', 'arrow'):
        return (k, _rename_expr(e[1], ren), e[2])
    if k == 'call':
        return ('call', e[1], [_rename_expr(a, ren) for a in e[2]])
    if k == 'cast':
        return ('cast', e[1], _rename_expr(e[2], ren))
    if k == 'list':
        return ('list', [_rename_expr(a, ren) for a in e[1]])
    if k in ('num', 'bool'):
        return e
    return (k,) + tuple(_rename_expr(x, ren) if isinstance(x, tuple) else x for x in e[1:])


def _rename_stmt(s, ren):
    k = s[0]
    if k == 'expr':
        return ('expr', _rename_expr(s[1], ren))
    if k == 'decl':
        return ('decl', s[1], ren.get(s[2], s[2]), s[3], _rename_expr(s[4], ren) if s[4] is not None else None, s[5])
    if k == 'if':
        return ('if', _rename_expr(s[1], ren), [_rename_stmt(x, ren) for x in s[2]],
                [_rename_stmt(x, ren) for x in s[3]] if s[3] is not None else None)
    if k == 'for':
        return ('for', _rename_expr(s[1], ren), _rename_expr(s[2], ren), _rename_expr(s[3], ren),
                [_rename_stmt(x, ren) for x in s[4]])
    if k == 'empty':
        return s
    if k == 'dowhile':
        return ('dowhile', [_rename_stmt(x, ren) for x in s[1]], _rename_expr(s[2], ren))
    if k == 'fordecl':
        return ('fordecl', _rename_stmt(s[1], ren), _rename_expr(s[2], ren), _rename_expr(s[3], ren),
                [_rename_stmt(x, ren) for x in s[4]])
    if k == 'switch':
        return ('switch', _rename_expr(s[1], ren),
                [(_rename_expr(l, ren) if l is not None else None, [_rename_stmt(x, ren) for x in b]) for l, b in s[2]])
    if k == 'return':
        return ('return', _rename_expr(s[1], ren) if s[1] is not None else None)
    if k == 'break':
        return s
    if k == 'block':
        return ('block', [_rename_stmt(x, ren) for x in s[1]])
    raise CParseError('rename: %r' % (k,))


def alpha_function(f):
    """Parameters renamed p0, p1, ..., locals l0, l1, ... (declaration order)."""
    ren = {}
    for i, (_, n) in enumerate(f.params):
        ren[n] = 'p%d' % i
    j = [0]

    def scan(stmts):
        for s in stmts:
            if s[0] == 'decl':
                ren[s[2]] = 'l%d' % j[0]
                j[0] += 1
            elif s[0] == 'fordecl':
                ren[s[1][2]] = 'l%d' % j[0]
                j[0] += 1
                scan(s[4])
            elif s[0] in ('if',):
                scan(s[2])
                scan(s[3] or [])
            elif s[0] == 'for':
                scan(s[4])
            elif s[0] == 'dowhile':
                scan(s[1])
            elif s[0] == 'block':
                scan(s[1])
            elif s[0] == 'switch':
                for _, b in s[2]:
                    scan(b)
    scan(f.body)
    return Function(f.name, f.ret, [(t, ren[n]) for t, n in f.params], [_rename_stmt(s, ren) for s in f.body],
                    f.static, f.line)
