#!/usr/bin/env python
"""C18 translator: write-sets of everything that runs at encode/decode/check time.

A fail-closed abstract interpretation over the Python ``ast`` of the codec
modules of /repo (nothing of asn1tools is imported or executed).  For every
function reachable from the run-time entry points

    Specification.encode / decode / decode_with_length / decode_length
    CompiledType.encode / decode / decode_with_length / check_types / check_constraints

(by a name-based, arity-filtered call graph that over-approximates dynamic
dispatch, analysed once per codec "family" = import closure of the codec
module) it records every *write*: attribute / subscript store, augmented
assignment, ``del``, mutating method call, ``global`` declaration, and
classifies the object written to:

    SelfAttr a        self.a or an alias of it, self being part of the compiled graph
    SharedAlias p     an alias of parameter p / of a call result that may be part of the compiled graph
    Global g          module-level global, class attribute, mutable default argument
    InputValue        (an alias of / an element of) the value the caller passed in
    CallLocalObject   an object that every caller allocated during the same top-level call
                      (Encoder / Decoder / BER bytearray / exception in flight)
    LocalFresh        allocated in this very function (counted, not listed)
    Unknown           anything the analysis cannot classify  -> the Coq check fails

The provenance of a name is a pair (own, elems): what the object itself may be
and what may be reachable from it.  Parameters are classified by *inflow*
(the join over all call sites of what is passed), so the "documented
out-parameters" (encoder, decoder, encoded, the exception) are derived, not
assumed: they are CallLocalObject because every call site passes a fresh
object, and the evidence (allocation sites in the top-level
CompiledType.encode/decode) is emitted too.

Output: coq/gen/WriteSets.v (Coq) and a JSON document for the harness.
"""
import ast
import json
import os
import sys

UNIVERSE = [
    'asn1tools/compiler.py', 'asn1tools/errors.py', 'asn1tools/compat.py',
    'asn1tools/codecs/__init__.py', 'asn1tools/codecs/compiler.py',
    'asn1tools/codecs/ber.py', 'asn1tools/codecs/der.py', 'asn1tools/codecs/per.py',
    'asn1tools/codecs/uper.py', 'asn1tools/codecs/oer.py', 'asn1tools/codecs/jer.py',
    'asn1tools/codecs/xer.py', 'asn1tools/codecs/gser.py',
    'asn1tools/codecs/type_checker.py', 'asn1tools/codecs/constraints_checker.py',
    'asn1tools/codecs/permitted_alphabet.py',
]
CODECS = ['ber', 'der', 'per', 'uper', 'oer', 'jer', 'xer', 'gser']
# modules every family contains (the check_types / check_constraints machinery and the API object)
COMMON = ['compiler', 'errors', 'compat', 'codecs', 'codecs.compiler', 'codecs.type_checker',
          'codecs.constraints_checker', 'codecs.permitted_alphabet']

ROOT_METHODS = [('compiler', 'Specification', m) for m in
                ('encode', 'decode', 'decode_with_length', 'decode_length')]
# The compiled-type objects are public (spec.types[name].encode(...)): they are roots too.
COMPILED_TYPE_ROOTS = ('encode', 'decode', 'decode_with_length', 'check_types', 'check_constraints')

# documented compile-time-only functions: must NOT be reachable at run time
COMPILE_TIME = {'set_tag', 'set_size_range', 'set_restricted_to_range', 'set_default', 'set_inner_type',
                'add_tags', 'set_range'}

MUTATORS = {'append', 'extend', 'update', 'pop', 'insert', 'sort', 'reverse', 'clear', 'remove',
            'setdefault', '__setitem__', '__delitem__', 'add', 'discard', 'popitem', 'appendleft',
            'popleft', 'extendleft', 'rotate', 'difference_update', 'intersection_update',
            'symmetric_difference_update', '__iadd__', '__setattr__', '__delattr__', 'move_to_end',
            'write', 'writelines', 'truncate', 'seek', 'send', 'throw', 'close', 'set', 'put'}
# mutators that also return an element of the receiver
MUT_RETURNS_ELEM = {'pop', 'setdefault', 'popitem', 'popleft'}

# external callables (builtins, str/bytes/int/datetime/struct/... methods) that neither mutate
# their arguments nor return an alias of them
PURE_FRESH = {
    'len', 'int', 'str', 'bytes', 'bytearray', 'bool', 'float', 'isinstance', 'issubclass', 'format',
    'ord', 'chr', 'unichr', 'unicode', 'long', 'divmod', 'abs', 'range', 'sum', 'any', 'all', 'repr',
    'hash', 'id', 'type', 'round', 'pow', 'hex', 'bin', 'oct', 'callable', 'hasattr', 'print',
    'NotImplementedError', 'ValueError', 'TypeError', 'KeyError', 'IndexError', 'Exception',
    'OverflowError', 'AttributeError', 'RuntimeError', 'object', 'frozenset', 'complex', 'memoryview',
    'deepcopy',
    # str / bytes / int / float methods
    'encode', 'decode', 'join', 'strip', 'lstrip', 'rstrip', 'split', 'rsplit', 'splitlines', 'replace',
    'startswith', 'endswith', 'find', 'rfind', 'index', 'rindex', 'count', 'upper', 'lower', 'title',
    'isupper', 'islower', 'isdigit', 'isalpha', 'isalnum', 'isspace', 'zfill', 'ljust', 'rjust',
    'center', 'partition', 'rpartition', 'translate', 'bit_length', 'to_bytes', 'from_bytes', 'hex',
    'fromhex', 'is_integer', 'as_integer_ratio', 'capitalize', 'swapcase', 'casefold', 'expandtabs',
    'format_map', 'isdecimal', 'isnumeric', 'isidentifier', 'isprintable', 'istitle', 'conjugate',
    # datetime / time / math / binascii / struct / json / bitstruct / ElementTree / string
    'strptime', 'strftime', 'utcoffset', 'timedelta', 'timezone', 'total_seconds', 'date', 'time',
    'datetime', 'isoformat', 'timetuple', 'utctimetuple', 'toordinal', 'weekday', 'tzname', 'dst',
    'astimezone', 'fromtimestamp', 'utcfromtimestamp', 'now', 'utcnow', 'today', 'combine', 'timegm',
    'mktime', 'gmtime', 'localtime',
    'hexlify', 'unhexlify', 'b2a_hex', 'a2b_hex', 'pack', 'unpack', 'unpack_from', 'calcsize',
    'pack_into_not_used', 'log', 'log2', 'log10', 'ceil', 'floor', 'frexp', 'ldexp', 'isinf', 'isnan',
    'copysign', 'fabs', 'sqrt', 'trunc', 'modf', 'fmod', 'isfinite',
    'dumps', 'loads', 'tostring', 'fromstring', 'Element', 'SubElement_not_used', 'findall', 'findtext',
    'iter_not_used', 'getchildren',
    'attrgetter', 'itemgetter', 'getrefcount',
}
# fresh container / iterator whose elements are the elements of the arguments
VIEWS = {'list', 'tuple', 'dict', 'set', 'sorted', 'reversed', 'enumerate', 'zip', 'iter', 'copy',
         'items', 'values', 'keys', 'filter', 'map', 'OrderedDict', 'defaultdict', 'fromkeys'}
# return (an alias of) an element of / the receiver or an argument
ELEMENTS = {'get', 'next', 'max', 'min', 'getattr', '__getitem__', 'find', 'super', 'cast'}
# constructs that defeat the analysis
FORBIDDEN_NAMES = {'exec', 'eval', 'globals', 'locals', 'vars', 'setattr', 'delattr', 'compile',
                   '__import__', 'import_module'}
FORBIDDEN_ATTRS = {'__dict__', '__setattr__', '__delattr__', '__globals__', '__closure__', '__code__',
                   '__defaults__', '__slots__', '__bases__', '__mro__', '__subclasses__', 'modules'}
EXTERNAL_MODULES_OK = {'binascii', 'struct', 'math', 'time', 'datetime', 'json', 'ElementTree', 'bitstruct',
                       'string', 'sys', 'copy', 'calendar', 're', 'operator', 'functools', 'compat_ext'}
AUG_DUNDER = {'Add': '__iadd__', 'Sub': '__isub__', 'Mult': '__imul__', 'BitOr': '__ior__',
              'BitAnd': '__iand__', 'BitXor': '__ixor__', 'LShift': '__ilshift__', 'RShift': '__irshift__',
              'Div': '__itruediv__', 'FloorDiv': '__ifloordiv__', 'Mod': '__imod__', 'Pow': '__ipow__',
              'MatMult': '__imatmul__'}

# Augmented assignments on a *name* rebind the name; they mutate the object only if its type
# implements the in-place operator (list, bytearray, set, dict, user classes with __iXXX__).
# The analysis has no types, so an augmented assignment on a name that may alias shared state is
# reported -- except for the following audited statements (module, function, statement text) whose
# operand is an immutable value (datetime / int); the list is emitted into the Coq file.
BENIGN_AUG = {
    ('codecs', 'restricted_utc_time_from_datetime', 'date -= date.utcoffset()'):
        'datetime is immutable: -= rebinds the local name',
    ('codecs', 'restricted_generalized_time_from_datetime', 'date -= date.utcoffset()'):
        'datetime is immutable: -= rebinds the local name',
}

# indirect calls through an attribute holding a function: (attribute, (module, function) per family codec)
INDIRECT = {'_decode_length': 'decode_full_length'}

SPEC, INPUT, FRESH, EXC = 'SPEC', 'INPUT', 'FRESH', 'EXC'


class P(object):
    """Provenance: own atoms, atoms reachable from the object, optional tuple items."""
    __slots__ = ('own', 'elems', 'items')

    def __init__(self, own=(), elems=(), items=None):
        self.own = frozenset(own)
        self.elems = frozenset(elems)
        self.items = tuple(items) if items is not None else None

    def all(self):
        s = self.own | self.elems
        if self.items:
            for i in self.items:
                s = s | i.all()
        return s

    def elem(self):
        """Provenance of an element / attribute / iteration variable."""
        if self.items:
            r = P(self.elems, self.elems)
            for i in self.items:
                r = join(r, i)
            return P(r.all(), r.all())
        return P(self.elems, self.elems)

    def flat(self):
        if self.items is None:
            return self
        e = self.elems
        for i in self.items:
            e = e | i.all()
        return P(self.own, e)

    def key(self):
        return (self.own, self.elems, tuple(i.key() for i in self.items) if self.items is not None else None)

    def __eq__(self, o):
        return self.key() == o.key()

    def __ne__(self, o):
        return not self == o

    def __repr__(self):
        return 'P(%s|%s%s)' % (sorted(map(str, self.own)), sorted(map(str, self.elems)),
                               '' if self.items is None else '|' + repr(self.items))


EMPTY = P()
FRESHP = P([('fresh',)])


def join(a, b):
    if a is b:
        return a
    if a.items is not None and b.items is not None and len(a.items) == len(b.items):
        return P(a.own | b.own, a.elems | b.elems, [join(x, y) for x, y in zip(a.items, b.items)])
    if a.items is None and b.items is None:
        return P(a.own | b.own, a.elems | b.elems)
    # one is the empty provenance (constant None etc.): keep the shape of the other
    if not a.own and not a.elems and a.items is None:
        return b
    if not b.own and not b.elems and b.items is None:
        return a
    a, b = a.flat(), b.flat()
    return P(a.own | b.own, a.elems | b.elems)


class Fn(object):
    def __init__(self, module, cls, node):
        self.module = module
        self.cls = cls
        self.node = node
        self.name = node.name
        a = node.args
        self.params = [x.arg for x in a.posonlyargs + a.args]
        self.is_method = cls is not None and not any(
            isinstance(d, ast.Name) and d.id == 'staticmethod' for d in node.decorator_list)
        self.is_property = any(isinstance(d, ast.Name) and d.id == 'property' for d in node.decorator_list)
        self.other_decorators = [ast.unparse(d) for d in node.decorator_list
                                 if not (isinstance(d, ast.Name) and d.id in ('property', 'staticmethod'))]
        self.self_name = self.params[0] if self.is_method and self.params else None
        self.pos = self.params[1:] if self.is_method else list(self.params)
        self.ndefaults = len(a.defaults)
        self.vararg = a.vararg.arg if a.vararg else None
        self.kwarg = a.kwarg.arg if a.kwarg else None
        self.kwonly = [x.arg for x in a.kwonlyargs]
        self.mutable_defaults = {}
        defaults = [None] * (len(a.posonlyargs + a.args) - len(a.defaults)) + list(a.defaults)
        for p, d in list(zip(self.params, defaults)) + list(zip(self.kwonly, a.kw_defaults)):
            if d is not None and is_mutable_expr(d):
                self.mutable_defaults[p] = ast.unparse(d)

    @property
    def qual(self):
        return (self.module, self.cls or '', self.name)

    def accepts(self, npos, kwnames, star):
        if star:
            return True
        if npos > len(self.pos) and not self.vararg:
            return False
        given = set(self.pos[:npos])
        for k in kwnames:
            if k is None:
                return True
            if k in given:
                return False
            if k not in self.pos and k not in self.kwonly and not self.kwarg:
                return False
            given.add(k)
        required = self.pos[:len(self.pos) - self.ndefaults] if self.ndefaults else self.pos
        return all(r in given for r in required)


def is_mutable_expr(e):
    if isinstance(e, (ast.List, ast.Dict, ast.Set, ast.ListComp, ast.DictComp, ast.SetComp)):
        return True
    if isinstance(e, ast.Call):
        f = e.func
        n = f.id if isinstance(f, ast.Name) else f.attr if isinstance(f, ast.Attribute) else ''
        return n not in ('object', 'frozenset', 'tuple', 'str', 'bytes', 'int', 'float', 'bool', 'join',
                         'range', 'format', 'namedtuple')
    return False


class Module(object):
    def __init__(self, repo, rel):
        self.rel = rel
        name = rel[len('asn1tools/'):-3].replace('/', '.')
        if name.endswith('.__init__'):
            name = name[:-len('.__init__')]
        self.name = name                      # compiler, codecs, codecs.ber ...
        self.tree = ast.parse(open(os.path.join(repo, rel)).read(), rel)
        self.functions = {}                   # name -> Fn
        self.classes = {}                     # name -> ClassDef
        self.methods = {}                     # (cls, name) -> Fn
        self.class_attrs = {}                 # cls -> {name: mutable?}
        self.globals = {}                     # name -> ('mutable'|'const', line)
        self.imports = {}                     # local name -> ('module', modname) | ('name', modname, name) | ('ext', text)
        self.toplevel_unknown = []
        self._index()

    def _resolve_from(self, level, module):
        pkg = self.name.split('.') if self.rel.endswith('__init__.py') else self.name.split('.')[:-1]
        if level == 0:
            return None
        base = pkg[:len(pkg) - (level - 1)] if level - 1 else pkg
        if level - 1 > len(pkg):
            return None
        parts = base + (module.split('.') if module else [])
        return '.'.join(parts)

    def _index(self):
        for st in self.tree.body:
            self._index_stmt(st)

    def _index_stmt(self, st):
        if isinstance(st, ast.FunctionDef):
            self.functions[st.name] = Fn(self.name, None, st)
        elif isinstance(st, ast.ClassDef):
            self.classes[st.name] = st
            self.class_attrs[st.name] = {}
            for b in st.body:
                if isinstance(b, ast.FunctionDef):
                    self.methods[(st.name, b.name)] = Fn(self.name, st.name, b)
                elif isinstance(b, (ast.Assign, ast.AnnAssign)):
                    tg = b.targets if isinstance(b, ast.Assign) else [b.target]
                    for t in tg:
                        if isinstance(t, ast.Name):
                            self.class_attrs[st.name][t.id] = (b.value is not None and is_mutable_expr(b.value),
                                                               b.lineno)
                elif isinstance(b, (ast.Expr, ast.Pass)):
                    pass
                else:
                    self.toplevel_unknown.append((b.lineno, 'class-body statement ' + type(b).__name__))
        elif isinstance(st, (ast.Assign, ast.AnnAssign, ast.AugAssign)):
            tg = st.targets if isinstance(st, ast.Assign) else [st.target]
            for t in tg:
                for n in ast.walk(t):
                    if isinstance(n, ast.Name):
                        mut = st.value is not None and is_mutable_expr(st.value)
                        self.globals[n.id] = ('mutable' if mut else 'const', st.lineno)
        elif isinstance(st, ast.Import):
            for a in st.names:
                self.imports[(a.asname or a.name).split('.')[0]] = ('ext', a.name)
        elif isinstance(st, ast.ImportFrom):
            target = self._resolve_from(st.level, st.module) if st.level else None
            for a in st.names:
                local = a.asname or a.name
                if target is None:
                    self.imports[local] = ('ext', (st.module or '') + '.' + a.name)
                else:
                    self.imports[local] = ('rel', target, a.name)
        elif isinstance(st, ast.Try):
            for b in st.body + [x for h in st.handlers for x in h.body] + st.orelse + st.finalbody:
                self._index_stmt(b)
        elif isinstance(st, ast.If):
            for b in st.body + st.orelse:
                self._index_stmt(b)
        elif isinstance(st, (ast.Expr, ast.Pass)):
            pass
        else:
            self.toplevel_unknown.append((st.lineno, 'module-level statement ' + type(st).__name__))


class World(object):
    def __init__(self, repo):
        self.repo = repo
        self.modules = {}
        for rel in UNIVERSE:
            m = Module(repo, rel)
            self.modules[m.name] = m

    def family(self, codec):
        """Import closure of codecs.<codec> inside the universe, plus the common modules."""
        seen = set()
        todo = ['codecs.' + codec] + COMMON
        while todo:
            n = todo.pop()
            if n in seen or n not in self.modules:
                continue
            seen.add(n)
            for imp in self.modules[n].imports.values():
                if imp[0] == 'rel':
                    if imp[1] in self.modules:
                        todo.append(imp[1])
                    if imp[1] + '.' + imp[2] in self.modules:
                        todo.append(imp[1] + '.' + imp[2])
        # the other codec modules reachable only through asn1tools/compiler.py's imports are not
        # part of the family: a Specification compiled for one codec holds objects of that codec only
        return sorted(seen)


class Event(object):
    """A write (or an unclassifiable construct) at a source line."""

    def __init__(self, fn, line, kind, detail, atoms, text):
        self.fn, self.line, self.kind, self.detail, self.atoms, self.text = fn, line, kind, detail, frozenset(atoms), text


class Analysis(object):
    """One family."""

    def __init__(self, world, codec):
        self.w = world
        self.codec = codec
        self.mods = [world.modules[n] for n in world.family(codec)]
        self.modnames = set(m.name for m in self.mods)
        self.by_name = {}          # function name -> [Fn]  (methods)
        self.funcs_by_name = {}    # module-level functions by name
        self.props = {}            # property name -> [Fn]
        self.class_of = {}         # class name -> [(module, ClassDef)]
        for m in self.mods:
            for (c, n), f in m.methods.items():
                (self.props if f.is_property else self.by_name).setdefault(n, []).append(f)
            for n, f in m.functions.items():
                self.funcs_by_name.setdefault(n, []).append(f)
            for c, node in m.classes.items():
                self.class_of.setdefault(c, []).append((m, node))
        self.inflow = {}           # Fn.qual -> {param: P of root atoms}
        self.returns = {}          # Fn.qual -> P over local atoms
        self.reach = {}            # Fn.qual -> Fn
        self.events = {}           # Fn.qual -> {(line, kind, detail): Event}
        self.global_reads = set()  # (qual, global module, name, line)
        self.ctor_sites = set()    # (class module, class, in qual, line)
        self.unknown_ext = set()
        self.changed = True

    # ---- roots ---------------------------------------------------------------
    def seed(self):
        spec = P([SPEC], [SPEC])
        inp = P([INPUT], [INPUT])
        for mod, cls, name in ROOT_METHODS:
            f = self.w.modules[mod].methods.get((cls, name))
            if f is None:
                raise SystemExit('writesets: root %s.%s.%s not found' % (mod, cls, name))
            flow = {'self': spec}
            for p in f.pos:
                flow[p] = inp if p in ('data',) else (EMPTY if p in ('name', 'check_types', 'check_constraints') else inp)
            if f.kwarg:
                flow[f.kwarg] = inp
            self.add_inflow(f, flow)
        for m in self.mods:
            for (cls, name), f in m.methods.items():
                if cls.startswith('Compiled') and name in COMPILED_TYPE_ROOTS:
                    flow = {'self': spec}
                    for p in f.pos + f.kwonly + [x for x in (f.kwarg, f.vararg) if x]:
                        flow[p] = inp
                    self.add_inflow(f, flow)

    def add_inflow(self, f, flow):
        cur = self.inflow.setdefault(f.qual, {})
        if f.qual not in self.reach:
            self.reach[f.qual] = f
            self.changed = True
        for p, v in flow.items():
            v = v.flat()
            old = cur.get(p)
            new = v if old is None else join(old, v)
            if old is None or new != old:
                cur[p] = new
                self.changed = True

    # ---- fixpoint ------------------------------------------------------------
    def run(self):
        self.seed()
        rounds = 0
        while self.changed:
            self.changed = False
            rounds += 1
            if rounds > 60:
                raise SystemExit('writesets: no fixpoint')
            for q in sorted(self.reach):
                FnRun(self, self.reach[q]).run()
            # implicit dunder methods and properties of classes that have a reachable method
            self.implicit()
        return self

    def implicit(self):
        cls_flow = {}
        for q, f in list(self.reach.items()):
            if f.cls and not (f.name.startswith('__') and f.name != '__init__' and f.name != '__iadd__'):
                s = self.inflow[q].get('self')
                if s is not None:
                    key = (f.module, f.cls)
                    cls_flow[key] = join(cls_flow.get(key, EMPTY), s)
        # propagate along inheritance (both directions: a method of a base runs on instances of the subclass)
        for m in self.mods:
            for c, node in m.classes.items():
                fam = self.related(m, c)
                tot = EMPTY
                for k in fam:
                    tot = join(tot, cls_flow.get(k, EMPTY))
                if not tot.own and not tot.elems:
                    continue
                for (cc, name), f in m.methods.items():
                    if cc == c and name.startswith('__') and name.endswith('__') and name not in ('__init__',):
                        flow = {'self': tot}
                        for p in f.pos:
                            flow[p] = join(self.inflow.get(f.qual, {}).get(p, EMPTY), P([SPEC, INPUT], [SPEC, INPUT])) \
                                if name != '__iadd__' else self.inflow.get(f.qual, {}).get(p, EMPTY)
                        self.add_inflow(f, flow)

    def related(self, m, c, seen=None):
        """(module, class) keys of c, its bases and its subclasses inside the family."""
        out = set()
        todo = [(m.name, c)]
        while todo:
            k = todo.pop()
            if k in out:
                continue
            out.add(k)
            mod = self.w.modules[k[0]]
            node = mod.classes.get(k[1])
            if node is None:
                continue
            for b in node.bases:
                r = self.resolve_class_expr(mod, b)
                if r:
                    todo.append(r)
            for mm in self.mods:
                for cc, nn in mm.classes.items():
                    for b in nn.bases:
                        if self.resolve_class_expr(mm, b) == k:
                            todo.append((mm.name, cc))
        return out

    def resolve_class_expr(self, mod, e):
        if isinstance(e, ast.Name):
            if e.id in mod.classes:
                return (mod.name, e.id)
            imp = mod.imports.get(e.id)
            if imp and imp[0] == 'rel' and imp[1] in self.w.modules and imp[2] in self.w.modules[imp[1]].classes:
                return (imp[1], imp[2])
        elif isinstance(e, ast.Attribute) and isinstance(e.value, ast.Name):
            imp = mod.imports.get(e.value.id)
            if imp and imp[0] == 'rel':
                target = imp[1] + '.' + imp[2] if imp[1] + '.' + imp[2] in self.w.modules else None
                if target and e.attr in self.w.modules[target].classes:
                    return (target, e.attr)
        return None

    def event(self, fn, line, kind, detail, atoms, text):
        d = self.events.setdefault(fn.qual, {})
        k = (line, kind, detail)
        if k in d:
            if not atoms <= d[k].atoms:
                d[k].atoms = d[k].atoms | frozenset(atoms)
        else:
            d[k] = Event(fn, line, kind, detail, atoms, text)


class FnRun(object):
    """Abstract execution of one function body under the current summaries."""

    def __init__(self, an, fn):
        self.an = an
        self.fn = fn
        self.mod = an.w.modules[fn.module]
        self.ret = None
        self.local_names = set()
        for n in ast.walk(fn.node):
            if isinstance(n, ast.Name) and isinstance(n.ctx, (ast.Store, ast.Del)):
                self.local_names.add(n.id)
            elif isinstance(n, ast.ExceptHandler) and n.name:
                self.local_names.add(n.name)
            elif isinstance(n, ast.arg):
                self.local_names.add(n.arg)
        self.declared_global = set()
        for n in ast.walk(fn.node):
            if isinstance(n, (ast.Global, ast.Nonlocal)):
                self.declared_global.update(n.names)

    # ---- concretisation ------------------------------------------------------
    def conc(self, atoms):
        """local atoms -> root atoms via this function's inflow"""
        flow = self.an.inflow.get(self.fn.qual, {})
        out = set()
        for a in atoms:
            if a[0] == 'fresh':
                out.add(FRESH)
            elif a[0] == 'exc':
                out.add(EXC)
            elif a[0] == 'self':
                out |= flow.get('self', EMPTY).own
            elif a[0] == 'selfattr':
                out |= flow.get('self', EMPTY).elems
            elif a[0] == 'param':
                p = flow.get(a[1], EMPTY)
                out |= (p.own if a[2] == 'own' else p.elems)
            elif a[0] in ('global', 'unknown'):
                out.add(a)
            else:
                out.add(a)
        return out

    def concP(self, p):
        p = p.flat()
        return P(self.conc(p.own), self.conc(p.elems))

    # ---- run -------------------------------------------------------------------
    def run(self):
        fn = self.fn
        env = {}
        if fn.other_decorators:
            self.ev(fn.node.lineno, 'Unclassified', 'decorator ' + fn.other_decorators[0], [('unknown', 'decorator')],
                    fn.other_decorators[0])
        if fn.self_name:
            env[fn.self_name] = P([('self',)], [('selfattr', '*')])
        for p in fn.pos + fn.kwonly + [x for x in (fn.vararg, fn.kwarg) if x]:
            own = [('param', p, 'own')]
            el = [('param', p, 'elems')]
            if p in fn.mutable_defaults:
                g = ('global', fn.module, '%s.%s:default(%s)' % (fn.cls or '', fn.name, p))
                own.append(g)
                el.append(g)
            if p in (fn.vararg, fn.kwarg):
                env[p] = P([('fresh',)], own + el)
            else:
                env[p] = P(own, el)
        env = self.block(fn.node.body, env)
        ret = self.ret if self.ret is not None else EMPTY
        old = self.an.returns.get(fn.qual)
        new = ret if old is None else join(old, ret)
        if old is None or new != old:
            self.an.returns[fn.qual] = new
            self.an.changed = True

    def ev(self, line, kind, detail, atoms, node_or_text):
        text = node_or_text if isinstance(node_or_text, str) else ast.unparse(node_or_text)
        self.an.event(self.fn, line, kind, detail, frozenset(atoms), text.split('\n')[0][:100])

    # ---- statements ------------------------------------------------------------
    def block(self, stmts, env):
        for s in stmts:
            env = self.stmt(s, env)
        return env

    def joinenv(self, a, b):
        out = {}
        for k in set(a) | set(b):
            if k in a and k in b:
                out[k] = join(a[k], b[k])
            else:
                out[k] = a.get(k) or b.get(k)
        return out

    def enveq(self, a, b):
        return set(a) == set(b) and all(a[k] == b[k] for k in a)

    def stmt(self, s, env):
        if isinstance(s, ast.Expr):
            self.expr(s.value, env)
        elif isinstance(s, ast.Assign):
            v = self.expr(s.value, env)
            for t in s.targets:
                env = self.assign(t, v, env, s)
        elif isinstance(s, ast.AnnAssign):
            if s.value is not None:
                env = self.assign(s.target, self.expr(s.value, env), env, s)
        elif isinstance(s, ast.AugAssign):
            env = self.augassign(s, env)
        elif isinstance(s, ast.Delete):
            for t in s.targets:
                if isinstance(t, ast.Name):
                    env = dict(env)
                    env.pop(t.id, None)
                elif isinstance(t, ast.Attribute):
                    self.write(t.value, env, 'DelAttr', t.attr, s, attr=t.attr)
                elif isinstance(t, ast.Subscript):
                    self.expr(t.slice, env)
                    self.write(t.value, env, 'DelItem', '', s)
                else:
                    self.ev(s.lineno, 'Unclassified', 'del target', [('unknown', 'del')], s)
        elif isinstance(s, ast.Return):
            if s.value is not None:
                v = self.expr(s.value, env)
                self.ret = v if self.ret is None else join(self.ret, v)
        elif isinstance(s, ast.If):
            self.expr(s.test, env)
            e1 = self.block(s.body, dict(env))
            e2 = self.block(s.orelse, dict(env))
            env = self.joinenv(e1, e2)
        elif isinstance(s, (ast.For, ast.While)):
            cur = dict(env)
            for _ in range(12):
                start = dict(cur)
                if isinstance(s, ast.For):
                    it = self.expr(s.iter, start)
                    start = self.assign(s.target, it.elem(), start, s)
                else:
                    self.expr(s.test, start)
                after = self.block(s.body, start)
                nxt = self.joinenv(cur, after)
                if self.enveq(nxt, cur):
                    break
                cur = nxt
            else:
                self.ev(s.lineno, 'Unclassified', 'loop did not stabilise', [('unknown', 'loop')], 'loop')
            env = self.block(s.orelse, dict(cur)) if s.orelse else cur
            env = self.joinenv(env, cur)
        elif isinstance(s, ast.Try):
            body = self.block(s.body, dict(env))
            mid = self.joinenv(env, body)
            outs = [self.block(s.orelse, dict(body)) if s.orelse else body]
            for h in s.handlers:
                he = dict(mid)
                if h.type is not None:
                    self.expr(h.type, he)
                if h.name:
                    he[h.name] = P([('exc',)], [('exc',)])
                outs.append(self.block(h.body, he))
            env = outs[0]
            for o in outs[1:]:
                env = self.joinenv(env, o)
            if s.finalbody:
                env = self.block(s.finalbody, env)
        elif isinstance(s, ast.With):
            for it in s.items:
                v = self.expr(it.context_expr, env)
                if it.optional_vars is not None:
                    env = self.assign(it.optional_vars, v, env, s)
            env = self.block(s.body, env)
        elif isinstance(s, ast.Raise):
            if s.exc is not None:
                self.expr(s.exc, env)
            if s.cause is not None:
                self.expr(s.cause, env)
        elif isinstance(s, ast.Assert):
            self.expr(s.test, env)
        elif isinstance(s, (ast.Pass, ast.Break, ast.Continue)):
            pass
        elif isinstance(s, (ast.Global, ast.Nonlocal)):
            for n in s.names:
                self.ev(s.lineno, 'GlobalDecl', n, [('global', self.fn.module, n)], s)
        elif isinstance(s, (ast.Import, ast.ImportFrom)):
            self.ev(s.lineno, 'Unclassified', 'import inside a function', [('unknown', 'import')], s)
        elif isinstance(s, (ast.FunctionDef, ast.ClassDef, ast.AsyncFunctionDef)):
            self.ev(s.lineno, 'Unclassified', 'nested def/class', [('unknown', 'nested def')], s.name)
        else:
            self.ev(s.lineno, 'Unclassified', 'statement ' + type(s).__name__, [('unknown', 'stmt')], type(s).__name__)
        return env

    def assign(self, t, v, env, s):
        if isinstance(t, ast.Name):
            if t.id in self.declared_global:
                self.ev(s.lineno, 'GlobalStore', t.id, [('global', self.fn.module, t.id)], s)
                return env
            env = dict(env)
            env[t.id] = v
            return env
        if isinstance(t, (ast.Tuple, ast.List)):
            n = len(t.elts)
            if v.items is not None and len(v.items) == n and not any(isinstance(e, ast.Starred) for e in t.elts):
                for e, vi in zip(t.elts, v.items):
                    env = self.assign(e, vi, env, s)
            else:
                for e in t.elts:
                    env = self.assign(e.value if isinstance(e, ast.Starred) else e, v.elem(), env, s)
            return env
        if isinstance(t, ast.Attribute):
            self.write(t.value, env, 'AttrStore', t.attr, s, attr=t.attr)
            return self.taint(t.value, v, env)
        if isinstance(t, ast.Subscript):
            self.expr(t.slice, env)
            self.write(t.value, env, 'ItemStore', '', s)
            return self.taint(t.value, v, env)
        if isinstance(t, ast.Starred):
            return self.assign(t.value, v, env, s)
        self.ev(s.lineno, 'Unclassified', 'assignment target', [('unknown', 'target')], s)
        return env

    def taint(self, recv, v, env):
        """storing v into the object denoted by recv makes v reachable from it"""
        if isinstance(recv, ast.Name) and recv.id in env:
            cur = env[recv.id].flat()
            env = dict(env)
            env[recv.id] = P(cur.own, cur.elems | v.all())
        return env

    def augassign(self, s, env):
        t = s.target
        v = self.expr(s.value, env)
        if isinstance(t, ast.Name):
            cur = self.expr(ast.Name(id=t.id, ctx=ast.Load(), lineno=s.lineno, col_offset=0), env)
            if t.id in self.declared_global:
                self.ev(s.lineno, 'GlobalStore', t.id, [('global', self.fn.module, t.id)], s)
            key = (self.fn.module, self.fn.name, ast.unparse(s))
            if cur.own and key not in BENIGN_AUG:
                dunder = AUG_DUNDER[type(s.op).__name__]
                cands = [f for f in self.an.by_name.get(dunder, [])]
                # a name holding a user object with __iXXX__: call it; otherwise possible in-place
                # operator of a builtin container
                for f in cands:
                    self.call_fn(f, cur, [v], {}, env, s)
                self.ev(s.lineno, 'AugName', type(s.op).__name__, cur.own, s)
            env = dict(env)
            env[t.id] = join(cur, P((), v.all())) if cur.own else EMPTY
            return env
        if isinstance(t, ast.Attribute):
            self.write(t.value, env, 'AugAttr', t.attr, s, attr=t.attr)
            return self.taint(t.value, v, env)
        if isinstance(t, ast.Subscript):
            self.expr(t.slice, env)
            self.write(t.value, env, 'AugItem', '', s)
            return self.taint(t.value, v, env)
        self.ev(s.lineno, 'Unclassified', 'augmented target', [('unknown', 'target')], s)
        return env

    def write(self, recv_expr, env, kind, detail, node, attr=None):
        """a store through recv_expr (the object whose attribute / item is written)"""
        if isinstance(recv_expr, ast.Name) and recv_expr.id == self.fn.self_name and attr is not None:
            atoms = [('selfstore', attr)]
        else:
            p = self.expr(recv_expr, env)
            atoms = list(p.own)
            r = self.resolve_static(recv_expr)
            if r is not None:
                atoms.append(('global', r[0], r[1] + ('.' + attr if attr else '')))
            if not atoms:
                # a store into an object of no known provenance (constant / immutable): cannot happen
                # for a constant; fail closed
                atoms = [('unknown', 'store into object of unknown provenance: ' + ast.unparse(recv_expr))]
        self.ev(node.lineno, kind, detail, atoms, node)

    def resolve_static(self, e):
        """a Name / module.attr denoting a class or module of the universe (writing its attribute is
        a write to global state)"""
        if isinstance(e, ast.Name) and e.id not in self.local_names:
            if e.id in self.mod.classes:
                return (self.mod.name, e.id)
            imp = self.mod.imports.get(e.id)
            if imp:
                return (imp[1] if imp[0] == 'rel' else 'ext:' + imp[1], imp[2] if imp[0] == 'rel' else e.id)
            if e.id in self.mod.globals or e.id in self.mod.functions:
                return (self.mod.name, e.id)
        if isinstance(e, ast.Attribute):
            r = self.resolve_static(e.value)
            if r is not None:
                return (r[0], r[1] + '.' + e.attr)
            if e.attr == '__class__':
                return (self.fn.module, ast.unparse(e))
        if isinstance(e, ast.Call) and isinstance(e.func, ast.Name) and e.func.id == 'type' and len(e.args) == 1:
            return (self.fn.module, ast.unparse(e))
        return None

    # ---- expressions -------------------------------------------------------------
    def expr(self, e, env):
        m = getattr(self, 'e_' + type(e).__name__, None)
        if m is None:
            self.ev(getattr(e, 'lineno', 0), 'Unclassified', 'expression ' + type(e).__name__,
                    [('unknown', 'expr')], type(e).__name__)
            return P([('unknown', 'expr')], [('unknown', 'expr')])
        return m(e, env)

    def e_Constant(self, e, env):
        return EMPTY

    def e_JoinedStr(self, e, env):
        for v in e.values:
            self.expr(v, env)
        return EMPTY

    def e_FormattedValue(self, e, env):
        self.expr(e.value, env)
        return EMPTY

    def e_Name(self, e, env):
        if e.id in env:
            return env[e.id]
        if e.id in self.local_names and e.id not in self.declared_global:
            return EMPTY           # local not yet bound on this path
        if e.id in FORBIDDEN_NAMES:
            self.ev(e.lineno, 'Unclassified', 'use of ' + e.id, [('unknown', e.id)], e.id)
        return self.global_name(self.mod, e.id, e.lineno)

    def global_name(self, mod, name, line, depth=0):
        g = mod.globals.get(name)
        if g is not None:
            if g[0] == 'mutable':
                self.an.global_reads.add((self.fn.qual, mod.name, name, line))
                a = ('global', mod.name, name)
                return P([a], [a])
            return EMPTY
        if name in mod.classes or name in mod.functions:
            return EMPTY
        imp = mod.imports.get(name)
        if imp and imp[0] == 'rel' and depth < 5:
            if imp[1] in self.an.w.modules:
                tm = self.an.w.modules[imp[1]]
                if imp[2] in tm.globals or imp[2] in tm.classes or imp[2] in tm.functions or imp[2] in tm.imports:
                    return self.global_name(tm, imp[2], line, depth + 1)
            return EMPTY           # a module of the package, or a constant of a module outside the universe (parser)
        return EMPTY               # builtins, external modules

    def e_Attribute(self, e, env):
        if e.attr in FORBIDDEN_ATTRS:
            self.ev(e.lineno, 'Unclassified', 'use of ' + e.attr, [('unknown', e.attr)], e)
        if isinstance(e.value, ast.Name) and e.value.id == self.fn.self_name and e.value.id in env \
                and env[e.value.id].own == frozenset([('self',)]):
            base = P([('selfattr', e.attr)], [('selfattr', e.attr)])
            recv = env[e.value.id]
        else:
            # module.attr of a universe module: a global of that module
            if isinstance(e.value, ast.Name) and e.value.id not in self.local_names:
                imp = self.mod.imports.get(e.value.id)
                if imp and imp[0] == 'rel':
                    target = imp[1] + '.' + imp[2]
                    if target in self.an.w.modules:
                        return self.global_name(self.an.w.modules[target], e.attr, e.lineno)
                    if imp[1] in self.an.w.modules and imp[2] in self.an.w.modules[imp[1]].classes:
                        ca = self.an.w.modules[imp[1]].class_attrs[imp[2]].get(e.attr)
                        if ca and ca[0]:
                            a = ('global', imp[1], imp[2] + '.' + e.attr)
                            return P([a], [a])
                        return EMPTY
                if imp and imp[0] == 'ext':
                    return EMPTY
                if e.value.id in self.mod.classes:
                    ca = self.mod.class_attrs[e.value.id].get(e.attr)
                    if ca and ca[0]:
                        a = ('global', self.mod.name, e.value.id + '.' + e.attr)
                        self.an.global_reads.add((self.fn.qual, self.mod.name, e.value.id + '.' + e.attr, e.lineno))
                        return P([a], [a])
                    return EMPTY
            recv = self.expr(e.value, env)
            base = recv.elem()
        # property getters of the universe run code
        for f in self.an.props.get(e.attr, []):
            r = self.call_fn(f, recv, [], {}, env, e)
            base = join(base, r)
        return base

    def e_Subscript(self, e, env):
        v = self.expr(e.value, env)
        if isinstance(e.slice, ast.Slice):
            for x in (e.slice.lower, e.slice.upper, e.slice.step):
                if x is not None:
                    self.expr(x, env)
            vf = v.flat()
            return P([('fresh',)], vf.elems)          # a slice is a new container with the same elements
        self.expr(e.slice, env)
        if v.items is not None and isinstance(e.slice, ast.Constant) and isinstance(e.slice.value, int) \
                and -len(v.items) <= e.slice.value < len(v.items):
            return v.items[e.slice.value]
        return v.elem()

    def e_Starred(self, e, env):
        return self.expr(e.value, env)

    def _seq(self, elts, env):
        items = [self.expr(x, env) for x in elts]
        return items

    def e_Tuple(self, e, env):
        if any(isinstance(x, ast.Starred) for x in e.elts):
            items = self._seq(e.elts, env)
            al = set()
            for i in items:
                al |= i.all()
            return P([('fresh',)], al)
        return P([('fresh',)], (), self._seq(e.elts, env))

    def e_List(self, e, env):
        al = set()
        for i in self._seq(e.elts, env):
            al |= i.all()
        return P([('fresh',)], al)

    e_Set = e_List

    def e_Dict(self, e, env):
        al = set()
        for k in e.keys:
            if k is not None:
                al |= self.expr(k, env).all()
        for v in e.values:
            al |= self.expr(v, env).all()
        return P([('fresh',)], al)

    def _comp(self, e, env, elts):
        env = dict(env)
        for g in e.generators:
            it = self.expr(g.iter, env)
            env = self.assign(g.target, it.elem(), env, e)
            for c in g.ifs:
                self.expr(c, env)
        al = set()
        for x in elts:
            al |= self.expr(x, env).all()
        return P([('fresh',)], al)

    def e_ListComp(self, e, env):
        return self._comp(e, env, [e.elt])

    e_SetComp = e_ListComp
    e_GeneratorExp = e_ListComp

    def e_DictComp(self, e, env):
        return self._comp(e, env, [e.key, e.value])

    def e_BinOp(self, e, env):
        self.expr(e.left, env)
        self.expr(e.right, env)
        # a new object; for list + list the elements are shared
        l, r = self.expr(e.left, env), self.expr(e.right, env)
        return P([('fresh',)] if (l.all() or r.all()) else (), l.flat().elems | r.flat().elems)

    def e_UnaryOp(self, e, env):
        self.expr(e.operand, env)
        return EMPTY

    def e_BoolOp(self, e, env):
        r = EMPTY
        for v in e.values:
            r = join(r, self.expr(v, env))
        return r

    def e_Compare(self, e, env):
        self.expr(e.left, env)
        for c in e.comparators:
            self.expr(c, env)
        return EMPTY

    def e_IfExp(self, e, env):
        self.expr(e.test, env)
        return join(self.expr(e.body, env), self.expr(e.orelse, env))

    def e_Lambda(self, e, env):
        self.ev(e.lineno, 'Unclassified', 'lambda', [('unknown', 'lambda')], e)
        return P([('unknown', 'lambda')], [('unknown', 'lambda')])

    def e_NamedExpr(self, e, env):
        self.ev(e.lineno, 'Unclassified', 'walrus', [('unknown', 'walrus')], e)
        return self.expr(e.value, env)

    def e_Yield(self, e, env):
        self.ev(e.lineno, 'Unclassified', 'generator', [('unknown', 'yield')], e)
        return EMPTY

    e_YieldFrom = e_Yield
    e_Await = e_Yield

    def e_Slice(self, e, env):
        for x in (e.lower, e.upper, e.step):
            if x is not None:
                self.expr(x, env)
        return EMPTY

    # ---- calls ---------------------------------------------------------------------
    def e_Call(self, e, env):
        f = e.func
        args = [self.expr(a, env) for a in e.args]
        star = any(isinstance(a, ast.Starred) for a in e.args) or any(k.arg is None for k in e.keywords)
        kw = {}
        kwstar = []
        for k in e.keywords:
            v = self.expr(k.value, env)
            if k.arg is None:
                kwstar.append(v)
            else:
                kw[k.arg] = v
        allargs = args + list(kw.values()) + kwstar

        def args_atoms():
            s = set()
            for a in allargs:
                s |= a.all()
            return s

        # --- super().m(...) / super(X, self).m(...)
        if isinstance(f, ast.Attribute) and isinstance(f.value, ast.Call) and isinstance(f.value.func, ast.Name) \
                and f.value.func.id == 'super':
            recv = env.get(self.fn.self_name, EMPTY)
            return self.method_call(f.attr, recv, args, kw, star, env, e, via_self=True, external_ok=False)
        if isinstance(f, ast.Attribute):
            name = f.attr
            # module-qualified call
            if isinstance(f.value, ast.Name) and f.value.id not in self.local_names and f.value.id not in env:
                imp = self.mod.imports.get(f.value.id)
                if imp is not None:
                    if imp[0] == 'rel':
                        target = imp[1] + '.' + imp[2]
                        if target in self.an.w.modules:
                            return self.static_call(self.an.w.modules[target], name, args, kw, star, env, e)
                        if imp[1] in self.an.w.modules and imp[2] in self.an.w.modules[imp[1]].classes:
                            # Class.method(...) -- unbound call
                            return self.method_call(name, EMPTY, args, kw, star, env, e, unbound=True)
                        # a module outside the universe (parser): not run-time code
                        return self.external(name, EMPTY, allargs, e, module='asn1tools.' + target)
                    return self.external(name, EMPTY, allargs, e, module=imp[1])
                if f.value.id in self.mod.classes:
                    return self.method_call(name, EMPTY, args, kw, star, env, e, unbound=True)
                # a builtin type used as namespace: int.from_bytes, dict.fromkeys, bytes.fromhex ...
                if f.value.id in ('int', 'bytes', 'bytearray', 'str', 'dict', 'float', 'datetime', 'object', 'list',
                                  'set', 'tuple'):
                    if name in MUTATORS:
                        # list.append(x, ...) style unbound mutator call
                        if args:
                            self.ev(e.lineno, 'MutCall', name, args[0].own or [('unknown', 'unbound mutator')], e)
                        return EMPTY
                    return self.external(name, EMPTY, allargs, e, module='builtins')
            if name in FORBIDDEN_ATTRS:
                self.ev(e.lineno, 'Unclassified', 'use of ' + name, [('unknown', name)], e)
            # x.__class__(...): constructor of the class of x
            if name == '__class__':
                self.expr(f.value, env)
                self.ctor_from_class_of(f.value, env, args, kw, star, e)
                return FRESHP
            recv = self.expr(f.value, env)
            via_self = isinstance(f.value, ast.Name) and f.value.id == self.fn.self_name
            return self.method_call(name, recv, args, kw, star, env, e, via_self=via_self)
        if isinstance(f, ast.Name):
            name = f.id
            if name in env or (name in self.local_names and name not in self.mod.functions and name not in self.mod.classes):
                self.ev(e.lineno, 'Unclassified', 'call of a local/parameter value ' + name, [('unknown', 'indirect call')], e)
                a = args_atoms() | env.get(name, EMPTY).all()
                return P(a | {('unknown', 'indirect call')}, a)
            if name in FORBIDDEN_NAMES:
                # setattr(obj, 'const', v) on a provably call-local object is an attribute store
                if name in ('setattr', 'delattr') and len(e.args) >= 2 and isinstance(e.args[1], ast.Constant):
                    self.write(e.args[0], env, 'AttrStore', str(e.args[1].value), e, attr=str(e.args[1].value))
                    return EMPTY
                self.ev(e.lineno, 'Unclassified', 'call of ' + name, [('unknown', name)], e)
                return P([('unknown', name)], [('unknown', name)])
            return self.static_call(self.mod, name, args, kw, star, env, e)
        # call of a call result / subscript / lambda ...
        if isinstance(f, ast.Call) and isinstance(f.func, ast.Name) and f.func.id == 'type' and len(f.args) == 1:
            self.ctor_from_class_of(f.args[0], env, args, kw, star, e)
            return FRESHP
        self.expr(f, env)
        self.ev(e.lineno, 'Unclassified', 'indirect call ' + ast.unparse(f)[:40], [('unknown', 'indirect call')], e)
        a = args_atoms()
        return P(a | {('unknown', 'indirect call')}, a)

    def ctor_from_class_of(self, obj_expr, env, args, kw, star, e):
        """x.__class__(...) / type(x)(...): x is an object of the family; run every __init__ that
        accepts the arguments (over-approximation) on a fresh self."""
        for f in self.an.by_name.get('__init__', []):
            if f.accepts(len(args), list(kw), star):
                self.an.ctor_sites.add((f.module, f.cls, self.fn.qual, e.lineno, 'via __class__'))
                self.call_fn(f, FRESHP, args, kw, env, e)

    def static_call(self, mod, name, args, kw, star, env, e, depth=0):
        """call of a module-level name of [mod]"""
        allargs = args + list(kw.values())
        if name in mod.functions:
            f = mod.functions[name]
            if mod.name not in self.an.modnames:
                return self.external(name, EMPTY, allargs, e, module='asn1tools.' + mod.name)
            return self.call_fn(f, None, args, kw, env, e)
        if name in mod.classes:
            return self.construct(mod, name, args, kw, star, env, e)
        imp = mod.imports.get(name)
        if imp is not None and depth < 5:
            if imp[0] == 'rel':
                if imp[1] in self.an.w.modules:
                    return self.static_call(self.an.w.modules[imp[1]], imp[2], args, kw, star, env, e, depth + 1)
                return self.external(name, EMPTY, allargs, e, module='asn1tools.' + imp[1])
            return self.external(imp[1].split('.')[-1], EMPTY, allargs, e, module=imp[1])
        if name in mod.globals:
            self.ev(e.lineno, 'Unclassified', 'call of module global ' + name, [('unknown', 'indirect call')], e)
            return P([('unknown', 'indirect call')], [('unknown', 'indirect call')])
        return self.external(name, EMPTY, allargs, e, module='builtins')

    def construct(self, mod, cname, args, kw, star, env, e):
        """ClassName(...) of a universe class: fresh object, its __init__ (first in the MRO
        approximation: the class's own, else every base's) runs on it."""
        self.an.ctor_sites.add((mod.name, cname, self.fn.qual, e.lineno, 'direct'))
        inits = self.find_inits(mod, cname)
        for f in inits:
            self.call_fn(f, FRESHP, args, kw, env, e)
        al = set()
        for a in args + list(kw.values()):
            al |= a.all()
        return P([('fresh',)], al)

    def find_inits(self, mod, cname, seen=None):
        seen = seen or set()
        if (mod.name, cname) in seen:
            return []
        seen.add((mod.name, cname))
        f = mod.methods.get((cname, '__init__'))
        if f is not None:
            return [f]
        out = []
        for b in mod.classes[cname].bases:
            r = self.an.resolve_class_expr(mod, b)
            if r:
                out += self.find_inits(self.an.w.modules[r[0]], r[1], seen)
        return out

    def method_call(self, name, recv, args, kw, star, env, e, via_self=False, unbound=False, external_ok=True):
        allargs = args + list(kw.values())
        res = None
        cands = [f for f in self.an.by_name.get(name, [])]
        matched = False
        if unbound:
            # Class.method(obj, ...): first argument is the receiver
            if args:
                recv, args = args[0], args[1:]
        for f in cands:
            if not f.is_method:
                if f.accepts(len(args), list(kw), star):
                    matched = True
                    r = self.call_fn(f, None, args, kw, env, e)
                    res = r if res is None else join(res, r)
                continue
            if f.accepts(len(args), list(kw), star):
                matched = True
                r = self.call_fn(f, recv, args, kw, env, e, via_self=via_self)
                res = r if res is None else join(res, r)
        # an attribute holding a function (documented indirect calls)
        if not matched and name in INDIRECT:
            for f in self.an.funcs_by_name.get(INDIRECT[name], []):
                matched = True
                r = self.call_fn(f, None, args, kw, env, e)
                res = r if res is None else join(res, r)
            return res if res is not None else EMPTY
        if name in MUTATORS:
            atoms = set(recv.own)
            if not atoms and not matched:
                atoms = set()      # receiver is a constant-like value: nothing shared is written
            if atoms:
                self.ev(e.lineno, 'MutCall', name, atoms, e)
                # what is stored becomes reachable from the receiver
                if isinstance(e.func, ast.Attribute):
                    for a in allargs:
                        env2 = self.taint(e.func.value, a, env)
                        env.clear()
                        env.update(env2)
            r = recv.elem() if name in MUT_RETURNS_ELEM else EMPTY
            return r if res is None else join(res, r)
        if external_ok and (not matched or name in PURE_FRESH or name in VIEWS or name in ELEMENTS):
            r = self.external(name, recv, allargs, e, module=None)
            res = r if res is None else join(res, r)
        elif not matched:
            self.ev(e.lineno, 'Unclassified', 'unresolved method ' + name, [('unknown', 'unresolved call')], e)
            res = P([('unknown', 'unresolved')], [('unknown', 'unresolved')])
        return res if res is not None else EMPTY

    def external(self, name, recv, args, e, module=None):
        """a callable outside the universe"""
        shared = set()
        for a in [recv] + list(args):
            shared |= self.conc(a.all())
        shared -= {FRESH, EXC}
        if module is not None and module.startswith('asn1tools.'):
            # another asn1tools module (parser, other codec): not analysed -> fail closed if reached with
            # anything at all (it could touch its own globals)
            self.ev(e.lineno, 'Unclassified', 'call into unanalysed module ' + module + '.' + name,
                    [('unknown', 'unanalysed module')], e)
            return P([('unknown', 'unanalysed')], [('unknown', 'unanalysed')])
        if name in FORBIDDEN_NAMES:
            self.ev(e.lineno, 'Unclassified', 'call of ' + name, [('unknown', name)], e)
        if name in PURE_FRESH:
            return FRESHP if name not in ('len', 'isinstance', 'bool', 'int', 'float', 'ord', 'hash', 'id',
                                          'hasattr', 'callable', 'issubclass') else EMPTY
        al = set()
        ow = set()
        for a in [recv] + list(args):
            al |= a.flat().elems
            ow |= a.own
        if name in VIEWS:
            return P([('fresh',)], al)
        if name in ELEMENTS:
            # get(k, default) / getattr(o, n, default) / max(a, b): an element of the receiver, or an argument
            o = set(al)
            for a in args:
                o |= a.own
            if name in ('max', 'min', 'next', 'getattr', 'cast'):
                o |= recv.own
            return P(o, al)
        # unknown external callable: if anything shared is passed it might be mutated -> fail closed
        self.an.unknown_ext.add((name, module or ''))
        if shared:
            self.ev(e.lineno, 'Unclassified', 'external callable %s%s with a shared argument' % (
                (module + '.') if module else '.', name), [('unknown', 'external ' + name)], e)
        return P(ow | al, ow | al)

    def call_fn(self, f, recv, args, kw, env, e, via_self=False):
        """bind arguments, push inflow, return the instantiated return summary"""
        binding = {}
        pos = list(f.pos)
        flat_extra = EMPTY
        for i, a in enumerate(args):
            if i < len(pos):
                binding[pos[i]] = a
            else:
                flat_extra = join(flat_extra, P(a.all(), a.all()))
        for k, v in kw.items():
            if k in pos or k in f.kwonly:
                binding[k] = v
            else:
                flat_extra = join(flat_extra, P(v.all(), v.all()))
        if f.vararg:
            binding[f.vararg] = P([('fresh',)], flat_extra.all())
        if f.kwarg:
            binding[f.kwarg] = join(binding.get(f.kwarg, EMPTY), P([('fresh',)], flat_extra.all()))
        flow = {}
        if f.is_method:
            r = recv if recv is not None else EMPTY
            if via_self:
                flow['self'] = self.an.inflow.get(self.fn.qual, {}).get('self', EMPTY)
            else:
                flow['self'] = self.concP(r)
        for p, v in binding.items():
            flow[p] = self.concP(v)
        self.an.add_inflow(f, flow)
        # instantiate the return summary
        ret = self.an.returns.get(f.qual)
        if ret is None:
            return EMPTY
        return self.subst(ret, f, recv, binding, via_self)

    def subst(self, ret, f, recv, binding, via_self):
        def sub(atoms):
            out = set()
            for a in atoms:
                if a[0] in ('fresh', 'exc', 'global', 'unknown'):
                    out.add(a)
                elif a[0] == 'self':
                    if recv is not None:
                        out |= recv.own
                elif a[0] == 'selfattr':
                    if via_self:
                        out.add(a)
                    elif recv is not None:
                        out |= recv.flat().elems
                elif a[0] == 'param':
                    b = binding.get(a[1])
                    if b is not None:
                        out |= (b.own if a[2] == 'own' else b.flat().elems)
                else:
                    out.add(a)
            return out

        def go(p):
            return P(sub(p.own), sub(p.elems), [go(i) for i in p.items] if p.items is not None else None)
        return go(ret)


# ------------------------------------------------------------------------------------
# classification and output

SHARED_KINDS = ('SelfAttr', 'SharedAlias', 'Global', 'InputValue', 'Unknown')


def classify(an, ev):
    """-> list of (receiver constructor, argument) for one event"""
    run = FnRun(an, ev.fn)
    flow = an.inflow.get(ev.fn.qual, {})
    out = set()
    for a in ev.atoms:
        if a[0] == 'unknown':
            out.add(('Unknown', a[1]))
            continue
        if a[0] == 'global':
            out.add(('Global', '%s.%s' % (a[1], a[2])))
            continue
        if a[0] == 'fresh':
            out.add(('LocalFresh', ''))
            continue
        if a[0] == 'exc':
            out.add(('CallLocalObject', 'exception in flight'))
            continue
        if a[0] in ('selfstore', 'selfattr', 'self'):
            roots = flow.get('self', EMPTY).own if a[0] != 'selfattr' else flow.get('self', EMPTY).elems
            if a[0] == 'selfstore':
                roots = flow.get('self', EMPTY).own
            name = a[1] if len(a) > 1 else 'self'
            what = 'self.' + name
        elif a[0] == 'param':
            p = flow.get(a[1], EMPTY)
            roots = p.own if a[2] == 'own' else p.elems
            name = a[1]
            what = a[1]
        else:
            out.add(('Unknown', 'atom %r' % (a,)))
            continue
        if not roots:
            # never bound by any analysed caller: dead parameter / method only reachable by name
            out.add(('CallLocalObject', what + ' (no caller passes an object)'))
        for r in roots:
            if r == SPEC:
                out.add(('SelfAttr', name) if a[0] in ('selfstore', 'selfattr', 'self') else ('SharedAlias', name))
            elif r == INPUT:
                out.add(('InputValue', what))
            elif r in (FRESH, EXC):
                out.add(('CallLocalObject', what + (' (exception in flight)' if r == EXC else '')))
            elif isinstance(r, tuple) and r[0] == 'global':
                out.add(('Global', '%s.%s' % (r[1], r[2])))
            elif isinstance(r, tuple) and r[0] == 'unknown':
                out.add(('Unknown', r[1]))
            else:
                out.add(('Unknown', 'root %r' % (r,)))
    return sorted(out)


def analyse(repo):
    world = World(repo)
    table = {}        # (module, class, method, kind, detail, recv, arg, line) -> text
    methods = {}      # (module, class) -> set(method)
    fresh_only = {}   # (module, class) -> bool (all reachable methods have FRESH-only self)
    ctor = set()
    greads = set()
    local_fresh = {}
    unknown_ext = set()
    reach_by_family = {}
    problems = []
    for m in world.modules.values():
        for line, what in m.toplevel_unknown:
            problems.append((m.name, '', '<module>', line, what))
    for codec in CODECS:
        an = Analysis(world, codec).run()
        reach_by_family[codec] = len(an.reach)
        unknown_ext |= an.unknown_ext
        for q, f in an.reach.items():
            methods.setdefault((q[0], q[1]), set()).add(q[2])
            if f.cls:
                s = an.inflow[q].get('self', EMPTY)
                roots = s.own
                only = bool(roots) and roots <= {FRESH, EXC}
                k = (q[0], q[1])
                fresh_only[k] = fresh_only.get(k, True) and only
        for q, evs in an.events.items():
            for ev in evs.values():
                for recv, arg in classify(an, ev):
                    if recv == 'LocalFresh':
                        local_fresh[q[0]] = local_fresh.get(q[0], 0) + 1
                        continue
                    kind = ev.kind if ev.kind != 'Unclassified' else 'Unclassified'
                    if ev.kind == 'Unclassified':
                        recv, arg = 'Unknown', ev.detail
                    table[(q[0], q[1], q[2], kind, ev.detail if ev.kind != 'Unclassified' else '', recv, arg, ev.line)] = ev.text
        for c in an.ctor_sites:
            ctor.add(c)
        greads |= an.global_reads
    return world, table, methods, fresh_only, ctor, greads, local_fresh, unknown_ext, reach_by_family, problems


def evidence(world, methods, fresh_only, ctor):
    """Classes whose objects are fresh per top-level call + the allocation sites."""
    out = []
    for (mod, cls), only in sorted(fresh_only.items()):
        if not only:
            continue
        sites = sorted((q, line, how) for (m, c, q, line, how) in ctor if (m, c) == (mod, cls))
        # subclasses / base classes share constructor sites (uper.Encoder is per.Encoder ...)
        out.append((mod, cls, sites))
    return out


def root_allocations(world):
    """Direct check of the mechanism quoted by the property: the top-level CompiledType.encode /
    decode of the bit-oriented codecs allocate their Encoder / Decoder locally, the BER one a
    bytearray."""
    facts = []
    want = {
        ('codecs.per', 'encode'): 'Encoder', ('codecs.per', 'decode'): 'Decoder',
        ('codecs.uper', 'encode'): 'Encoder', ('codecs.uper', 'decode'): 'Decoder',
        ('codecs.oer', 'encode'): 'Encoder', ('codecs.oer', 'decode'): 'Decoder',
        ('codecs.ber', 'encode'): 'bytearray', ('codecs.ber', 'decode_with_length'): 'bytearray',
    }
    for (mod, meth), ctor in sorted(want.items()):
        f = world.modules[mod].methods.get(('CompiledType', meth))
        ok, line = False, 0
        if f is not None:
            for st in f.node.body:
                for n in ast.walk(st):
                    if isinstance(n, ast.Call) and isinstance(n.func, ast.Name) and n.func.id == ctor:
                        ok, line = True, n.lineno
            # the allocated object must not be stored anywhere but a local name / passed as argument
        facts.append((mod, 'CompiledType', meth, ctor, ok, line))
    return facts


def coq_str(s):
    return '"%s"' % str(s).replace('"', '""')


RECV_CTOR = {'SelfAttr': 'SelfAttr', 'SharedAlias': 'SharedAlias', 'Global': 'Global', 'InputValue': 'InputValue',
             'CallLocalObject': 'CallLocalObject', 'Unknown': 'UnknownRecv'}


def emit(repo, out_v, out_json=None):
    world, table, methods, fresh_only, ctor, greads, local_fresh, unknown_ext, reach, problems = analyse(repo)
    rows = sorted(table.items(), key=lambda kv: (kv[0][0], kv[0][7], kv[0][1], kv[0][2], kv[0][3:7]))
    for (mod, cls, meth, line, what) in problems:
        rows.append(((mod, cls, meth, 'Unclassified', '', 'Unknown', what, line), what))
    # compile-time functions must not be reachable
    ct_reach = sorted((m, c, n) for (m, c), ns in methods.items() for n in ns if n in COMPILE_TIME)
    for (m, c, n) in ct_reach:
        rows.append(((m, c, n, 'Unclassified', '', 'Unknown', 'compile-time setter reachable at run time', 0), n))
    ev = evidence(world, methods, fresh_only, ctor)
    roots = root_allocations(world)
    benign = sorted(BENIGN_AUG.items())
    # every benign entry must still exist in the source (otherwise the list is stale)
    stale = []
    for (mod, fn, text), why in benign:
        m = world.modules.get(mod)
        f = m.functions.get(fn) if m else None
        if f is None or not any(isinstance(n, ast.AugAssign) and ast.unparse(n) == text for n in ast.walk(f.node)):
            stale.append((mod, fn, text))
    L = []
    A = L.append
    A('(** GENERATED by translator/writesets.py from %s -- do not edit.' % 'the asn1tools sources')
    A('    Write-sets of every function reachable at encode / decode / check time. *)')
    A('From Coq Require Import String ZArith List.')
    A('Import ListNotations.')
    A('Open Scope string_scope.')
    A('Open Scope Z_scope.')
    A('')
    A('Inductive receiver : Type :=')
    A('| SelfAttr (attr : string)          (* self.attr (or an alias), self is part of the compiled graph *)')
    A('| SharedAlias (name : string)       (* alias of a parameter / call result that may be part of the compiled graph *)')
    A('| Global (name : string)            (* module global, class attribute, mutable default argument *)')
    A('| InputValue (name : string)        (* the value passed in by the caller, or part of it *)')
    A('| CallLocalObject (what : string)   (* allocated by every caller during the same top-level call *)')
    A('| UnknownRecv (why : string).       (* not classified: fails the check *)')
    A('')
    A('Inductive wkind : Type :=')
    A('| AttrStore (attr : string) | AugAttr (attr : string) | DelAttr (attr : string)')
    A('| ItemStore | AugItem | DelItem | AugName (op : string) | MutCall (meth : string)')
    A('| GlobalDecl (name : string) | GlobalStore (name : string) | Unclassified.')
    A('')
    A('Record wentry : Type := W {')
    A('  w_module : string; w_class : string; w_method : string;')
    A('  w_kind : wkind; w_recv : receiver; w_line : Z }.')
    A('')

    def kind_term(kind, detail):
        if kind in ('AttrStore', 'AugAttr', 'DelAttr', 'AugName', 'MutCall', 'GlobalDecl', 'GlobalStore'):
            return '(%s %s)' % (kind, coq_str(detail))
        return kind

    A('Definition write_table : list wentry := [')
    body = []
    for (mod, cls, meth, kind, detail, recv, arg, line), text in rows:
        body.append('  W %s %s %s %s (%s %s) %d  (* %s *)' % (
            coq_str(mod), coq_str(cls), coq_str(meth), kind_term(kind, detail), RECV_CTOR[recv], coq_str(arg), line,
            text.replace('*)', '* )').replace('(*', '( *')))
    A(';\n'.join(body))
    A('].')
    A('')
    A('(** Functions reachable at run time, per class ("" = module level). *)')
    A('Definition reachable_methods : list (string * string * list string) := [')
    A(';\n'.join('  (%s, %s, [%s])' % (coq_str(m), coq_str(c), '; '.join(coq_str(n) for n in sorted(ns)))
                 for (m, c), ns in sorted(methods.items())))
    A('].')
    A('')
    A('(** Classes all of whose reachable methods only ever run on objects allocated during the')
    A('    same top-level call, with the allocation sites (module, class, function, line). *)')
    A('Definition fresh_classes : list (string * string * list (string * string * string * Z)) := [')
    A(';\n'.join('  (%s, %s, [%s])' % (coq_str(m), coq_str(c), '; '.join(
        '(%s, %s, %s, %d)' % (coq_str(q[0]), coq_str(q[1]), coq_str(q[2]), line) for q, line, how in sites))
        for m, c, sites in ev))
    A('].')
    A('')
    A('(** The mechanism named by the property: CompiledType.encode/decode allocate locally')
    A('    (module, class, method, constructor, found, line). *)')
    A('Definition root_allocations : list (string * string * string * string * bool * Z) := [')
    A(';\n'.join('  (%s, %s, %s, %s, %s, %d)' % (coq_str(m), coq_str(c), coq_str(me), coq_str(k),
                                                 'true' if ok else 'false', line) for m, c, me, k, ok, line in roots))
    A('].')
    A('')
    A('(** Reads of mutable module-level state (module, class, function, global). *)')
    gr = sorted(set((q[0], q[1], q[2], '%s.%s' % (gm, gn)) for (q, gm, gn, line) in greads))
    A('Definition global_reads : list (string * string * string * string) := [')
    A(';\n'.join('  (%s, %s, %s, %s)' % tuple(coq_str(x) for x in r) for r in gr))
    A('].')
    A('')
    A('(** Audited augmented assignments on names holding immutable values (module, function, statement, why);')
    A('    the bool says the statement is still present in the source. *)')
    A('Definition benign_aug : list (string * string * string * string * bool) := [')
    A(';\n'.join('  (%s, %s, %s, %s, %s)' % (coq_str(k[0]), coq_str(k[1]), coq_str(k[2]), coq_str(why),
                                             'false' if k in stale else 'true') for k, why in benign))
    A('].')
    A('')
    A('(** Writes to objects allocated in the writing function itself (not listed): count per module. *)')
    A('Definition local_fresh_writes : list (string * Z) := [')
    A(';\n'.join('  (%s, %d)' % (coq_str(m), n) for m, n in sorted(local_fresh.items())))
    A('].')
    text = '\n'.join(L) + '\n'
    os.makedirs(os.path.dirname(out_v), exist_ok=True)
    old = open(out_v).read() if os.path.exists(out_v) else None
    if old != text:
        with open(out_v, 'w') as f:
            f.write(text)
    doc = {
        'table': [dict(module=k[0], cls=k[1], method=k[2], kind=k[3], detail=k[4], recv=k[5], arg=k[6], line=k[7],
                       text=t) for k, t in rows],
        'shared': [dict(module=k[0], cls=k[1], method=k[2], kind=k[3], detail=k[4], recv=k[5], arg=k[6], line=k[7],
                        text=t) for k, t in rows if k[5] in SHARED_KINDS],
        'methods': {('%s:%s' % k): sorted(v) for k, v in methods.items()},
        'fresh_classes': [[m, c, [[list(q), line, how] for q, line, how in s]] for m, c, s in ev],
        'root_allocations': [list(r) for r in roots],
        'global_reads': [list(r) for r in gr],
        'benign_stale': [list(s) for s in stale],
        'local_fresh': local_fresh,
        'unknown_external': sorted('%s%s' % ((m + '.') if m else '.', n) for n, m in unknown_ext),
        'reachable_per_family': reach,
        'compile_time_reachable': [list(x) for x in ct_reach],
        'changed': old != text,
    }
    if out_json:
        with open(out_json, 'w') as f:
            json.dump(doc, f, indent=1, sort_keys=True)
    return doc


def main(argv):
    import argparse
    ap = argparse.ArgumentParser()
    ap.add_argument('--repo', default=os.environ.get('VERIF_REPO', '/repo'))
    ap.add_argument('--out', default=os.path.join(os.path.dirname(os.path.dirname(os.path.abspath(__file__))),
                                                  'coq', 'gen', 'WriteSets.v'))
    ap.add_argument('--json')
    ap.add_argument('-v', action='store_true')
    a = ap.parse_args(argv)
    doc = emit(a.repo, a.out, a.json)
    print('writesets: %d table rows, %d shared/unknown, %d classes, reachable per family %s' % (
        len(doc['table']), len(doc['shared']), len(doc['methods']), doc['reachable_per_family']))
    if a.v:
        for r in doc['table']:
            print('  %(module)s %(cls)s.%(method)s:%(line)d %(kind)s %(detail)s -> %(recv)s %(arg)s   | %(text)s' % r)
        print('unknown externals:', doc['unknown_external'])
    for r in doc['shared']:
        print('  SHARED %(module)s %(cls)s.%(method)s:%(line)d %(kind)s %(detail)s -> %(recv)s %(arg)s   | %(text)s' % r)
    return 0


if __name__ == '__main__':
    sys.exit(main(sys.argv[1:]))
