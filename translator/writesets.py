#!/usr/bin/env python
"""C18 translator: write-sets of everything that runs at encode/decode/check time.

A fail-closed abstract interpretation over the Python ``ast`` of the codec
modules of /repo (nothing of asn1tools is imported or executed).  For every
function reachable from the run-time entry points

    Specification.encode / decode / decode_with_length / decode_length
    CompiledType.encode / decode / decode_with_length / check_types / check_constraints

(by a name-based, arity-filtered call graph that over-approximates dynamic
dispatch, analysed once per codec "family" = import closure of the codec
module) it records every *write*: attribute / subscript store, augmented
assignment, ``del``, mutating method call, ``global`` declaration, and
classifies the object written to:

    SelfAttr a        self.a or an alias of it, self being part of the compiled graph
    SharedAlias p     an alias of parameter p / of a call result that may be part of the compiled graph
    Global g          module-level global, class attribute, mutable default argument
    InputValue        (an alias of / an element of) the value the caller passed in
    CallLocalObject   an object that every caller allocated during the same top-level call
                      (Encoder / Decoder / BER bytearray / exception in flight)
    LocalFresh        allocated in this very function (counted, not listed)
    Unknown           anything the analysis cannot classify  -> the Coq check fails

The provenance of a name is a pair (own, elems): what the object itself may be
and what may be reachable from it.  Parameters are classified by *inflow*
(the join over all call sites of what is passed), so the "documented
out-parameters" (encoder, decoder, encoded, the exception) are derived, not
assumed: they are CallLocalObject because every call site passes a fresh
object, and the evidence (allocation sites in the top-level
CompiledType.encode/decode) is emitted too.

Output: coq/gen/WriteSets.v (Coq) and a JSON document for the harness.
"""
import ast
import json
import os
import sys

UNIVERSE = [
    'asn1tools/compiler.py', 'asn1tools/errors.py', 'asn1tools/compat.py',
    'asn1tools/codecs/__init__.py', 'asn1tools/codecs/compiler.py',
    'asn1tools/codecs/ber.py', 'asn1tools/codecs/der.py', 'asn1tools/codecs/per.py',
    'asn1tools/codecs/uper.py', 'asn1tools/codecs/oer.py', 'asn1tools/codecs/jer.py',
    'asn1tools/codecs/xer.py', 'asn1tools/codecs/gser.py',
    'asn1tools/codecs/type_checker.py', 'asn1tools/codecs/constraints_checker.py',
    'asn1tools/codecs/permitted_alphabet.py',
]
CODECS = ['ber', 'der', 'per', 'uper', 'oer', 'jer', 'xer', 'gser']
# modules every family contains (the check_types / check_constraints machinery and the API object)
COMMON = ['compiler', 'errors', 'compat', 'codecs', 'codecs.compiler', 'codecs.type_checker',
          'codecs.constraints_checker', 'codecs.permitted_alphabet']

ROOT_METHODS = [('compiler', 'Specification', m) for m in
                ('encode', 'decode', 'decode_with_length', 'decode_length')]
# The compiled-type objects are public (spec.types[name].encode(...)): they are roots too.
COMPILED_TYPE_ROOTS = ('encode', 'decode', 'decode_with_length', 'check_types', 'check_constraints')

# documented compile-time-only functions: must NOT be reachable at run time
COMPILE_TIME = {'set_tag', 'set_size_range', 'set_restricted_to_range', 'set_default', 'set_inner_type',
                'add_tags', 'set_range'}

MUTATORS = {'append', 'extend', 'update', 'pop', 'insert', 'sort', 'reverse', 'clear', 'remove',
            'setdefault', '__setitem__', '__delitem__', 'add', 'discard', 'popitem', 'appendleft',
            'popleft', 'extendleft', 'rotate', 'difference_update', 'intersection_update',
            'symmetric_difference_update', '__iadd__', '__setattr__', '__delattr__', 'move_to_end',
            'write', 'writelines', 'truncate', 'seek', 'send', 'throw', 'close', 'set', 'put'}
# mutators that also return an element of the receiver
MUT_RETURNS_ELEM = {'pop', 'setdefault', 'popitem', 'popleft'}

# external callables (builtins, str/bytes/int/datetime/struct/... methods) that neither mutate
# their arguments nor return an alias of them
PURE_FRESH = {
    'len', 'int', 'str', 'bytes', 'bytearray', 'bool', 'float', 'isinstance', 'issubclass', 'format',
    'ord', 'chr', 'unichr', 'unicode', 'long', 'divmod', 'abs', 'range', 'sum', 'any', 'all', 'repr',
    'hash', 'id', 'type', 'round', 'pow', 'hex', 'bin', 'oct', 'callable', 'hasattr', 'print',
    'NotImplementedError', 'ValueError', 'TypeError', 'KeyError', 'IndexError', 'Exception',
    'OverflowError', 'AttributeError', 'RuntimeError', 'object', 'frozenset', 'complex', 'memoryview',
    'deepcopy',
    # str / bytes / int / float methods
    'encode', 'decode', 'join', 'strip', 'lstrip', 'rstrip', 'split', 'rsplit', 'splitlines', 'replace',
    'startswith', 'endswith', 'find', 'rfind', 'index', 'rindex', 'count', 'upper', 'lower', 'title',
    'isupper', 'islower', 'isdigit', 'isalpha', 'isalnum', 'isspace', 'zfill', 'ljust', 'rjust',
    'center', 'partition', 'rpartition', 'translate', 'bit_length', 'to_bytes', 'from_bytes', 'hex',
    'fromhex', 'is_integer', 'as_integer_ratio', 'capitalize', 'swapcase', 'casefold', 'expandtabs',
    'format_map', 'isdecimal', 'isnumeric', 'isidentifier', 'isprintable', 'istitle', 'conjugate',
    # datetime / time / math / binascii / struct / json / bitstruct / ElementTree / string
    'strptime', 'strftime', 'utcoffset', 'timedelta', 'timezone', 'total_seconds', 'date', 'time',
    'datetime', 'isoformat', 'timetuple', 'utctimetuple', 'toordinal', 'weekday', 'tzname', 'dst',
    'astimezone', 'fromtimestamp', 'utcfromtimestamp', 'now', 'utcnow', 'today', 'combine', 'timegm',
    'mktime', 'gmtime', 'localtime',
    'hexlify', 'unhexlify', 'b2a_hex', 'a2b_hex', 'pack', 'unpack', 'unpack_from', 'calcsize',
    'pack_into_not_used', 'log', 'log2', 'log10', 'ceil', 'floor', 'frexp', 'ldexp', 'isinf', 'isnan',
    'copysign', 'fabs', 'sqrt', 'trunc', 'modf', 'fmod', 'isfinite',
    'dumps', 'loads', 'tostring', 'fromstring', 'Element', 'SubElement_not_used', 'findall', 'findtext',
    'iter_not_used', 'getchildren',
    'attrgetter', 'itemgetter', 'getrefcount',
}
# fresh container / iterator whose elements are the elements of the arguments
VIEWS = {'list', 'tuple', 'dict', 'set', 'sorted', 'reversed', 'enumerate', 'zip', 'iter', 'copy',
         'items', 'values', 'keys', 'filter', 'map', 'OrderedDict', 'defaultdict', 'fromkeys'}
# return (an alias of) an element of / the receiver or an argument
ELEMENTS = {'get', 'next', 'max', 'min', 'getattr', '__getitem__', 'find', 'super', 'cast'}
# constructs that defeat the analysis
FORBIDDEN_NAMES = {'exec', 'eval', 'globals', 'locals', 'vars', 'setattr', 'delattr', 'compile',
                   '__import__', 'import_module'}
FORBIDDEN_ATTRS = {'__dict__', '__setattr__', '__delattr__', '__globals__', '__closure__', '__code__',
                   '__defaults__', '__slots__', '__bases__', '__mro__', '__subclasses__', 'modules'}
EXTERNAL_MODULES_OK = {'binascii', 'struct', 'math', 'time', 'datetime', 'json', 'ElementTree', 'bitstruct',
                       'string', 'sys', 'copy', 'calendar', 're', 'operator', 'functools', 'compat_ext'}
AUG_DUNDER = {'Add': '__iadd__', 'Sub': '__isub__', 'Mult': '__imul__', 'BitOr': '__ior__',
              'BitAnd': '__iand__', 'BitXor': '__ixor__', 'LShift': '__ilshift__', 'RShift': '__irshift__',
              'Div': '__itruediv__', 'FloorDiv': '__ifloordiv__', 'Mod': '__imod__', 'Pow': '__ipow__',
              'MatMult': '__imatmul__'}

# Augmented assignments on a *name* rebind the name; they mutate the object only if its type
# implements the in-place operator (list, bytearray, set, dict, user classes with __iXXX__).
# The analysis has no types, so an augmented assignment on a name that may alias shared state is
# reported -- except for the following audited statements (module, function, statement text) whose
# operand is an immutable value (datetime / int); the list is emitted into the Coq file.
BENIGN_AUG = {
    ('codecs.ber', 'encode_real', 'data *= -1'):
        'data is a float (compared with float(inf), passed to math.isnan / math.frexp above and below)',
    ('codecs.per', 'append_constrained_whole_number', 'value -= minimum'):
        'value is an integer (appended with append_non_negative_binary_integer, which shifts it)',
    ('codecs', 'restricted_utc_time_from_datetime', 'date -= date.utcoffset()'):
        'datetime is immutable: -= rebinds the local name',
    ('codecs', 'restricted_generalized_time_from_datetime', 'date -= date.utcoffset()'):
        'datetime is immutable: -= rebinds the local name',
}

# indirect calls through an attribute holding a function: (attribute, (module, function) per family codec)
INDIRECT = {'_decode_length': 'decode_full_length'}

SPEC, INPUT, FRESH, EXC = 'SPEC', 'INPUT', 'FRESH', 'EXC'


class P(object):
    """Provenance of a value: atoms the object itself may be (own), atoms reachable through item /
    iteration edges only (elems), atoms reachable through a path with an attribute edge (fields),
    and, for tuple displays, the provenance of each position (items)."""
    __slots__ = ('own', 'elems', 'fields', 'items')

    def __init__(self, own=(), elems=(), fields=(), items=None):
        self.own = frozenset(own)
        self.elems = frozenset(elems)
        self.fields = frozenset(fields)
        self.items = tuple(items) if items is not None else None

    def all(self):
        s = self.own | self.elems | self.fields
        if self.items:
            for i in self.items:
                s = s | i.all()
        return s

    def flat(self):
        if self.items is None:
            return self
        e, f = self.elems, self.fields
        for i in self.items:
            i = i.flat()
            e = e | i.own | i.elems
            f = f | i.fields
        return P(self.own, e, f)

    def elem(self):
        """an item / iteration variable of the object"""
        p = self.flat()
        return P(p.elems, p.elems, p.fields)

    def attr(self):
        """an attribute of the object"""
        p = self.flat()
        return P(p.fields, p.fields, p.fields)

    def deep(self):
        """everything reachable from the object (not the object itself)"""
        p = self.flat()
        return p.elems | p.fields

    def key(self):
        return (self.own, self.elems, self.fields,
                tuple(i.key() for i in self.items) if self.items is not None else None)

    def __eq__(self, o):
        return self.key() == o.key()

    def __ne__(self, o):
        return not self == o

    def __repr__(self):
        return 'P(%s|%s|%s%s)' % (sorted(map(str, self.own)), sorted(map(str, self.elems)),
                                  sorted(map(str, self.fields)), '' if self.items is None else '|' + repr(self.items))


EMPTY = P()
FRESH_ATOM = ('fresh',)
FRESHP = P([FRESH_ATOM], [FRESH_ATOM], [FRESH_ATOM])     # a new object, everything inside it is new too


def uniform(atoms):
    atoms = frozenset(atoms)
    return P(atoms, atoms, atoms)


def join(a, b):
    if a is b:
        return a
    if a.items is not None and b.items is not None and len(a.items) == len(b.items):
        return P(a.own | b.own, a.elems | b.elems, a.fields | b.fields, [join(x, y) for x, y in zip(a.items, b.items)])
    if a.items is None and b.items is None:
        return P(a.own | b.own, a.elems | b.elems, a.fields | b.fields)
    # "a tuple display, or nothing / a brand-new opaque object": keep the shape of the tuple (a
    # mutation of a new object is never a shared write, so positions lose nothing)
    if a.items is None and a.all() <= {FRESH_ATOM}:
        return P(a.own | b.own, a.elems | b.elems, a.fields | b.fields, b.items)
    if b.items is None and b.all() <= {FRESH_ATOM}:
        return P(a.own | b.own, a.elems | b.elems, a.fields | b.fields, a.items)
    a, b = a.flat(), b.flat()
    return P(a.own | b.own, a.elems | b.elems, a.fields | b.fields)


def container_of(values):
    """a new list / set / dict holding the given values"""
    e, f = set(), set()
    for v in values:
        v = v.flat()
        e |= v.own | v.elems
        f |= v.fields
    return P([FRESH_ATOM], e, f)


def store_item(cur, v):
    """cur[i] = v / cur.append(v)"""
    cur, v = cur.flat(), v.flat()
    return P(cur.own, cur.elems | v.own | v.elems, cur.fields | v.fields)


def store_attr(cur, v):
    """cur.a = v"""
    cur = cur.flat()
    return P(cur.own, cur.elems, cur.fields | v.all())


class Fn(object):
    def __init__(self, module, cls, node):
        self.module = module
        self.cls = cls
        self.node = node
        self.name = node.name
        a = node.args
        self.params = [x.arg for x in a.posonlyargs + a.args]
        self.is_method = cls is not None and not any(
            isinstance(d, ast.Name) and d.id == 'staticmethod' for d in node.decorator_list)
        self.is_property = any(isinstance(d, ast.Name) and d.id == 'property' for d in node.decorator_list)
        self.other_decorators = [ast.unparse(d) for d in node.decorator_list
                                 if not (isinstance(d, ast.Name) and d.id in ('property', 'staticmethod'))]
        self.self_name = self.params[0] if self.is_method and self.params else None
        self.pos = self.params[1:] if self.is_method else list(self.params)
        self.ndefaults = len(a.defaults)
        self.vararg = a.vararg.arg if a.vararg else None
        self.kwarg = a.kwarg.arg if a.kwarg else None
        self.kwonly = [x.arg for x in a.kwonlyargs]
        self.mutable_defaults = {}
        defaults = [None] * (len(a.posonlyargs + a.args) - len(a.defaults)) + list(a.defaults)
        for p, d in list(zip(self.params, defaults)) + list(zip(self.kwonly, a.kw_defaults)):
            if d is not None and is_mutable_expr(d):
                self.mutable_defaults[p] = ast.unparse(d)

    @property
    def qual(self):
        return (self.module, self.cls or '', self.name)

    def accepts(self, npos, kwnames, star):
        """can a call with npos positional arguments and these keywords reach this function?
        star: the call has a *args argument (anything goes).  A **kwargs argument (keyword None) is
        assumed to supply optional parameters only: the required positional parameters must be
        covered by the explicit arguments."""
        if star == 'args':
            return True
        if npos > len(self.pos) and not self.vararg:
            return False
        given = set(self.pos[:npos])
        for k in kwnames:
            if k is None:
                continue
            if k in given:
                return False
            if k not in self.pos and k not in self.kwonly and not self.kwarg:
                return False
            given.add(k)
        required = self.pos[:len(self.pos) - self.ndefaults] if self.ndefaults else self.pos
        return all(r in given for r in required)


def is_mutable_expr(e):
    if isinstance(e, (ast.List, ast.Dict, ast.Set, ast.ListComp, ast.DictComp, ast.SetComp)):
        return True
    if isinstance(e, ast.Call):
        f = e.func
        n = f.id if isinstance(f, ast.Name) else f.attr if isinstance(f, ast.Attribute) else ''
        return n not in ('object', 'frozenset', 'tuple', 'str', 'bytes', 'int', 'float', 'bool', 'join',
                         'range', 'format', 'namedtuple')
    return False


def modjoin(a, b):
    return (a + '.' + b) if a else b


class Module(object):
    def __init__(self, repo, rel):
        self.rel = rel
        name = rel[len('asn1tools/'):-3].replace('/', '.')
        if name.endswith('.__init__'):
            name = name[:-len('.__init__')]
        self.name = name                      # compiler, codecs, codecs.ber ...
        self.tree = ast.parse(open(os.path.join(repo, rel)).read(), rel)
        self.functions = {}                   # name -> Fn
        self.classes = {}                     # name -> ClassDef
        self.methods = {}                     # (cls, name) -> Fn
        self.class_attrs = {}                 # cls -> {name: mutable?}
        self.globals = {}                     # name -> ('mutable'|'const', line)
        self.imports = {}                     # local name -> ('module', modname) | ('name', modname, name) | ('ext', text)
        self.toplevel_unknown = []
        self._index()

    def _resolve_from(self, level, module):
        pkg = self.name.split('.') if self.rel.endswith('__init__.py') else self.name.split('.')[:-1]
        if level == 0:
            return None
        base = pkg[:len(pkg) - (level - 1)] if level - 1 else pkg
        if level - 1 > len(pkg):
            return None
        parts = base + (module.split('.') if module else [])
        return '.'.join(parts)

    def _index(self):
        for st in self.tree.body:
            self._index_stmt(st)

    def _index_stmt(self, st):
        if isinstance(st, ast.FunctionDef):
            self.functions[st.name] = Fn(self.name, None, st)
        elif isinstance(st, ast.ClassDef):
            self.classes[st.name] = st
            self.class_attrs[st.name] = {}
            for b in st.body:
                if isinstance(b, ast.FunctionDef):
                    self.methods[(st.name, b.name)] = Fn(self.name, st.name, b)
                elif isinstance(b, (ast.Assign, ast.AnnAssign)):
                    tg = b.targets if isinstance(b, ast.Assign) else [b.target]
                    for t in tg:
                        if isinstance(t, ast.Name):
                            self.class_attrs[st.name][t.id] = (b.value is not None and is_mutable_expr(b.value),
                                                               b.lineno)
                elif isinstance(b, (ast.Expr, ast.Pass)):
                    pass
                else:
                    self.toplevel_unknown.append((b.lineno, 'class-body statement ' + type(b).__name__))
        elif isinstance(st, (ast.Assign, ast.AnnAssign, ast.AugAssign)):
            tg = st.targets if isinstance(st, ast.Assign) else [st.target]
            for t in tg:
                for n in ast.walk(t):
                    if isinstance(n, ast.Name):
                        mut = st.value is not None and is_mutable_expr(st.value)
                        self.globals[n.id] = ('mutable' if mut else 'const', st.lineno)
        elif isinstance(st, ast.Import):
            for a in st.names:
                self.imports[(a.asname or a.name).split('.')[0]] = ('ext', a.name)
        elif isinstance(st, ast.ImportFrom):
            target = self._resolve_from(st.level, st.module) if st.level else None
            for a in st.names:
                local = a.asname or a.name
                if target is None:
                    self.imports[local] = ('ext', (st.module or '') + '.' + a.name)
                else:
                    self.imports[local] = ('rel', target, a.name)
        elif isinstance(st, ast.Try):
            for b in st.body + [x for h in st.handlers for x in h.body] + st.orelse + st.finalbody:
                self._index_stmt(b)
        elif isinstance(st, ast.If):
            t = ast.unparse(st.test).replace(' ', '')
            if t in ('sys.version_info[0]>2', 'sys.version_info[0]>=3', 'sys.version_info>=(3,)',
                     'sys.version_info>=(3,0)'):
                branches = st.body            # the checks run on Python 3
            elif t in ('sys.version_info[0]<3', 'sys.version_info[0]==2', 'sys.version_info[0]<=2'):
                branches = st.orelse
            else:
                branches = st.body + st.orelse
            for b in branches:
                self._index_stmt(b)
        elif isinstance(st, (ast.Expr, ast.Pass)):
            pass
        else:
            self.toplevel_unknown.append((st.lineno, 'module-level statement ' + type(st).__name__))


class World(object):
    def __init__(self, repo):
        self.repo = repo
        self.modules = {}
        for rel in UNIVERSE:
            m = Module(repo, rel)
            self.modules[m.name] = m

    def resolve_class(self, mod, e):
        """(module, class) denoted by a Name / module.Name expression in [mod], or None"""
        if isinstance(e, ast.Name):
            if e.id in mod.classes:
                return (mod.name, e.id)
            imp = mod.imports.get(e.id)
            if imp and imp[0] == 'rel' and imp[1] in self.modules and imp[2] in self.modules[imp[1]].classes:
                return (imp[1], imp[2])
        elif isinstance(e, ast.Attribute) and isinstance(e.value, ast.Name):
            imp = mod.imports.get(e.value.id)
            if imp and imp[0] == 'rel':
                target = modjoin(imp[1], imp[2])
                if target in self.modules and e.attr in self.modules[target].classes:
                    return (target, e.attr)
        return None

    def hierarchy(self):
        """subclasses (reflexive, transitive) of every class of the universe"""
        if hasattr(self, '_subs'):
            return self._subs
        direct = {}
        for m in self.modules.values():
            for c, node in m.classes.items():
                direct.setdefault((m.name, c), set())
                for b in node.bases:
                    r = self.resolve_class(m, b)
                    if r:
                        direct.setdefault(r, set()).add((m.name, c))
        subs = {}
        for k in direct:
            out, todo = set(), [k]
            while todo:
                x = todo.pop()
                if x not in out:
                    out.add(x)
                    todo.extend(direct.get(x, ()))
            subs[k] = out
        self._subs = subs
        return subs

    def mro_related(self, key):
        """classes in which a method called on self inside class [key] can be found: the MRO of
        any (reflexive) subclass of key"""
        if not hasattr(self, '_mro'):
            self._mro = {}
            self._bases = {}
            for m in self.modules.values():
                for c, node in m.classes.items():
                    self._bases[(m.name, c)] = [r for r in (self.resolve_class(m, b) for b in node.bases) if r]
        if key in self._mro:
            return self._mro[key]
        out = set()
        for d in self.hierarchy().get(key, {key}):
            todo = [d]
            while todo:
                x = todo.pop()
                if x not in out:
                    out.add(x)
                    todo.extend(self._bases.get(x, ()))
        self._mro[key] = out
        return out

    def ctor_sites(self):
        """every syntactic constructor call K(...) of a universe class: class -> [(module, cls, function)];
        function '<module>' for module-level code"""
        if hasattr(self, '_ctors'):
            return self._ctors
        sites = {}
        for m in self.modules.values():
            def scan(node, where):
                for n in ast.walk(node):
                    if isinstance(n, ast.Call):
                        r = self.resolve_class(m, n.func)
                        if r:
                            sites.setdefault(r, []).append((where, n.lineno))
            for st in m.tree.body:
                if isinstance(st, ast.FunctionDef):
                    scan(st, (m.name, '', st.name))
                elif isinstance(st, ast.ClassDef):
                    for b in st.body:
                        if isinstance(b, ast.FunctionDef):
                            scan(b, (m.name, st.name, b.name))
                        else:
                            scan(b, (m.name, st.name, '<class body>'))
                else:
                    scan(st, (m.name, '', '<module>'))
        self._ctors = sites
        return sites

    def arithmetic_dunders(self):
        out = []
        for m in self.modules.values():
            for (c, n) in m.methods:
                if n.startswith('__') and n.endswith('__') and n not in (
                        '__init__', '__repr__', '__str__', '__len__', '__iadd__', '__eq__', '__ne__', '__hash__'):
                    out.append((m.name, c, n))
        return out

    def family(self, codec):
        """Import closure of codecs.<codec> inside the universe, plus the common modules."""
        seen = set()
        todo = ['codecs.' + codec] + COMMON
        while todo:
            n = todo.pop()
            if n in seen or n not in self.modules:
                continue
            seen.add(n)
            if n == 'compiler':
                continue           # the API module imports every codec; a Specification holds one
            for imp in self.modules[n].imports.values():
                if imp[0] == 'rel':
                    if imp[1] in self.modules:
                        todo.append(imp[1])
                    if modjoin(imp[1], imp[2]) in self.modules:
                        todo.append(modjoin(imp[1], imp[2]))
        # the other codec modules reachable only through asn1tools/compiler.py's imports are not
        # part of the family: a Specification compiled for one codec holds objects of that codec only
        return sorted(seen)


NUMERIC_CALLS = {'len', 'int', 'ord', 'abs', 'float', 'round', 'bit_length', 'count', 'find', 'index', 'rfind',
                 'rindex', 'calcsize', 'timegm', 'total_seconds', 'log', 'log2', 'log10', 'ceil', 'floor'}
NEVER_IN_PLACE = ('LShift', 'RShift', 'Div', 'FloorDiv', 'Mod', 'Pow', 'MatMult')


class Numeric(object):
    """Recognition of expressions whose value is certainly a number, given that no class of the
    universe overloads arithmetic (checked: otherwise disabled).  Used (a) to show that an
    augmented assignment on a name rebinds the name instead of mutating a container in place and
    (b) to drop the provenance of numbers (immutable, so aliasing them is harmless)."""

    def __init__(self, an):
        self.an = an
        self.enabled = not an.w.arithmetic_dunders()
        self.fn_memo = {}
        self.names_memo = {}
        self.attr_memo = {}

    def names(self, f):
        """names of function f all of whose bindings are numeric (greatest fixpoint)"""
        if f.qual in self.names_memo:
            return self.names_memo[f.qual]
        self.names_memo[f.qual] = frozenset()
        fnode = f.node
        binds = {}
        params = set(a.arg for a in ast.walk(fnode.args) if isinstance(a, ast.arg))
        for n in ast.walk(fnode):
            if isinstance(n, ast.Assign):
                for t in n.targets:
                    if isinstance(t, ast.Name):
                        binds.setdefault(t.id, []).append(('e', n.value))
                    else:
                        for x in ast.walk(t):
                            if isinstance(x, ast.Name) and isinstance(x.ctx, ast.Store):
                                binds.setdefault(x.id, []).append(('no', None))
            elif isinstance(n, ast.AugAssign) and isinstance(n.target, ast.Name):
                binds.setdefault(n.target.id, []).append(('aug', n))
            elif isinstance(n, (ast.For, ast.comprehension)):
                it = n.iter
                rng = isinstance(it, ast.Call) and isinstance(it.func, ast.Name) and it.func.id == 'range'
                for x in ast.walk(n.target):
                    if isinstance(x, ast.Name):
                        binds.setdefault(x.id, []).append(('yes', None) if rng and isinstance(n.target, ast.Name)
                                                          else ('no', None))
            elif isinstance(n, (ast.With, ast.NamedExpr, ast.AnnAssign)):
                for x in ast.walk(n):
                    if isinstance(x, ast.Name) and isinstance(x.ctx, ast.Store):
                        binds.setdefault(x.id, []).append(('no', None))
            elif isinstance(n, ast.ExceptHandler) and n.name:
                binds.setdefault(n.name, []).append(('no', None))
        good = set(k for k in binds if k not in params)
        while True:
            bad = set()
            for k in good:
                for kind, v in binds[k]:
                    if kind == 'no' or (kind == 'e' and not self.expr(v, good, f)) or \
                            (kind == 'aug' and type(v.op).__name__ == 'Mult' and not self.expr(v.value, good, f)):
                        bad.add(k)
            if not bad:
                break
            good -= bad
        self.names_memo[f.qual] = frozenset(good)
        return self.names_memo[f.qual]

    def attr(self, f, attr):
        """is self.<attr> certainly a number in methods of f's class (every store in the class
        hierarchy stores a number)?"""
        if not f.cls:
            return False
        comp = self.an.related(self.an.w.modules[f.module], f.cls)
        key = (min(comp), attr)
        if key in self.attr_memo:
            return self.attr_memo[key]
        self.attr_memo[key] = False
        stores = 0
        ok = True
        for (mname, cname) in comp:
            mod = self.an.w.modules[mname]
            for (c, n), g in mod.methods.items():
                if c != cname or not g.self_name:
                    continue
                for node in ast.walk(g.node):
                    tgts = []
                    if isinstance(node, ast.Assign):
                        tgts = [(t, node.value, None) for t in node.targets]
                    elif isinstance(node, ast.AugAssign):
                        tgts = [(node.target, node.value, type(node.op).__name__)]
                    elif isinstance(node, (ast.AnnAssign, ast.For, ast.With, ast.Delete)):
                        for x in ast.walk(node):
                            if isinstance(x, ast.Attribute) and isinstance(x.ctx, (ast.Store, ast.Del)) and \
                                    x.attr == attr and not isinstance(node, (ast.For, ast.With)):
                                ok = False
                        if isinstance(node, (ast.For, ast.With)):
                            tg = node.target if isinstance(node, ast.For) else None
                            if tg is not None:
                                for x in ast.walk(tg):
                                    if isinstance(x, ast.Attribute) and x.attr == attr:
                                        ok = False
                    for t, val, op in tgts:
                        if isinstance(t, ast.Attribute) and t.attr == attr and isinstance(t.value, ast.Name) \
                                and t.value.id == g.self_name:
                            stores += 1
                            if op is None:
                                ok = ok and self.expr(val, self.names(g), g)
                            elif op == 'Mult':
                                ok = ok and self.expr(val, self.names(g), g)
                        elif not isinstance(t, ast.Attribute):
                            for x in ast.walk(t):
                                if isinstance(x, ast.Attribute) and x.attr == attr and isinstance(x.ctx, ast.Store):
                                    ok = False
                    if isinstance(node, ast.Call) and isinstance(node.func, ast.Name) and node.func.id in ('setattr', 'delattr'):
                        ok = False
        res = bool(ok and stores)
        self.attr_memo[key] = res
        return res

    def expr(self, e, names, f, depth=0):
        if not self.enabled or depth > 8:
            return False
        if isinstance(e, ast.Constant):
            return isinstance(e.value, (int, float)) and not isinstance(e.value, bool)
        if isinstance(e, ast.Name):
            return e.id in names
        if isinstance(e, ast.Attribute):
            return isinstance(e.value, ast.Name) and f is not None and e.value.id == f.self_name and self.attr(f, e.attr)
        if isinstance(e, ast.UnaryOp):
            return isinstance(e.op, (ast.USub, ast.UAdd, ast.Invert))
        if isinstance(e, ast.BinOp):
            if isinstance(e.op, (ast.LShift, ast.RShift, ast.Div, ast.FloorDiv, ast.Pow)):
                return True
            l, r = self.expr(e.left, names, f, depth + 1), self.expr(e.right, names, f, depth + 1)
            if isinstance(e.op, ast.Mult):
                return l and r
            if isinstance(e.op, ast.Mod):
                return l
            return l or r                 # + - & | ^ with one numeric operand: both are numbers
        if isinstance(e, ast.IfExp):
            return self.expr(e.body, names, f, depth + 1) and self.expr(e.orelse, names, f, depth + 1)
        if isinstance(e, ast.Call):
            fn = e.func
            name = fn.id if isinstance(fn, ast.Name) else fn.attr if isinstance(fn, ast.Attribute) else None
            if name is None:
                return False
            cands = self.an.by_name.get(name, []) + self.an.funcs_by_name.get(name, [])
            if not cands:
                return name in NUMERIC_CALLS
            return all(self.fn(c, depth + 1) for c in cands)
        return False

    def fn(self, f, depth=0):
        if f.qual in self.fn_memo:
            return self.fn_memo[f.qual]
        self.fn_memo[f.qual] = False          # cycles: not numeric
        names = self.names(f)
        rets = [n for n in ast.walk(f.node) if isinstance(n, ast.Return)]
        gen = any(isinstance(n, (ast.Yield, ast.YieldFrom)) for n in ast.walk(f.node))
        ok = bool(rets) and not gen and all(r.value is not None and self.expr(r.value, names, f, depth) for r in rets)
        self.fn_memo[f.qual] = ok
        return ok


class Event(object):
    """A write (or an unclassifiable construct) at a source line."""

    def __init__(self, fn, line, kind, detail, atoms, text):
        self.fn, self.line, self.kind, self.detail, self.atoms, self.text = fn, line, kind, detail, frozenset(atoms), text


class Analysis(object):
    """One codec family."""

    def __init__(self, world, codec, call_local=frozenset()):
        self.w = world
        self.codec = codec
        self.call_local = call_local      # (module, class) whose instances only exist during one call
        self.class_attr = {}              # call-local class -> attr -> (own roots, reachable roots)
        self.mods = [world.modules[n] for n in world.family(codec)]
        self.modnames = set(m.name for m in self.mods)
        self.by_name = {}          # method name -> [Fn]
        self.funcs_by_name = {}    # module-level functions by name
        self.props = {}            # property name -> [Fn]
        for m in self.mods:
            for (c, n), f in m.methods.items():
                if m.name == 'compiler':
                    # asn1tools/compiler.py holds the outermost API object (Specification): it is built
                    # after, and on top of, the codec objects and no reference to it is handed down,
                    # so calls made by codec code never dispatch to its methods (its constructor sites
                    # are checked to be in that module only)
                    continue
                (self.props if f.is_property else self.by_name).setdefault(n, []).append(f)
            for n, f in m.functions.items():
                self.funcs_by_name.setdefault(n, []).append(f)
        self.inflow = {}           # Fn.qual -> {param: P of root atoms}
        self.returns = {}          # Fn.qual -> P over local atoms
        self.reach = {}            # Fn.qual -> Fn
        self.events = {}           # Fn.qual -> {(line, kind, detail): Event}
        self.global_reads = set()  # (qual, global module, name, line)
        self.unknown_ext = set()
        self.why = {}
        self.changed = True
        self._adj = None
        self._rel = {}
        self.numeric = Numeric(self)

    # ---- class structure -------------------------------------------------------
    def related(self, m, c):
        """connected component of (m, c) in the inheritance graph of the family"""
        if self._adj is None:
            adj = {}
            for mm in self.mods:
                for cc, nn in mm.classes.items():
                    k = (mm.name, cc)
                    adj.setdefault(k, set())
                    for b in nn.bases:
                        r = self.w.resolve_class(mm, b)
                        if r:
                            adj[k].add(r)
                            adj.setdefault(r, set()).add(k)
            self._adj = adj
        k0 = (m.name, c)
        if k0 in self._rel:
            return self._rel[k0]
        out, todo = set(), [k0]
        while todo:
            k = todo.pop()
            if k not in out:
                out.add(k)
                todo.extend(self._adj.get(k, ()))
        out = frozenset(out)
        for k in out:
            self._rel[k] = out
        return out

    # ---- what self / self.attr may be ------------------------------------------------
    def self_flow(self, f):
        """decided by the class of self (its allocation sites), not by the callers"""
        if (f.module, f.cls) in self.call_local:
            deep = self.attr_flow(f, '*', True)
            return P([FRESH], deep, deep)
        return uniform([SPEC])

    def attr_flow(self, f, attr, deep):
        """root atoms of self.<attr> (deep: of what is reachable from it) in a method of f's class"""
        key = (f.module, f.cls)
        if key not in self.call_local:
            return {SPEC}
        out = set()
        found = False
        for k in self.related(self.w.modules[f.module], f.cls):
            for a, (own, el) in self.class_attr.get(k, {}).items():
                if attr == '*' or a == attr:
                    found = True
                    out |= el if deep else own
                    if attr == '*':
                        out |= own
        if attr == '*':
            out.add(FRESH)
        elif not found:
            # never stored by a method: a class attribute (shared by all instances), a method, or unknown
            for k in self.w.mro_related(key):
                ca = self.w.modules[k[0]].class_attrs.get(k[1], {}).get(attr)
                if ca is not None:
                    return {('global', k[0], k[1] + '.' + attr)} if ca[0] else set()
            for k in self.w.mro_related(key):
                if (k[1], attr) in self.w.modules[k[0]].methods:
                    return set()
            return {('unknown', 'attribute %s.%s is never assigned' % (f.cls, attr))}
        return out

    def attr_store(self, f, attr, own, el):
        key = (f.module, f.cls)
        if key not in self.call_local:
            return
        d = self.class_attr.setdefault(key, {})
        cur = d.get(attr, (frozenset(), frozenset()))
        new = (cur[0] | frozenset(own), cur[1] | frozenset(el))
        if new != cur or attr not in d:
            d[attr] = new
            self.changed = True

    # ---- roots ---------------------------------------------------------------
    def seed(self):
        inp = uniform([INPUT])
        for mod, cls, name in ROOT_METHODS:
            f = self.w.modules[mod].methods.get((cls, name))
            if f is None:
                raise SystemExit('writesets: root %s.%s.%s not found' % (mod, cls, name))
            flow = {'self': self.self_flow(f)}
            for p in f.pos:
                flow[p] = EMPTY if p in ('name', 'check_types', 'check_constraints') else inp
            if f.kwarg:
                flow[f.kwarg] = P([FRESH], [INPUT], [INPUT])
            self.add_inflow(f, flow)
        for m in self.mods:
            for (cls, name), f in m.methods.items():
                if cls.startswith('Compiled') and name in COMPILED_TYPE_ROOTS:
                    flow = {'self': self.self_flow(f)}
                    for p in f.pos + f.kwonly:
                        flow[p] = inp
                    for p in (f.kwarg, f.vararg):
                        if p:
                            flow[p] = P([FRESH], [INPUT], [INPUT])
                    self.add_inflow(f, flow)

    def add_inflow(self, f, flow, src=None):
        cur = self.inflow.setdefault(f.qual, {})
        if f.qual not in self.reach:
            self.reach[f.qual] = f
            self.changed = True
        for p, v in flow.items():
            v = v.flat()
            if src is not None:
                for a in v.all():
                    self.why.setdefault((f.qual, p, a), src)
            old = cur.get(p)
            new = v if old is None else join(old, v)
            if old is None or new != old:
                cur[p] = new
                self.changed = True

    # ---- fixpoint ------------------------------------------------------------
    def run(self):
        self.seed()
        rounds = 0
        while self.changed:
            self.changed = False
            rounds += 1
            if rounds > 80:
                raise SystemExit('writesets: no fixpoint')
            for q in sorted(self.reach):
                FnRun(self, self.reach[q]).run()
            self.implicit()
        return self

    def implicit(self):
        """dunder methods run implicitly (str(e), len(x), x += y, ==): reachable as soon as any
        method of a related class is; their non-self parameters may be anything"""
        live = set()
        for q, f in list(self.reach.items()):
            if f.cls:
                live |= self.related(self.w.modules[f.module], f.cls)
        anyp = uniform([SPEC, INPUT, FRESH])
        for m in self.mods:
            for (c, name), f in m.methods.items():
                if (m.name, c) in live and name.startswith('__') and name.endswith('__') and name != '__init__':
                    flow = {'self': self.self_flow(f)}
                    if name != '__iadd__':
                        for p in f.pos:
                            flow[p] = anyp
                    self.add_inflow(f, flow)

    def event(self, fn, line, kind, detail, atoms, text):
        d = self.events.setdefault(fn.qual, {})
        k = (line, kind, detail)
        if k in d:
            if not frozenset(atoms) <= d[k].atoms:
                d[k].atoms = d[k].atoms | frozenset(atoms)
        else:
            d[k] = Event(fn, line, kind, detail, atoms, text)


class FnRun(object):
    """Abstract execution of one function body under the current summaries."""

    def __init__(self, an, fn):
        self.an = an
        self.fn = fn
        self.mod = an.w.modules[fn.module]
        self.ret = None
        self.local_names = set()
        self.declared_global = set()
        for n in ast.walk(fn.node):
            if isinstance(n, ast.Name) and isinstance(n.ctx, (ast.Store, ast.Del)):
                self.local_names.add(n.id)
            elif isinstance(n, ast.ExceptHandler) and n.name:
                self.local_names.add(n.name)
            elif isinstance(n, ast.arg):
                self.local_names.add(n.arg)
            elif isinstance(n, (ast.Global, ast.Nonlocal)):
                self.declared_global.update(n.names)
        self.nn = an.numeric.names(fn)
        self.num_memo = {}

    def is_num(self, e):
        k = id(e)
        if k not in self.num_memo:
            self.num_memo[k] = self.an.numeric.expr(e, self.nn, self.fn)
        return self.num_memo[k]

    # ---- concretisation: local atoms -> root atoms ---------------------------------
    def conc(self, atoms):
        flow = self.an.inflow.get(self.fn.qual, {})
        out = set()
        for a in atoms:
            t = a[0]
            if t == 'fresh':
                out.add(FRESH)
            elif t == 'exc':
                out.add(EXC)
            elif t == 'self':
                out |= self.an.self_flow(self.fn).own
            elif t == 'selfattr':
                out |= self.an.attr_flow(self.fn, a[1], False)
            elif t == 'selfattr*':
                out |= self.an.attr_flow(self.fn, a[1], True)
            elif t == 'param':
                p = flow.get(a[1], EMPTY)
                out |= getattr(p, a[2])
            else:
                out.add(a)
        return out

    def concP(self, p):
        p = p.flat()
        return P(self.conc(p.own), self.conc(p.elems), self.conc(p.fields))

    # ---- run -------------------------------------------------------------------
    def run(self):
        fn = self.fn
        env = {}
        if fn.is_method:
            self.an.add_inflow(fn, {'self': self.an.self_flow(fn)})
        if fn.other_decorators:
            self.ev(fn.node.lineno, 'Unclassified', 'decorator ' + fn.other_decorators[0], [('unknown', 'decorator')],
                    fn.other_decorators[0])
        if fn.self_name:
            env[fn.self_name] = P([('self',)], [('selfattr*', '*')], [('selfattr*', '*')])
        for p in fn.pos + fn.kwonly + [x for x in (fn.vararg, fn.kwarg) if x]:
            v = P([('param', p, 'own')], [('param', p, 'elems')], [('param', p, 'fields')])
            if p in fn.mutable_defaults:
                g = ('global', fn.module, '%s.%s:default(%s)' % (fn.cls or '', fn.name, p))
                v = join(v, uniform([g]))
            env[p] = v
        self.block(fn.node.body, env)
        ret = self.ret if self.ret is not None else EMPTY
        old = self.an.returns.get(fn.qual)
        new = ret if old is None else join(old, ret)
        if old is None or new != old:
            self.an.returns[fn.qual] = new
            self.an.changed = True

    def ev(self, line, kind, detail, atoms, node_or_text):
        text = node_or_text if isinstance(node_or_text, str) else ast.unparse(node_or_text)
        self.an.event(self.fn, line, kind, detail, frozenset(atoms), text.split('\n')[0][:100])

    def add_ret(self, v):
        self.ret = v if self.ret is None else join(self.ret, v)

    # ---- statements ------------------------------------------------------------
    def block(self, stmts, env):
        for s in stmts:
            env = self.stmt(s, env)
        return env

    @staticmethod
    def joinenv(a, b):
        out = {}
        for k in set(a) | set(b):
            if k in a and k in b:
                out[k] = join(a[k], b[k])
            else:
                out[k] = a[k] if k in a else b[k]
        return out

    @staticmethod
    def enveq(a, b):
        return set(a) == set(b) and all(a[k] == b[k] for k in a)

    def stmt(self, s, env):
        if isinstance(s, ast.Expr):
            self.expr(s.value, env)
        elif isinstance(s, ast.Assign):
            v = self.expr(s.value, env)
            for t in s.targets:
                env = self.assign(t, v, env, s)
        elif isinstance(s, ast.AnnAssign):
            if s.value is not None:
                env = self.assign(s.target, self.expr(s.value, env), env, s)
        elif isinstance(s, ast.AugAssign):
            env = self.augassign(s, env)
        elif isinstance(s, ast.Delete):
            for t in s.targets:
                if isinstance(t, ast.Name):
                    env = dict(env)
                    env.pop(t.id, None)
                elif isinstance(t, ast.Attribute):
                    self.write(t.value, env, 'DelAttr', t.attr, s, attr=t.attr)
                elif isinstance(t, ast.Subscript):
                    self.expr(t.slice, env)
                    self.write(t.value, env, 'DelItem', '', s)
                else:
                    self.ev(s.lineno, 'Unclassified', 'del target', [('unknown', 'del')], s)
        elif isinstance(s, ast.Return):
            if s.value is not None:
                self.add_ret(self.expr(s.value, env))
        elif isinstance(s, ast.If):
            self.expr(s.test, env)
            e1 = self.block(s.body, dict(env))
            e2 = self.block(s.orelse, dict(env))
            env = self.joinenv(e1, e2)
        elif isinstance(s, (ast.For, ast.While)):
            cur = dict(env)
            for _ in range(12):
                start = dict(cur)
                if isinstance(s, ast.For):
                    it = self.expr(s.iter, start)
                    start = self.assign(s.target, it.elem(), start, s)
                else:
                    self.expr(s.test, start)
                after = self.block(s.body, start)
                nxt = self.joinenv(cur, after)
                if self.enveq(nxt, cur):
                    break
                cur = nxt
            else:
                self.ev(s.lineno, 'Unclassified', 'loop did not stabilise', [('unknown', 'loop')], 'loop')
            env = self.joinenv(self.block(s.orelse, dict(cur)), cur) if s.orelse else cur
        elif isinstance(s, ast.Try):
            body = self.block(s.body, dict(env))
            mid = self.joinenv(env, body)
            outs = [self.block(s.orelse, dict(body)) if s.orelse else body]
            for h in s.handlers:
                he = dict(mid)
                if h.type is not None:
                    self.expr(h.type, he)
                if h.name:
                    he[h.name] = P([('exc',)], [('exc',)], [('exc',)])
                outs.append(self.block(h.body, he))
            env = outs[0]
            for o in outs[1:]:
                env = self.joinenv(env, o)
            if s.finalbody:
                env = self.block(s.finalbody, env)
        elif isinstance(s, ast.With):
            for it in s.items:
                v = self.expr(it.context_expr, env)
                if it.optional_vars is not None:
                    env = self.assign(it.optional_vars, v, env, s)
            env = self.block(s.body, env)
        elif isinstance(s, ast.Raise):
            if s.exc is not None:
                self.expr(s.exc, env)
            if s.cause is not None:
                self.expr(s.cause, env)
        elif isinstance(s, ast.Assert):
            self.expr(s.test, env)
        elif isinstance(s, (ast.Pass, ast.Break, ast.Continue)):
            pass
        elif isinstance(s, (ast.Global, ast.Nonlocal)):
            for n in s.names:
                self.ev(s.lineno, 'GlobalDecl', n, [('global', self.fn.module, n)], s)
        elif isinstance(s, (ast.Import, ast.ImportFrom)):
            self.ev(s.lineno, 'Unclassified', 'import inside a function', [('unknown', 'import')], s)
        elif isinstance(s, (ast.FunctionDef, ast.ClassDef, ast.AsyncFunctionDef)):
            self.ev(s.lineno, 'Unclassified', 'nested def/class', [('unknown', 'nested def')], s.name)
        else:
            self.ev(s.lineno, 'Unclassified', 'statement ' + type(s).__name__, [('unknown', 'stmt')], type(s).__name__)
        return env

    def assign(self, t, v, env, s):
        if isinstance(t, ast.Name):
            if t.id in self.declared_global:
                self.ev(s.lineno, 'GlobalStore', t.id, [('global', self.fn.module, t.id)], s)
                return env
            env = dict(env)
            env[t.id] = v
            return env
        if isinstance(t, (ast.Tuple, ast.List)):
            n = len(t.elts)
            if v.items is not None and len(v.items) == n and not any(isinstance(e, ast.Starred) for e in t.elts):
                for e, vi in zip(t.elts, v.items):
                    env = self.assign(e, vi, env, s)
            else:
                for e in t.elts:
                    env = self.assign(e.value if isinstance(e, ast.Starred) else e, v.elem(), env, s)
            return env
        if isinstance(t, ast.Attribute):
            self.write(t.value, env, 'AttrStore', t.attr, s, attr=t.attr)
            return self.stored(t.value, v, env, attr=t.attr)
        if isinstance(t, ast.Subscript):
            self.expr(t.slice, env)
            self.write(t.value, env, 'ItemStore', '', s)
            return self.stored(t.value, v, env)
        if isinstance(t, ast.Starred):
            return self.assign(t.value, v, env, s)
        self.ev(s.lineno, 'Unclassified', 'assignment target', [('unknown', 'target')], s)
        return env

    def stored(self, recv, v, env, attr=None):
        """v was stored into the object denoted by recv (attribute [attr], or an item): it becomes
        reachable from that object"""
        root = recv
        path = []
        while isinstance(root, (ast.Attribute, ast.Subscript)):
            path.append(root)
            root = root.value
        if isinstance(root, ast.Name) and root.id == self.fn.self_name and self.fn.cls:
            if recv is root and attr is not None:
                vf = v.flat()                                # self.a = v
                self.an.attr_store(self.fn, attr, self.conc(vf.own), self.conc(vf.elems | vf.fields))
            elif path and isinstance(path[-1], ast.Attribute):
                self.an.attr_store(self.fn, path[-1].attr, (), self.conc(v.all()))   # self.a[i] = v, self.a.b = v
        elif isinstance(recv, ast.Name) and recv.id in env:
            cur = env[recv.id]
            for a in cur.all():
                if a[0] in ('selfattr', 'selfattr*') and self.fn.cls and a[1] != '*':
                    self.an.attr_store(self.fn, a[1], (), self.conc(v.all()))
            env = dict(env)
            env[recv.id] = store_attr(cur, v) if attr is not None else store_item(cur, v)
        return env

    def augassign(self, s, env):
        t = s.target
        v = self.expr(s.value, env)
        opname = type(s.op).__name__
        if isinstance(t, ast.Name):
            cur = self.expr(ast.Name(id=t.id, ctx=ast.Load(), lineno=s.lineno, col_offset=0), env)
            if t.id in self.declared_global:
                self.ev(s.lineno, 'GlobalStore', t.id, [('global', self.fn.module, t.id)], s)
            key = (self.fn.module, self.fn.name, ast.unparse(s))
            cands = self.an.by_name.get(AUG_DUNDER[opname], [])
            # No builtin container implements the shift / division / power operators in place, and
            # "x op= <number>" raises TypeError for every builtin container unless op is * (list *= 2):
            # such statements only rebind the local name.
            numeric_rhs = self.is_num(s.value)
            rebinding_only = opname in NEVER_IN_PLACE or (numeric_rhs and opname != 'Mult')
            # a name holding an object of a family class with __iXXX__: that method runs (its writes
            # to self are classified there, by the class of self)
            if cur.own and not numeric_rhs:
                for f in cands:
                    self.call_fn(f, cur, [v], {}, s)
            if cur.own and key not in BENIGN_AUG and not rebinding_only:
                self.ev(s.lineno, 'AugName', opname, cur.own, s)
            env = dict(env)
            if (rebinding_only and not cands) or not cur.own:
                env[t.id] = EMPTY
            else:
                env[t.id] = store_item(cur, v)
            return env
        if isinstance(t, ast.Attribute):
            self.write(t.value, env, 'AugAttr', t.attr, s, attr=t.attr)
            return self.stored(t.value, EMPTY if (self.is_num(s.value) and opname != 'Mult') or opname in NEVER_IN_PLACE
                               else v, env, attr=t.attr)
        if isinstance(t, ast.Subscript):
            self.expr(t.slice, env)
            self.write(t.value, env, 'AugItem', '', s)
            return self.stored(t.value, v, env)
        self.ev(s.lineno, 'Unclassified', 'augmented target', [('unknown', 'target')], s)
        return env

    def write(self, recv_expr, env, kind, detail, node, attr=None):
        """a store through recv_expr (the object whose attribute / item is written)"""
        if isinstance(recv_expr, ast.Name) and recv_expr.id == self.fn.self_name and attr is not None \
                and env.get(recv_expr.id, EMPTY).own == frozenset([('self',)]):
            atoms = [('selfstore', attr)]
        else:
            p = self.expr(recv_expr, env)
            atoms = list(p.own)
            r = self.resolve_static(recv_expr)
            if r is not None:
                atoms.append(('global', r[0], r[1] + ('.' + attr if attr else '')))
            if not atoms:
                atoms = [('unknown', 'store into an object of unknown provenance: ' + ast.unparse(recv_expr)[:40])]
        self.ev(node.lineno, kind, detail, atoms, node)

    def resolve_static(self, e):
        """a Name / dotted name denoting a class, function or module (writing its attribute is a
        write to global state)"""
        if isinstance(e, ast.Name) and e.id not in self.local_names:
            if e.id in self.mod.classes:
                return (self.mod.name, e.id)
            imp = self.mod.imports.get(e.id)
            if imp:
                return (imp[1], imp[2]) if imp[0] == 'rel' else ('ext:' + imp[1], e.id)
            if e.id in self.mod.globals or e.id in self.mod.functions:
                return (self.mod.name, e.id)
        if isinstance(e, ast.Attribute):
            r = self.resolve_static(e.value)
            if r is not None:
                return (r[0], r[1] + '.' + e.attr)
            if e.attr == '__class__':
                return (self.fn.module, ast.unparse(e))
        if isinstance(e, ast.Call) and isinstance(e.func, ast.Name) and e.func.id == 'type' and len(e.args) == 1:
            return (self.fn.module, ast.unparse(e))
        return None

    # ---- expressions -------------------------------------------------------------
    def expr(self, e, env):
        m = getattr(self, 'e_' + type(e).__name__, None)
        if m is None:
            self.ev(getattr(e, 'lineno', 0), 'Unclassified', 'expression ' + type(e).__name__,
                    [('unknown', 'expr')], type(e).__name__)
            return uniform([('unknown', 'expr')])
        r = m(e, env)
        if isinstance(e, (ast.Name, ast.Attribute, ast.BinOp, ast.UnaryOp, ast.Call, ast.IfExp)) and self.is_num(e):
            return EMPTY                   # a number: immutable, aliasing is harmless
        return r

    def e_Constant(self, e, env):
        return EMPTY

    def e_JoinedStr(self, e, env):
        for v in e.values:
            self.expr(v, env)
        return EMPTY

    def e_FormattedValue(self, e, env):
        self.expr(e.value, env)
        return EMPTY

    def e_Name(self, e, env):
        if e.id in env:
            return env[e.id]
        if e.id in self.local_names and e.id not in self.declared_global:
            return EMPTY           # local not yet bound on this path
        if e.id in FORBIDDEN_NAMES:
            self.ev(e.lineno, 'Unclassified', 'use of ' + e.id, [('unknown', e.id)], e.id)
        return self.global_name(self.mod, e.id, e.lineno)

    def global_name(self, mod, name, line, depth=0):
        g = mod.globals.get(name)
        if g is not None:
            if g[0] == 'mutable':
                self.an.global_reads.add((self.fn.qual, mod.name, name, line))
                return uniform([('global', mod.name, name)])
            return EMPTY
        if name in mod.classes or name in mod.functions:
            return EMPTY
        imp = mod.imports.get(name)
        if imp and imp[0] == 'rel' and depth < 5 and imp[1] in self.an.w.modules:
            tm = self.an.w.modules[imp[1]]
            if imp[2] in tm.globals or imp[2] in tm.classes or imp[2] in tm.functions or imp[2] in tm.imports:
                return self.global_name(tm, imp[2], line, depth + 1)
        return EMPTY               # builtins, external modules, constants of modules outside the universe

    def class_attr_read(self, modname, cname, attr, line):
        ca = self.an.w.modules[modname].class_attrs[cname].get(attr)
        if ca and ca[0]:
            self.an.global_reads.add((self.fn.qual, modname, cname + '.' + attr, line))
            return uniform([('global', modname, cname + '.' + attr)])
        return EMPTY

    def e_Attribute(self, e, env):
        if e.attr in FORBIDDEN_ATTRS:
            self.ev(e.lineno, 'Unclassified', 'use of ' + e.attr, [('unknown', e.attr)], e)
        v = e.value
        if isinstance(v, ast.Name) and v.id == self.fn.self_name and env.get(v.id, EMPTY).own == frozenset([('self',)]):
            base = P([('selfattr', e.attr)], [('selfattr*', e.attr)], [('selfattr*', e.attr)])
            recv = env[v.id]
            via_self = True
        else:
            via_self = False
            if isinstance(v, ast.Name) and v.id not in self.local_names and v.id not in env:
                imp = self.mod.imports.get(v.id)
                if imp and imp[0] == 'rel':
                    target = modjoin(imp[1], imp[2])
                    if target in self.an.w.modules:
                        return self.global_name(self.an.w.modules[target], e.attr, e.lineno)
                    if imp[1] in self.an.w.modules and imp[2] in self.an.w.modules[imp[1]].classes:
                        return self.class_attr_read(imp[1], imp[2], e.attr, e.lineno)
                    return EMPTY
                if imp and imp[0] == 'ext':
                    return EMPTY
                if v.id in self.mod.classes:
                    return self.class_attr_read(self.mod.name, v.id, e.attr, e.lineno)
            recv = self.expr(v, env)
            base = recv.attr()
        for f in self.an.props.get(e.attr, []):      # property getters of the family run code
            base = join(base, self.call_fn(f, recv, [], {}, e, via_self=via_self))
        return base

    def e_Subscript(self, e, env):
        v = self.expr(e.value, env)
        if isinstance(e.slice, ast.Slice):
            self.expr(e.slice, env)
            vf = v.flat()
            return P([FRESH_ATOM], vf.elems, vf.fields)      # a slice is a new container with the same elements
        self.expr(e.slice, env)
        if v.items is not None and isinstance(e.slice, ast.Constant) and isinstance(e.slice.value, int) \
                and not isinstance(e.slice.value, bool) and -len(v.items) <= e.slice.value < len(v.items):
            return v.items[e.slice.value]
        return v.elem()

    def e_Slice(self, e, env):
        for x in (e.lower, e.upper, e.step):
            if x is not None:
                self.expr(x, env)
        return EMPTY

    def e_Starred(self, e, env):
        return self.expr(e.value, env)

    def e_Tuple(self, e, env):
        items = [self.expr(x, env) for x in e.elts]
        if any(isinstance(x, ast.Starred) for x in e.elts):
            return container_of(items)
        return P([FRESH_ATOM], (), (), items)

    def e_List(self, e, env):
        return container_of([self.expr(x, env) for x in e.elts])

    e_Set = e_List

    def e_Dict(self, e, env):
        return container_of([self.expr(k, env) for k in e.keys if k is not None] + [self.expr(v, env) for v in e.values])

    def _comp(self, e, env, elts):
        env = dict(env)
        for g in e.generators:
            it = self.expr(g.iter, env)
            env = self.assign(g.target, it.elem(), env, e)
            for c in g.ifs:
                self.expr(c, env)
        return container_of([self.expr(x, env) for x in elts])

    def e_ListComp(self, e, env):
        return self._comp(e, env, [e.elt])

    e_SetComp = e_ListComp
    e_GeneratorExp = e_ListComp

    def e_DictComp(self, e, env):
        return self._comp(e, env, [e.key, e.value])

    def e_BinOp(self, e, env):
        l, r = self.expr(e.left, env).flat(), self.expr(e.right, env).flat()
        if not l.all() and not r.all():
            return EMPTY
        return P([FRESH_ATOM], l.elems | r.elems, l.fields | r.fields)     # list + list shares the elements

    def e_UnaryOp(self, e, env):
        self.expr(e.operand, env)
        return EMPTY

    def e_BoolOp(self, e, env):
        r = EMPTY
        for v in e.values:
            r = join(r, self.expr(v, env))
        return r

    def e_Compare(self, e, env):
        self.expr(e.left, env)
        for c in e.comparators:
            self.expr(c, env)
        return EMPTY

    def e_IfExp(self, e, env):
        self.expr(e.test, env)
        return join(self.expr(e.body, env), self.expr(e.orelse, env))

    def e_Lambda(self, e, env):
        self.ev(e.lineno, 'Unclassified', 'lambda', [('unknown', 'lambda')], e)
        return uniform([('unknown', 'lambda')])

    def e_NamedExpr(self, e, env):
        self.ev(e.lineno, 'Unclassified', 'assignment expression', [('unknown', 'walrus')], e)
        return self.expr(e.value, env)

    def e_Yield(self, e, env):
        # a generator function: the call returns a new (call-local) generator whose iteration
        # produces the yielded values
        v = self.expr(e.value, env) if e.value is not None else EMPTY
        self.add_ret(container_of([v]))
        return EMPTY

    def e_YieldFrom(self, e, env):
        self.add_ret(container_of([self.expr(e.value, env).elem()]))
        return EMPTY

    def e_Await(self, e, env):
        self.ev(e.lineno, 'Unclassified', 'await', [('unknown', 'await')], e)
        return EMPTY

    # ---- calls ---------------------------------------------------------------------
    def e_Call(self, e, env):
        f = e.func
        args = [self.expr(a, env) for a in e.args]
        star = 'args' if any(isinstance(a, ast.Starred) for a in e.args) else \
            ('kwargs' if any(k.arg is None for k in e.keywords) else False)
        kw = {}
        extra = []
        for k in e.keywords:
            v = self.expr(k.value, env)
            if k.arg is None:
                extra.append(v)
            else:
                kw[k.arg] = v
        allargs = args + list(kw.values()) + extra

        # super().m(...) / super(X, self).m(...)
        if isinstance(f, ast.Attribute) and isinstance(f.value, ast.Call) and isinstance(f.value.func, ast.Name) \
                and f.value.func.id == 'super':
            recv = env.get(self.fn.self_name, EMPTY)
            return self.method_call(f.attr, recv, args, kw, star, extra, env, e, via_self=True, external_ok=False)
        if isinstance(f, ast.Attribute):
            name = f.attr
            if isinstance(f.value, ast.Name) and f.value.id not in self.local_names and f.value.id not in env:
                imp = self.mod.imports.get(f.value.id)
                if imp is not None:
                    if imp[0] == 'rel':
                        target = modjoin(imp[1], imp[2])
                        if target in self.an.w.modules:
                            return self.static_call(self.an.w.modules[target], name, args, kw, star, extra, env, e)
                        if imp[1] in self.an.w.modules and imp[2] in self.an.w.modules[imp[1]].classes:
                            return self.method_call(name, EMPTY, args, kw, star, extra, env, e, unbound=True)
                        return self.external(name, EMPTY, allargs, e, module='asn1tools.' + target)
                    return self.external(name, EMPTY, allargs, e, module=imp[1])
                if f.value.id in self.mod.classes:
                    return self.method_call(name, EMPTY, args, kw, star, extra, env, e, unbound=True)
                if f.value.id in ('int', 'bytes', 'bytearray', 'str', 'dict', 'float', 'datetime', 'object', 'list',
                                  'set', 'tuple'):
                    if name in MUTATORS:
                        if args:       # list.append(x, ...): unbound mutator
                            self.ev(e.lineno, 'MutCall', name, args[0].own or [('unknown', 'unbound mutator')], e)
                        return EMPTY
                    return self.external(name, EMPTY, allargs, e, module='builtins')
            if name in FORBIDDEN_ATTRS:
                self.ev(e.lineno, 'Unclassified', 'use of ' + name, [('unknown', name)], e)
            if name == '__class__':        # x.__class__(...): constructor of the class of x
                self.expr(f.value, env)
                self.ctor_from_class_of(args, kw, star, e)
                return FRESHP
            recv = self.expr(f.value, env)
            via_self = isinstance(f.value, ast.Name) and f.value.id == self.fn.self_name and \
                recv.own == frozenset([('self',)])
            return self.method_call(name, recv, args, kw, star, extra, env, e, via_self=via_self)
        if isinstance(f, ast.Name):
            name = f.id
            if name in env or (name in self.local_names and name not in self.mod.functions and name not in self.mod.classes):
                self.ev(e.lineno, 'Unclassified', 'call of a local/parameter value ' + name, [('unknown', 'indirect call')], e)
                return uniform(set().union(*[a.all() for a in allargs + [env.get(name, EMPTY)]]) | {('unknown', 'indirect call')})
            if name in FORBIDDEN_NAMES:
                if name in ('setattr', 'delattr') and len(e.args) >= 2 and isinstance(e.args[1], ast.Constant):
                    # setattr(obj, 'const', v) is an attribute store
                    self.write(e.args[0], env, 'AttrStore', str(e.args[1].value), e, attr=str(e.args[1].value))
                    if len(args) == 3:
                        env2 = self.stored(e.args[0], args[2], env, attr=str(e.args[1].value))
                        if env2 is not env:
                            env.clear()
                            env.update(env2)
                    return EMPTY
                self.ev(e.lineno, 'Unclassified', 'call of ' + name, [('unknown', name)], e)
                return uniform([('unknown', name)])
            return self.static_call(self.mod, name, args, kw, star, extra, env, e)
        if isinstance(f, ast.Call) and isinstance(f.func, ast.Name) and f.func.id == 'type' and len(f.args) == 1:
            self.expr(f.args[0], env)
            self.ctor_from_class_of(args, kw, star, e)
            return FRESHP
        self.expr(f, env)
        self.ev(e.lineno, 'Unclassified', 'indirect call ' + ast.unparse(f)[:40], [('unknown', 'indirect call')], e)
        return uniform(set().union(*[a.all() for a in allargs]) | {('unknown', 'indirect call')})

    def ctor_from_class_of(self, args, kw, star, e):
        """x.__class__(...) / type(x)(...): a new object of some class of the family; every __init__
        that accepts the arguments runs on it (over-approximation)"""
        for f in self.an.by_name.get('__init__', []):
            if f.accepts(len(args), list(kw), star):
                self.call_fn(f, FRESHP, args, kw, e)

    def static_call(self, mod, name, args, kw, star, extra, env, e, depth=0):
        """call of a module-level name of [mod]"""
        allargs = args + list(kw.values()) + extra
        if name in mod.functions:
            if mod.name not in self.an.modnames:
                return self.external(name, EMPTY, allargs, e, module='asn1tools.' + mod.name)
            return self.call_fn(mod.functions[name], None, args, kw, e, extra=extra)
        if name in mod.classes:
            return self.construct(mod, name, args, kw, star, extra, e)
        imp = mod.imports.get(name)
        if imp is not None and depth < 5:
            if imp[0] == 'rel':
                if imp[1] in self.an.w.modules:
                    return self.static_call(self.an.w.modules[imp[1]], imp[2], args, kw, star, extra, env, e, depth + 1)
                return self.external(name, EMPTY, allargs, e, module='asn1tools.' + imp[1])
            return self.external(imp[1].split('.')[-1], EMPTY, allargs, e, module=imp[1])
        if name in mod.globals:
            self.ev(e.lineno, 'Unclassified', 'call of module global ' + name, [('unknown', 'indirect call')], e)
            return uniform([('unknown', 'indirect call')])
        return self.external(name, EMPTY, allargs, e, module='builtins')

    def construct(self, mod, cname, args, kw, star, extra, e):
        """ClassName(...) of a universe class: a new object; its __init__ runs on it"""
        for f in self.find_inits(mod, cname):
            self.call_fn(f, FRESHP, args, kw, e, extra=extra)
        vals = container_of(args + list(kw.values()) + extra)
        return P([FRESH_ATOM], (), vals.elems | vals.fields | {FRESH_ATOM})

    def find_inits(self, mod, cname, seen=None):
        seen = seen if seen is not None else set()
        if (mod.name, cname) in seen:
            return []
        seen.add((mod.name, cname))
        f = mod.methods.get((cname, '__init__'))
        if f is not None:
            return [f]
        out = []
        for b in mod.classes[cname].bases:
            r = self.an.w.resolve_class(mod, b)
            if r:
                out += self.find_inits(self.an.w.modules[r[0]], r[1], seen)
        return out

    def method_call(self, name, recv, args, kw, star, extra, env, e, via_self=False, unbound=False, external_ok=True):
        allargs = args + list(kw.values()) + extra
        res = None
        cands = list(self.an.by_name.get(name, []))
        if unbound and args:               # Class.method(obj, ...): the first argument is the receiver
            recv, args = args[0], args[1:]
        if via_self and self.fn.cls:
            rel = self.an.w.mro_related((self.fn.module, self.fn.cls))
            cands = [f for f in cands if (f.module, f.cls) in rel]
        matched = False
        for f in cands:
            if f.accepts(len(args), list(kw), star):
                matched = True
                r = self.call_fn(f, recv if f.is_method else None, args, kw, e, via_self=via_self, extra=extra)
                res = r if res is None else join(res, r)
        if not matched and name in INDIRECT:       # an attribute holding a function (documented)
            for f in self.an.funcs_by_name.get(INDIRECT[name], []):
                matched = True
                r = self.call_fn(f, None, args, kw, e, extra=extra)
                res = r if res is None else join(res, r)
            return res if res is not None else EMPTY
        if name in MUTATORS:
            if recv.own:
                self.ev(e.lineno, 'MutCall', name, recv.own, e)
                if isinstance(e.func, ast.Attribute):
                    for a in allargs:
                        env2 = self.stored(e.func.value, a, env)
                        if env2 is not env:
                            env.clear()
                            env.update(env2)
            r = recv.elem() if name in MUT_RETURNS_ELEM else EMPTY
            return r if res is None else join(res, r)
        if external_ok and (not matched or name in PURE_FRESH or name in VIEWS or name in ELEMENTS):
            r = self.external(name, recv, allargs, e, module=None)
            res = r if res is None else join(res, r)
        elif not matched:
            self.ev(e.lineno, 'Unclassified', 'unresolved method ' + name, [('unknown', 'unresolved call')], e)
            res = uniform([('unknown', 'unresolved')])
        return res if res is not None else EMPTY

    def external(self, name, recv, args, e, module=None):
        """a callable outside the universe"""
        if module is not None and module.startswith('asn1tools.'):
            self.ev(e.lineno, 'Unclassified', 'call into unanalysed module ' + module + '.' + name,
                    [('unknown', 'unanalysed module')], e)
            return uniform([('unknown', 'unanalysed')])
        if name in FORBIDDEN_NAMES:
            self.ev(e.lineno, 'Unclassified', 'call of ' + name, [('unknown', name)], e)
        if name in PURE_FRESH:
            return FRESHP
        every = [recv] + list(args)
        if name in VIEWS:                   # a new container / iterator over the same elements
            el, fi = set(), set()
            for a in every:
                a = a.flat()
                el |= a.elems
                fi |= a.fields
            return P([FRESH_ATOM], el, fi)
        if name in ELEMENTS:
            # get(k, default) / getattr(o, n, default) / max(a, b) / next(it): an element (attribute) of
            # the receiver / first argument, or one of the arguments themselves
            o = set()
            for a in every:
                a = a.flat()
                o |= a.elems | a.fields
            for a in args:
                o |= a.own
            if name in ('max', 'min', 'cast'):
                o |= recv.own
            return uniform(o)
        # unknown external callable: it might mutate what it is given -> fail closed if that is shared
        self.an.unknown_ext.add((name, module or ''))
        al = set()
        for a in every:
            al |= a.all()
        shared = self.conc(al) - {FRESH, EXC}
        if shared:
            self.ev(e.lineno, 'Unclassified', 'external callable %s.%s with a possibly shared argument' % (module or '', name),
                    [('unknown', 'external ' + name)], e)
        return uniform(al | {FRESH_ATOM})

    def call_fn(self, f, recv, args, kw, e, via_self=False, extra=()):
        """bind arguments, push inflow to the callee, return its instantiated return summary"""
        binding = {}
        pos = list(f.pos)
        rest = list(extra)
        for i, a in enumerate(args):
            if i < len(pos):
                binding[pos[i]] = a
            else:
                rest.append(a)
        for k, v in kw.items():
            if k in pos or k in f.kwonly:
                binding[k] = v
            else:
                rest.append(v)
        if rest:
            bag = container_of(rest)
            for p in (f.vararg, f.kwarg):
                if p:
                    binding[p] = join(binding.get(p, EMPTY), bag)
            if extra:                       # *args / **kwargs at the call site may fill any parameter
                spread = container_of(extra).elem()
                for p in pos + f.kwonly:
                    if p not in binding:
                        binding[p] = spread
        flow = {}
        if f.is_method:
            flow['self'] = self.an.self_flow(f)
        for p, v in binding.items():
            flow[p] = self.concP(v)
        self.an.add_inflow(f, flow, (self.fn.qual, getattr(e, 'lineno', 0)))
        ret = self.an.returns.get(f.qual)
        if ret is None:
            return EMPTY
        return self.subst(ret, recv, binding, via_self)

    def subst(self, ret, recv, binding, via_self):
        rf = recv.flat() if recv is not None else EMPTY

        def sub(atoms):
            out = set()
            for a in atoms:
                t = a[0]
                if t == 'self':
                    out |= rf.own
                elif t in ('selfattr', 'selfattr*'):
                    if via_self:
                        out.add(a)
                    else:
                        out |= rf.fields | rf.elems
                elif t == 'param':
                    b = binding.get(a[1])
                    if b is not None:
                        out |= getattr(b.flat(), a[2])
                else:
                    out.add(a)
            return out

        def go(p):
            return P(sub(p.own), sub(p.elems), sub(p.fields), [go(i) for i in p.items] if p.items is not None else None)
        return go(ret)


# ------------------------------------------------------------------------------------
# classification and output

SHARED_KINDS = ('SelfAttr', 'SharedAlias', 'Global', 'InputValue', 'Unknown')


def classify(an, ev):
    """-> list of (receiver constructor, argument) for one event"""
    run = FnRun(an, ev.fn)
    out = set()
    for a in ev.atoms:
        if a[0] == 'unknown':
            out.add(('Unknown', a[1]))
            continue
        if a[0] == 'global':
            out.add(('Global', '%s.%s' % (a[1], a[2])))
            continue
        if a[0] == 'fresh':
            out.add(('LocalFresh', ''))
            continue
        if a[0] == 'exc':
            out.add(('CallLocalObject', 'exception in flight'))
            continue
        if a[0] == 'selfstore':
            roots = run.conc([('self',)])
            name, what, via_self = a[1], 'self.' + a[1], True
        elif a[0] in ('selfattr', 'selfattr*', 'self'):
            roots = run.conc([a])
            name = a[1] if len(a) > 1 else 'self'
            what, via_self = 'self.' + name, True
        elif a[0] == 'param':
            roots = run.conc([a])
            name, what, via_self = a[1], a[1], False
        else:
            out.add(('Unknown', 'atom %r' % (a,)))
            continue
        if not roots:
            # never bound by any analysed caller / only constants are ever stored
            out.add(('CallLocalObject', what + ' (no object flows here)'))
        for r in roots:
            if r == SPEC:
                out.add(('SelfAttr', name) if via_self else ('SharedAlias', name))
            elif r == INPUT:
                out.add(('InputValue', what))
            elif r in (FRESH, EXC):
                out.add(('CallLocalObject', what))
            elif isinstance(r, tuple) and r[0] == 'global':
                out.add(('Global', '%s.%s' % (r[1], r[2])))
            elif isinstance(r, tuple) and r[0] == 'unknown':
                out.add(('Unknown', r[1]))
            else:
                out.add(('Unknown', 'root %r' % (r,)))
    loc = sorted(x for x in out if x[0] == 'CallLocalObject')
    rest = sorted(x for x in out if x[0] != 'CallLocalObject')
    if loc:
        rest.append(('CallLocalObject', loc[0][1].split(' (')[0]))
    return rest


def compute_call_local(world, reach_all):
    """Classes whose instances exist only during one top-level call: the class and all its
    subclasses are constructed somewhere, and every constructor call is inside a function that
    runs at encode/decode/check time or is the operand of a raise statement (the object is thrown,
    not kept).  Given that no run-time function writes to shared state (the very table this
    analysis produces), such an object cannot survive the call that allocated it."""
    subs = world.hierarchy()
    ctors = world.ctor_sites()
    raised = set()
    for m in world.modules.values():
        for n in ast.walk(m.tree):
            if isinstance(n, ast.Raise) and isinstance(n.exc, ast.Call):
                r = world.resolve_class(m, n.exc.func)
                if r:
                    raised.add((r, n.exc.lineno))
    out, evid = set(), {}
    for k, ss in subs.items():
        sites = [(c, where, line) for c in ss for (where, line) in ctors.get(c, [])]
        if sites and all(where in reach_all or (c, line) in raised for c, where, line in sites):
            out.add(k)
            evid[k] = sorted(set((where, line) for c, where, line in sites))
    return frozenset(out), evid


def analyse(repo):
    world = World(repo)
    table = {}        # (module, class, method, kind, detail, recv, arg, line) -> text
    methods = {}      # (module, class) -> set(method)
    fresh_only = {}   # (module, class) -> bool (all reachable methods have FRESH-only self)
    ctor = set()
    greads = set()
    local_fresh = {}
    unknown_ext = set()
    reach_by_family = {}
    problems = []
    for m in world.modules.values():
        for line, what in m.toplevel_unknown:
            problems.append((m.name, '', '<module>', line, what))
    # phase 1: what is reachable (the name-based call graph does not depend on provenance)
    reach_all = set()
    for codec in CODECS:
        reach_all |= set(Analysis(world, codec).run().reach)
    call_local, local_evidence = compute_call_local(world, reach_all)
    for codec in CODECS:
        an = Analysis(world, codec, call_local).run()
        reach_by_family[codec] = len(an.reach)
        unknown_ext |= an.unknown_ext
        for q, f in an.reach.items():
            methods.setdefault((q[0], q[1]), set()).add(q[2])
            if f.cls and (q[0], q[1]) in call_local:
                fresh_only[(q[0], q[1])] = local_evidence[(q[0], q[1])]
        for q, evs in an.events.items():
            for ev in evs.values():
                for recv, arg in classify(an, ev):
                    if recv == 'LocalFresh':
                        local_fresh.setdefault(q[0], set()).add((ev.line, ev.kind, ev.detail))
                        continue
                    kind = ev.kind if ev.kind != 'Unclassified' else 'Unclassified'
                    if ev.kind == 'Unclassified':
                        recv, arg = 'Unknown', ev.detail
                    table[(q[0], q[1], q[2], kind, ev.detail if ev.kind != 'Unclassified' else '', recv, arg, ev.line)] = ev.text
        greads |= an.global_reads
    local_fresh = {k: len(v) for k, v in local_fresh.items()}
    # the Compiler classes are compile-time code: none of their methods may be reachable at run time
    subs = world.hierarchy()
    for (mname, cname) in sorted(subs.get(('codecs.compiler', 'Compiler'), ())):
        for n in sorted(methods.get((mname, cname), ())):
            problems.append((mname, cname, n, 0, 'method of a Compiler class reachable at run time'))
    for (where, line) in world.ctor_sites().get(('compiler', 'Specification'), []):
        if where[0] != 'compiler':
            problems.append((where[0], where[1], where[2], line, 'Specification constructed outside asn1tools/compiler.py'))
    # the documented indirect call: Specification._decode_length is <codec module>.decode_full_length
    cd = world.modules['compiler'].functions.get('compile_dict')
    okind = False
    if cd is not None:
        for n in ast.walk(cd.node):
            if isinstance(n, ast.Call) and isinstance(n.func, ast.Name) and n.func.id == 'Specification' \
                    and len(n.args) >= 2 and ast.unparse(n.args[1]) == 'codec.decode_full_length':
                okind = True
    init = world.modules['compiler'].methods.get(('Specification', '__init__'))
    okstore = init is not None and any(
        isinstance(n, ast.Assign) and ast.unparse(n) == 'self._decode_length = decode_length' for n in ast.walk(init.node))
    if not (okind and okstore):
        problems.append(('compiler', 'Specification', 'decode_length', 0,
                         'indirect call self._decode_length no longer bound to codec.decode_full_length'))
    return world, table, methods, fresh_only, ctor, greads, local_fresh, unknown_ext, reach_by_family, problems


def evidence(world, methods, fresh_only, ctor):
    """Classes whose objects are fresh per top-level call + the allocation sites."""
    out = []
    for (mod, cls), sites in sorted(fresh_only.items()):
        out.append((mod, cls, [(q, line, 'ctor') for q, line in sites]))
    return out


def root_allocations(world):
    """Direct check of the mechanism quoted by the property: the top-level CompiledType.encode /
    decode of the bit-oriented codecs allocate their Encoder / Decoder locally, the BER one a
    bytearray."""
    facts = []
    want = {
        ('codecs.per', 'encode'): 'Encoder', ('codecs.per', 'decode'): 'Decoder',
        ('codecs.uper', 'encode'): 'Encoder', ('codecs.uper', 'decode'): 'Decoder',
        ('codecs.oer', 'encode'): 'Encoder', ('codecs.oer', 'decode'): 'Decoder',
        ('codecs.ber', 'encode'): 'bytearray', ('codecs.ber', 'decode_with_length'): 'bytearray',
    }
    for (mod, meth), ctor in sorted(want.items()):
        f = world.modules[mod].methods.get(('CompiledType', meth))
        ok, line = False, 0
        if f is not None:
            for st in f.node.body:
                for n in ast.walk(st):
                    if isinstance(n, ast.Call) and isinstance(n.func, ast.Name) and n.func.id == ctor:
                        ok, line = True, n.lineno
            # the allocated object must not be stored anywhere but a local name / passed as argument
        facts.append((mod, 'CompiledType', meth, ctor, ok, line))
    return facts


def coq_str(s):
    return '"%s"' % str(s).replace('"', '""')


RECV_CTOR = {'SelfAttr': 'SelfAttr', 'SharedAlias': 'SharedAlias', 'Global': 'Global', 'InputValue': 'InputValue',
             'CallLocalObject': 'CallLocalObject', 'Unknown': 'UnknownRecv'}


def emit(repo, out_v, out_json=None):
    world, table, methods, fresh_only, ctor, greads, local_fresh, unknown_ext, reach, problems = analyse(repo)
    rows = sorted(table.items(), key=lambda kv: (kv[0][0], kv[0][7], kv[0][1], kv[0][2], kv[0][3:7]))
    for (mod, cls, meth, line, what) in problems:
        rows.append(((mod, cls, meth, 'Unclassified', '', 'Unknown', what, line), what))
    # compile-time functions must not be reachable
    ct_reach = sorted((m, c, n) for (m, c), ns in methods.items() for n in ns if n in COMPILE_TIME)
    for (m, c, n) in ct_reach:
        rows.append(((m, c, n, 'Unclassified', '', 'Unknown', 'compile-time setter reachable at run time', 0), n))
    ev = evidence(world, methods, fresh_only, ctor)
    roots = root_allocations(world)
    benign = sorted(BENIGN_AUG.items())
    # every benign entry must still exist in the source (otherwise the list is stale)
    stale = []
    for (mod, fn, text), why in benign:
        m = world.modules.get(mod)
        fs = ([m.functions[fn]] if fn in m.functions else []) + [g for (c, n), g in m.methods.items() if n == fn] if m else []
        if not any(isinstance(n, ast.AugAssign) and ast.unparse(n) == text for f in fs for n in ast.walk(f.node)):
            stale.append((mod, fn, text))
    L = []
    A = L.append
    A('(** GENERATED by translator/writesets.py from %s -- do not edit.' % 'the asn1tools sources')
    A('    Write-sets of every function reachable at encode / decode / check time. *)')
    A('From Coq Require Import String ZArith List.')
    A('Import ListNotations.')
    A('Open Scope string_scope.')
    A('Open Scope Z_scope.')
    A('')
    A('Inductive receiver : Type :=')
    A('| SelfAttr (attr : string)          (* self.attr (or an alias), self is part of the compiled graph *)')
    A('| SharedAlias (name : string)       (* alias of a parameter / call result that may be part of the compiled graph *)')
    A('| Global (name : string)            (* module global, class attribute, mutable default argument *)')
    A('| InputValue (name : string)        (* the value passed in by the caller, or part of it *)')
    A('| CallLocalObject (what : string)   (* allocated by every caller during the same top-level call *)')
    A('| UnknownRecv (why : string).       (* not classified: fails the check *)')
    A('')
    A('Inductive wkind : Type :=')
    A('| AttrStore (attr : string) | AugAttr (attr : string) | DelAttr (attr : string)')
    A('| ItemStore | AugItem | DelItem | AugName (op : string) | MutCall (meth : string)')
    A('| GlobalDecl (name : string) | GlobalStore (name : string) | Unclassified.')
    A('')
    A('Record wentry : Type := W {')
    A('  w_module : string; w_class : string; w_method : string;')
    A('  w_kind : wkind; w_recv : receiver; w_line : Z }.')
    A('')

    def kind_term(kind, detail):
        if kind in ('AttrStore', 'AugAttr', 'DelAttr', 'AugName', 'MutCall', 'GlobalDecl', 'GlobalStore'):
            return '(%s %s)' % (kind, coq_str(detail))
        return kind

    A('Definition write_table : list wentry := [')
    body = []
    for (mod, cls, meth, kind, detail, recv, arg, line), text in rows:
        body.append('  W %s %s %s %s (%s %s) %d  (* %s *)' % (
            coq_str(mod), coq_str(cls), coq_str(meth), kind_term(kind, detail), RECV_CTOR[recv], coq_str(arg), line,
            text.replace('*)', '* )').replace('(*', '( *')))
    A(';\n'.join(body))
    A('].')
    A('')
    A('(** Functions reachable at run time, per class ("" = module level). *)')
    A('Definition reachable_methods : list (string * string * list string) := [')
    A(';\n'.join('  (%s, %s, [%s])' % (coq_str(m), coq_str(c), '; '.join(coq_str(n) for n in sorted(ns)))
                 for (m, c), ns in sorted(methods.items())))
    A('].')
    A('')
    A('(** Classes all of whose reachable methods only ever run on objects allocated during the')
    A('    same top-level call, with the allocation sites (module, class, function, line). *)')
    A('(*  (module, class, number of constructor sites, the first of them (module, class, function, line)) *)')
    A('Definition fresh_classes : list (string * string * Z * list (string * string * string * Z)) := [')
    A(';\n'.join('  (%s, %s, %d, [%s])' % (coq_str(m), coq_str(c), len(sites), '; '.join(
        '(%s, %s, %s, %d)' % (coq_str(q[0]), coq_str(q[1]), coq_str(q[2]), line) for q, line, how in sites[:4]))
        for m, c, sites in ev))
    A('].')
    A('')
    A('(** The mechanism named by the property: CompiledType.encode/decode allocate locally')
    A('    (module, class, method, constructor, found, line). *)')
    A('Definition root_allocations : list (string * string * string * string * bool * Z) := [')
    A(';\n'.join('  (%s, %s, %s, %s, %s, %d)' % (coq_str(m), coq_str(c), coq_str(me), coq_str(k),
                                                 'true' if ok else 'false', line) for m, c, me, k, ok, line in roots))
    A('].')
    A('')
    A('(** Reads of mutable module-level state (module, class, function, global). *)')
    gr = sorted(set((q[0], q[1], q[2], '%s.%s' % (gm, gn)) for (q, gm, gn, line) in greads))
    A('Definition global_reads : list (string * string * string * string) := [')
    A(';\n'.join('  (%s, %s, %s, %s)' % tuple(coq_str(x) for x in r) for r in gr))
    A('].')
    A('')
    A('(** Audited augmented assignments on names holding immutable values (module, function, statement, why);')
    A('    the bool says the statement is still present in the source. *)')
    A('Definition benign_aug : list (string * string * string * string * bool) := [')
    A(';\n'.join('  (%s, %s, %s, %s, %s)' % (coq_str(k[0]), coq_str(k[1]), coq_str(k[2]), coq_str(why),
                                             'false' if k in stale else 'true') for k, why in benign))
    A('].')
    A('')
    A('(** Writes to objects allocated in the writing function itself (not listed): count per module. *)')
    A('Definition local_fresh_writes : list (string * Z) := [')
    A(';\n'.join('  (%s, %d)' % (coq_str(m), n) for m, n in sorted(local_fresh.items())))
    A('].')
    text = '\n'.join(L) + '\n'
    os.makedirs(os.path.dirname(out_v), exist_ok=True)
    old = open(out_v).read() if os.path.exists(out_v) else None
    if old != text:
        with open(out_v, 'w') as f:
            f.write(text)
    doc = {
        'table': [dict(module=k[0], cls=k[1], method=k[2], kind=k[3], detail=k[4], recv=k[5], arg=k[6], line=k[7],
                       text=t) for k, t in rows],
        'shared': [dict(module=k[0], cls=k[1], method=k[2], kind=k[3], detail=k[4], recv=k[5], arg=k[6], line=k[7],
                        text=t) for k, t in rows if k[5] in SHARED_KINDS],
        'methods': {('%s:%s' % k): sorted(v) for k, v in methods.items()},
        'fresh_classes': [[m, c, [[list(q), line, how] for q, line, how in s]] for m, c, s in ev],
        'root_allocations': [list(r) for r in roots],
        'global_reads': [list(r) for r in gr],
        'benign_stale': [list(s) for s in stale],
        'local_fresh': local_fresh,
        'unknown_external': sorted('%s%s' % ((m + '.') if m else '.', n) for n, m in unknown_ext),
        'reachable_per_family': reach,
        'compile_time_reachable': [list(x) for x in ct_reach],
        'changed': old != text,
    }
    if out_json:
        with open(out_json, 'w') as f:
            json.dump(doc, f, indent=1, sort_keys=True)
    return doc


def main(argv):
    import argparse
    ap = argparse.ArgumentParser()
    ap.add_argument('--repo', default=os.environ.get('VERIF_REPO', '/repo'))
    ap.add_argument('--out', default=os.path.join(os.path.dirname(os.path.dirname(os.path.abspath(__file__))),
                                                  'coq', 'gen', 'WriteSets.v'))
    ap.add_argument('--json')
    ap.add_argument('-v', action='store_true')
    a = ap.parse_args(argv)
    doc = emit(a.repo, a.out, a.json)
    print('writesets: %d table rows, %d shared/unknown, %d classes, reachable per family %s' % (
        len(doc['table']), len(doc['shared']), len(doc['methods']), doc['reachable_per_family']))
    if a.v:
        for r in doc['table']:
            print('  %(module)s %(cls)s.%(method)s:%(line)d %(kind)s %(detail)s -> %(recv)s %(arg)s   | %(text)s' % r)
        print('unknown externals:', doc['unknown_external'])
    for r in doc['shared']:
        print('  SHARED %(module)s %(cls)s.%(method)s:%(line)d %(kind)s %(detail)s -> %(recv)s %(arg)s   | %(text)s' % r)
    return 0


if __name__ == '__main__':
    sys.exit(main(sys.argv[1:]))
