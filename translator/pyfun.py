"""pyfun.py -- fail-closed translator from a small subset of Python to shallow Gallina.

Regenerates coq/gen/PyBer.v, PyPer.v, PyOer.v (logical root Asn1Gen) from the
pure helper functions of <repo>/asn1tools/codecs/{ber,per,oer}.py.  The meaning
of the Python primitives is fixed once in coq/theories/Py/PyRuntime.v; theorems
in coq/theories/Py/Py*Tie.v relate every regenerated function, for all
arguments, to the function the hand-written implementation models use, so an
edit of the Python source changes the generated text and breaks a proof
obligation (harness/pyfun_tie.py then searches for the concrete input).

Subset (anything else raises Untranslatable(function, lineno, why) -- never a
guess):

  def f(p1, ..., pn=<constant>):      parameter and return types come from SPECS
  x = e | a, b = e | x op= e | x[i] op= e | x = y.pop(0)
  x.append(e) | x.extend(e) | x.reverse() | x.insert(0, e)
  if / elif / else      (incl. "x is [not] None" and "isinstance(x, int)" narrowing)
  while e: ...          -> a Fixpoint <f>_loop<k> on explicit fuel, Err EFuel when it runs out
  try: ... except C [as e]: <raise | return>
  return e | return e1, e2 | raise C(...)
  expressions: int/bool/None/bytes constants, module-level constants, + - * // %
  << >> & | ^, unary - and not, comparisons, and/or, e1 if c else e2, len(x),
  x.bit_length(), bytearray(), bytearray([..]), bytearray(x), bytes(x), x[i],
  x[a:b], x[a:], x[:b], x[::-1], int(binascii.hexlify(x), 16),
  x.to_bytes(length=n, byteorder='big', signed=True), sum(<pair>),
  x in [<constants>], calls of other translated functions, tuples.

Every translated function returns [result T]; an exception is [Err] of its
class.  Sub-expressions that can raise (indexing, calls, ...) are bound with
let* in Python's evaluation order.  A store into a bytearray is range-checked
(py_byte, ValueError) unless the stored expression is syntactically a byte
(constant in 0..255, [e & c] with 0 <= c <= 255, or an [|] of two such).
"""
import ast
import os
import re

INT, BOOL, BYTES, BARR, LIST, NONE, BOUND, INTBYTES = (
    'int', 'bool', 'bytes', 'bytearray', 'list', 'none', 'bound', 'intbytes')
SEQ = (BYTES, BARR, LIST)


def opt(t):
    return ('opt', t)


def tup(*ts):
    return ('tuple', tuple(ts))


class Untranslatable(Exception):
    def __init__(self, function, lineno, why):
        Exception.__init__(self, '%s:%s: %s' % (function, lineno, why))
        self.function = function
        self.lineno = lineno
        self.why = why


class _NeedMonad(Exception):
    pass


# (source file, generated module, [(function, [(param, type)], return type)])
SPECS = [
    ('asn1tools/codecs/ber.py', 'PyBer', [
        ('encode_length_definite', [('length', INT)], BARR),
        ('encode_signed_integer', [('number', INT)], BYTES),
        ('encode_tag', [('number', INT), ('flags', INT)], BARR),
        ('skip_tag', [('data', BYTES), ('offset', INT)], INT),
        ('read_tag', [('data', BYTES), ('offset', INT)], BYTES),
        ('decode_length', [('encoded', BYTES), ('offset', INT), ('enforce_definite', BOOL)], tup(opt(INT), INT)),
        ('skip_tag_length_contents', [('data', BYTES), ('offset', INT)], INT),
        ('detect_end_of_contents_tag', [('data', BYTES), ('offset', INT)], BOOL),
        ('is_end_of_data', [('data', BYTES), ('offset', INT), ('end_offset', opt(INT))], tup(BOOL, INT)),
        ('encode_object_identifier_subidentifier', [('subidentifier', INT)], LIST),
        ('decode_object_identifier_subidentifier', [('data', BYTES), ('offset', INT)], tup(INT, INT)),
        ('decode_full_length', [('data', BYTES)], opt(INT)),
    ]),
    ('asn1tools/codecs/per.py', 'PyPer', [
        ('is_unbound', [('minimum', BOUND), ('maximum', BOUND)], BOOL),
        ('to_int', [('chars', INTBYTES)], INT),
        ('to_byte_array', [('num', INT), ('number_of_bits', INT)], BARR),
        ('integer_as_number_of_bits', [('size', INT)], INT),
        ('integer_as_number_of_bits_power_of_two', [('size', INT)], INT),
        ('size_as_number_of_bytes', [('size', INT)], INT),
    ]),
    ('asn1tools/codecs/oer.py', 'PyOer', [
        ('encode_tag', [('number', INT), ('flags', INT)], BYTES),
    ]),
]

# exception classes the subset may raise / catch:
#   name -> (pyexc constructor of PyRuntime.v, how "raise name(args)" builds the err)
EXCEPTIONS = {
    'DecodeError': ('XDecodeError', 'EDecode'),
    'OutOfByteDataError': ('XOutOfByteDataError', 'EOutOfData'),
    'MissingDataError': ('XMissingDataError', 'EMissing'),
    'OutOfDataError': ('XOutOfDataError', 'EOutOfData'),
    'EncodeError': ('XEncodeError', 'EEncode'),
    'IndexError': ('XIndexError', 'EForeign "IndexError"'),
    'ValueError': ('XValueError', 'EForeign "ValueError"'),
    'TypeError': ('XTypeError', 'EForeign "TypeError"'),
    'OverflowError': ('XOverflowError', 'EForeign "OverflowError"'),
    'ZeroDivisionError': ('XZeroDivisionError', 'EForeign "ZeroDivisionError"'),
}
BUILTIN_EXC = ('IndexError', 'ValueError', 'TypeError', 'OverflowError', 'ZeroDivisionError')
# library classes: where they must come from and what they must look like (checked on the module's ast)
LIB_EXC_IMPORTED = ('DecodeError', 'OutOfDataError', 'EncodeError')      # "from . import X"
LIB_EXC_LOCAL = {
    'OutOfByteDataError': ('DecodeError', None),
    'MissingDataError': ('OutOfByteDataError',
                         "def __init__(self, message, offset, expected_length, location=None):\n"
                         "    super().__init__(message, offset, location=location)\n"
                         "    self.expected_length = expected_length"),
}

RESERVED = set('''as at cofix else end exists exists2 fix for forall fun if IF in let match mod Prop return Set
then Type using where with by fuel Ok Err Some None true false rev firstn skipn negb fst snd Z nat list option
result bind S O app map exc tt unit bool pybound pyintbytes err length'''.split())


def coq_type(t):
    if t == INT:
        return 'Z'
    if t == BOOL:
        return 'bool'
    if t in SEQ:
        return 'list Z'
    if t == BOUND:
        return 'pybound'
    if t == INTBYTES:
        return 'pyintbytes'
    if isinstance(t, tuple) and t[0] == 'opt':
        return 'option %s' % coq_atom_type(t[1])
    if isinstance(t, tuple) and t[0] == 'tuple':
        return ' * '.join(coq_atom_type(x) for x in t[1])
    raise ValueError(t)


def coq_atom_type(t):
    s = coq_type(t)
    return s if re.match(r'^\w+$', s) else '(%s)' % s


def zlit(n):
    return str(n) if n >= 0 else '(%d)' % n


def _strip_doc(body):
    if body and isinstance(body[0], ast.Expr) and isinstance(body[0].value, ast.Constant) \
            and isinstance(body[0].value.value, str):
        return body[1:]
    return body


def _dump(n):
    return ast.dump(n, annotate_fields=True, include_attributes=False)


class Module(object):
    """One source file: its ast, module-level constants, exception classes, function table."""

    def __init__(self, relpath, src, specs):
        self.relpath = relpath
        self.tree = ast.parse(src)
        self.specs = {name: (params, ret) for name, params, ret in specs}
        self.order = [name for name, _, _ in specs]
        self.defs = {}
        self.consts = {}
        self.imported = set()
        self.classes = {}
        for n in self.tree.body:
            if isinstance(n, ast.FunctionDef):
                if n.name in self.specs:
                    if n.name in self.defs:
                        raise Untranslatable(n.name, n.lineno, 'defined twice in %s' % relpath)
                    self.defs[n.name] = n
            elif isinstance(n, ast.Assign) and len(n.targets) == 1 and isinstance(n.targets[0], ast.Name):
                v = n.value
                name = n.targets[0].id
                if isinstance(v, ast.Constant) and isinstance(v.value, (int, bytes)) and not isinstance(v.value, bool):
                    self.consts[name] = None if name in self.consts else v.value   # assigned twice: unusable
                else:
                    self.consts[name] = None
            elif isinstance(n, ast.ImportFrom) and n.module is None and n.level == 1:
                for a in n.names:
                    self.imported.add(a.asname or a.name)
            elif isinstance(n, ast.ClassDef):
                self.classes[n.name] = n
        for name in self.order:
            if name not in self.defs:
                raise Untranslatable(name, '?', 'no top-level def %s in %s' % (name, relpath))
        # any later rebinding of a translated function's name would make the def we read a lie
        for n in ast.walk(self.tree):
            if isinstance(n, (ast.Assign, ast.AugAssign, ast.AnnAssign)):
                tg = n.targets if isinstance(n, ast.Assign) else [n.target]
                for t in tg:
                    if isinstance(t, ast.Name) and t.id in self.specs and isinstance(getattr(t, 'ctx', None), ast.Store) \
                            and n in self.tree.body:
                        raise Untranslatable(t.id, n.lineno, 'name of a translated function is rebound at module level')
        self.needs_fuel = {}
        self._fuel_done = set()

    def check_exception(self, fn, node, name):
        """The class [name] means what EXCEPTIONS says: builtin (not shadowed),
        imported from the codecs package, or defined here with the expected base and __init__."""
        if name not in EXCEPTIONS:
            raise Untranslatable(fn, node.lineno, 'exception class %s is not known to the translator' % name)
        if name in BUILTIN_EXC:
            if name in self.classes or name in self.imported or name in self.consts:
                raise Untranslatable(fn, node.lineno, 'builtin exception %s is shadowed' % name)
            return
        if name in LIB_EXC_LOCAL and name in self.classes:
            base, init = LIB_EXC_LOCAL[name]
            c = self.classes[name]
            if len(c.bases) != 1 or not isinstance(c.bases[0], ast.Name) or c.bases[0].id != base or c.keywords:
                raise Untranslatable(fn, c.lineno, 'class %s is not a direct subclass of %s' % (name, base))
            self.check_exception(fn, c, base)
            body = [b for b in _strip_doc(c.body) if not isinstance(b, ast.Pass)]
            if init is None:
                if body:
                    raise Untranslatable(fn, c.lineno, 'class %s has an unexpected body' % name)
            else:
                want = ast.parse(init).body[0]
                if len(body) != 1 or not isinstance(body[0], ast.FunctionDef):
                    raise Untranslatable(fn, c.lineno, 'class %s: expected exactly __init__' % name)
                got = body[0]
                got_cmp = ast.FunctionDef(name=got.name, args=got.args, body=_strip_doc(got.body),
                                          decorator_list=got.decorator_list, returns=got.returns,
                                          type_comment=None, type_params=[])
                want_cmp = ast.FunctionDef(name=want.name, args=want.args, body=want.body,
                                           decorator_list=[], returns=None, type_comment=None, type_params=[])
                if _dump(got_cmp) != _dump(want_cmp):
                    raise Untranslatable(fn, got.lineno, 'class %s: __init__ differs from the expected one' % name)
            return
        if name in LIB_EXC_IMPORTED and name in self.imported and name not in self.classes:
            return
        raise Untranslatable(fn, node.lineno, 'exception class %s is neither imported from the codecs package nor '
                                              'defined as expected' % name)

    def compute_fuel(self):
        def calls(fd):
            out = []
            for n in ast.walk(fd):
                if isinstance(n, ast.Call) and isinstance(n.func, ast.Name) and n.func.id in self.specs:
                    out.append(n.func.id)
            return out
        for name in self.order:
            self.needs_fuel[name] = any(isinstance(n, ast.While) for n in ast.walk(self.defs[name]))
        changed = True
        while changed:
            changed = False
            for name in self.order:
                if not self.needs_fuel[name] and any(self.needs_fuel[c] for c in calls(self.defs[name])):
                    self.needs_fuel[name] = True
                    changed = True
        # emission order: callees first, ties by source line
        done, out = set(), []

        def visit(name, stack):
            if name in done:
                return
            if name in stack:
                raise Untranslatable(name, self.defs[name].lineno, 'recursive function')
            for c in sorted(set(calls(self.defs[name])), key=lambda x: self.defs[x].lineno):
                visit(c, stack + [name])
            done.add(name)
            out.append(name)
        for name in sorted(self.order, key=lambda x: self.defs[x].lineno):
            visit(name, [])
        return out


def assigned_names(stmts):
    """Names (re)bound or mutated in [stmts], in order of first appearance."""
    out = []

    def add(x):
        if x not in out:
            out.append(x)

    def walk(ss):
        for s in ss:
            if isinstance(s, ast.Assign):
                for t in s.targets:
                    for n in ast.walk(t):
                        if isinstance(n, ast.Name):
                            add(n.id)
                v = s.value
                if isinstance(v, ast.Call) and isinstance(v.func, ast.Attribute) and v.func.attr == 'pop' \
                        and isinstance(v.func.value, ast.Name):
                    add(v.func.value.id)
            elif isinstance(s, ast.AugAssign):
                t = s.target
                if isinstance(t, ast.Name):
                    add(t.id)
                elif isinstance(t, ast.Subscript) and isinstance(t.value, ast.Name):
                    add(t.value.id)
            elif isinstance(s, ast.Expr):
                v = s.value
                if isinstance(v, ast.Call) and isinstance(v.func, ast.Attribute) and isinstance(v.func.value, ast.Name):
                    add(v.func.value.id)
            elif isinstance(s, ast.If):
                walk(s.body)
                walk(s.orelse)
            elif isinstance(s, ast.While):
                walk(s.body)
            elif isinstance(s, ast.Try):
                walk(s.body)
                for h in s.handlers:
                    walk(h.body)
    walk(stmts)
    return out


def falls_through(stmts):
    for s in stmts:
        if isinstance(s, (ast.Return, ast.Raise)):
            return False
        if isinstance(s, ast.If) and not falls_through(s.body) and not falls_through(s.orelse):
            return False
        if isinstance(s, ast.Try) and not falls_through(s.body) and all(not falls_through(h.body) for h in s.handlers):
            return False
    return True


def has_return(stmts):
    return any(isinstance(n, ast.Return) for s in stmts for n in ast.walk(s))


def names_used(nodes):
    out = []
    for nd in nodes:
        for n in ast.walk(nd):
            if isinstance(n, ast.Name) and n.id not in out:
                out.append(n.id)
    return out


class Fn(object):
    def __init__(self, mod, name):
        self.mod = mod
        self.name = name
        self.fd = mod.defs[name]
        self.params, self.ret = mod.specs[name]
        self.ntemp = 0
        self.nloop = 0
        self.loops = []
        self.pure = 0
        self.fuel = mod.needs_fuel[name]

    # ---- helpers ---------------------------------------------------------------
    def fail(self, node, why):
        src = ''
        try:
            src = ': ' + ast.unparse(node).splitlines()[0][:80]
        except Exception:  # noqa
            pass
        raise Untranslatable('%s:%s' % (self.mod.relpath, self.name), getattr(node, 'lineno', '?'), why + src)

    def cname(self, pyname):
        if pyname in RESERVED or re.match(r'^t\d+$', pyname) or pyname in self.mod.specs \
                or pyname.startswith('py_') or re.search(r'_loop\d+$', pyname):
            return pyname + '_'
        return pyname

    def temp(self):
        self.ntemp += 1
        return 't%d' % self.ntemp

    def emit(self, B, ind):
        """Text of the bindings [B] (each (kind, pattern, text))."""
        out = ''
        for kind, pat, txt in B:
            if kind == 'let*' and self.pure:
                raise _NeedMonad()
            out += '%s%s %s := %s in\n' % (ind, kind, pat.lstrip("'") if kind == 'let*' else pat, txt)
        return out

    def hoist(self, B, txt, node=None):
        t = self.temp()
        B.append(('let*', t, txt))
        return t

    # ---- expressions -------------------------------------------------------------
    def as_int(self, v):
        txt, t = v
        if t == INT:
            return txt
        if t == BOOL:
            return '(Z.b2z %s)' % txt
        return None

    def byte_safe(self, n):
        if isinstance(n, ast.Constant) and isinstance(n.value, int) and not isinstance(n.value, bool):
            return 0 <= n.value <= 255
        if isinstance(n, ast.BinOp) and isinstance(n.op, ast.BitAnd):
            for side in (n.left, n.right):
                if isinstance(side, ast.Constant) and isinstance(side.value, int) and not isinstance(side.value, bool) \
                        and 0 <= side.value <= 255:
                    return True
            return False
        if isinstance(n, ast.BinOp) and isinstance(n.op, ast.BitOr):
            return self.byte_safe(n.left) and self.byte_safe(n.right)
        return False

    def byte_of(self, n, env, B):
        """Coq text of the int expression [n] as an element stored into a bytearray."""
        v = self.ex(n, env, B)
        txt = self.as_int(v)
        if txt is None:
            self.fail(n, 'bytearray element is not an int')
        if self.byte_safe(n):
            return txt
        return self.hoist(B, 'py_byte %s' % txt)

    def const_int(self, n):
        if isinstance(n, ast.Constant) and isinstance(n.value, int) and not isinstance(n.value, bool):
            return n.value
        if isinstance(n, ast.UnaryOp) and isinstance(n.op, ast.USub):
            v = self.const_int(n.operand)
            return None if v is None else -v
        return None

    def truthy(self, n, env, B):
        txt, t = self.ex(n, env, B)
        if t == BOOL:
            return txt
        if t == INT:
            return '(negb (%s =? 0))' % txt
        if t in SEQ:
            return '(negb (py_len %s =? 0))' % txt
        self.fail(n, 'truth value of a %s is outside the subset' % (t,))

    def ex(self, n, env, B):
        """-> (coq text, type); bindings needed first are appended to B."""
        if isinstance(n, ast.Constant):
            v = n.value
            if isinstance(v, bool):
                return ('true' if v else 'false', BOOL)
            if isinstance(v, int):
                return (zlit(v), INT)
            if v is None:
                return ('None', NONE)
            if isinstance(v, bytes):
                return ('[%s]' % '; '.join(str(b) for b in v), BYTES)
            self.fail(n, 'constant of this type is outside the subset')
        if isinstance(n, ast.Name):
            if n.id in env:
                return (self.cname(n.id), env[n.id])
            if n.id in self.assigned_anywhere:
                self.fail(n, 'variable may be unbound here')
            c = self.mod.consts.get(n.id)
            if c is not None:
                return self.ex(ast.Constant(value=c, lineno=n.lineno), env, B)
            self.fail(n, 'unknown name')
        if isinstance(n, ast.Tuple):
            parts = [self.ex(e, env, B) for e in n.elts]
            return ('(%s)' % ', '.join(p[0] for p in parts), tup(*[p[1] for p in parts]))
        if isinstance(n, ast.List):
            parts = [self.as_int(self.ex(e, env, B)) for e in n.elts]
            if any(p is None for p in parts):
                self.fail(n, 'list element is not an int')
            return ('[%s]' % '; '.join(parts), LIST)
        if isinstance(n, ast.UnaryOp):
            if isinstance(n.op, ast.Not):
                return ('(negb %s)' % self.truthy(n.operand, env, B), BOOL)
            if isinstance(n.op, ast.USub):
                c = self.const_int(n)
                if c is not None:
                    return (zlit(c), INT)
                a = self.as_int(self.ex(n.operand, env, B))
                if a is None:
                    self.fail(n, 'operand is not an int')
                return ('(- %s)' % a, INT)
            self.fail(n, 'unary operator outside the subset')
        if isinstance(n, ast.BinOp):
            return self.binop(n, n.op, n.left, n.right, env, B)
        if isinstance(n, ast.BoolOp):
            return self.boolop(n, env, B)
        if isinstance(n, ast.Compare):
            return self.compare(n, env, B)
        if isinstance(n, ast.IfExp):
            c = self.truthy(n.test, env, B)
            B1, B2 = [], []
            a = self.ex(n.body, env, B1)
            b = self.ex(n.orelse, env, B2)
            if B1 or B2:
                self.fail(n, 'conditional expression with an operand that can raise')
            if a[1] != b[1]:
                self.fail(n, 'conditional expression with operands of different types')
            return ('(if %s then %s else %s)' % (c, a[0], b[0]), a[1])
        if isinstance(n, ast.Subscript):
            return self.subscript(n, env, B)
        if isinstance(n, ast.Call):
            return self.call(n, env, B)
        self.fail(n, 'expression outside the subset')

    def binop(self, n, op, left, right, env, B):
        lv = self.ex(left, env, B)
        rv = self.ex(right, env, B)
        if isinstance(op, ast.Add) and lv[1] in SEQ and rv[1] in SEQ:
            if (lv[1] == LIST) != (rv[1] == LIST):
                self.fail(n, 'concatenation of a list and a bytes object')
            return ('(%s ++ %s)' % (lv[0], rv[0]), lv[1])
        a, b = self.as_int(lv), self.as_int(rv)
        if a is None or b is None:
            self.fail(n, 'operands of this type are outside the subset')
        simple = {ast.Add: '+', ast.Sub: '-', ast.Mult: '*'}
        fun = {ast.BitAnd: 'Z.land', ast.BitOr: 'Z.lor', ast.BitXor: 'Z.lxor'}
        if type(op) in simple:
            return ('(%s %s %s)' % (a, simple[type(op)], b), INT)
        if type(op) in fun:
            return ('(%s %s %s)' % (fun[type(op)], a, b), INT)
        c = self.const_int(right)
        if isinstance(op, (ast.FloorDiv, ast.Mod)):
            if c is not None and c != 0:
                return ('(%s %s %s)' % (a, '/' if isinstance(op, ast.FloorDiv) else 'mod', b), INT)
            return (self.hoist(B, '%s %s %s' % ('py_floordiv' if isinstance(op, ast.FloorDiv) else 'py_mod', a, b)), INT)
        if isinstance(op, (ast.LShift, ast.RShift)):
            left_shift = isinstance(op, ast.LShift)
            if c is not None and c >= 0:
                return ('(%s %s %s)' % ('Z.shiftl' if left_shift else 'Z.shiftr', a, b), INT)
            return (self.hoist(B, '%s %s %s' % ('py_shiftl' if left_shift else 'py_shiftr', a, b)), INT)
        self.fail(n, 'binary operator outside the subset')

    def boolop(self, n, env, B):
        is_or = isinstance(n.op, ast.Or)
        parts = []
        for e in n.values:
            Bi = []
            txt, t = self.ex(e, env, Bi)
            if t != BOOL:
                self.fail(e, 'operand of and/or is not a bool (its value, not its truth, would be the result)')
            parts.append((Bi, txt))
        if not any(Bi for Bi, _ in parts[1:]):
            B.extend(parts[0][0])
            return ('(%s)' % (' || ' if is_or else ' && ').join(t for _, t in parts), BOOL)
        # an operand after the first can raise: it is evaluated only when the earlier ones do not decide
        B.extend(parts[0][0])
        txt = None
        for Bi, t in reversed(parts):
            if txt is None:
                txt = ''.join('%s %s := %s in ' % (b[0], b[1].lstrip("'") if b[0] == 'let*' else b[1], b[2]) for b in Bi) + 'Ok %s' % t
            else:
                inner = ('if %s then Ok true else %s' if is_or else 'if %s then %s else Ok false')
                inner = inner % ((t, txt) if is_or else (t, txt))
                txt = (''.join('%s %s := %s in ' % (b[0], b[1].lstrip("'") if b[0] == 'let*' else b[1], b[2]) for b in Bi) if Bi is not parts[0][0] else '') + inner
        return (self.hoist(B, '(%s)' % txt), BOOL)

    def compare(self, n, env, B):
        if len(n.ops) != 1:
            self.fail(n, 'chained comparison')
        op, l, r = n.ops[0], n.left, n.comparators[0]
        if isinstance(op, (ast.Is, ast.IsNot)):
            if not (isinstance(r, ast.Constant) and r.value is None):
                self.fail(n, '"is" with something else than None')
            txt, t = self.ex(l, env, B)
            if isinstance(t, tuple) and t[0] == 'opt':
                some, none = ('false', 'true') if isinstance(op, ast.Is) else ('true', 'false')
                return ('(match %s with Some _ => %s | None => %s end)' % (txt, some, none), BOOL)
            if t == NONE:
                return ('true' if isinstance(op, ast.Is) else 'false', BOOL)
            self.fail(n, '"is None" on a value whose type cannot be None')
        if isinstance(op, (ast.In, ast.NotIn)):
            txt, t = self.ex(l, env, B)
            if t != BOUND or not isinstance(r, ast.List):
                self.fail(n, '"in" outside the subset')
            items = []
            for e in r.elts:
                if isinstance(e, ast.Constant) and e.value is None:
                    items.append('BNone')
                elif isinstance(e, ast.Constant) and isinstance(e.value, str) and re.match(r'^[A-Za-z0-9_-]*$', e.value):
                    items.append('BStr "%s"' % e.value)
                elif self.const_int(e) is not None:
                    items.append('BInt %s' % zlit(self.const_int(e)))
                else:
                    self.fail(e, 'list item is not a constant')
            res = '(py_bound_in %s [%s])' % (txt, '; '.join(items))
            return (res if isinstance(op, ast.In) else '(negb %s)' % res, BOOL)
        lv = self.ex(l, env, B)
        rv = self.ex(r, env, B)
        if lv[1] in SEQ and rv[1] in SEQ and isinstance(op, (ast.Eq, ast.NotEq)):
            if (lv[1] == LIST) != (rv[1] == LIST):
                self.fail(n, 'comparison of a list with a bytes object')
            e = '(zlist_eqb %s %s)' % (lv[0], rv[0])
            return (e if isinstance(op, ast.Eq) else '(negb %s)' % e, BOOL)
        if lv[1] == BOUND and rv[1] == INT:
            a = self.hoist(B, 'py_bound_int %s' % lv[0])
            lv = (a, INT)
        a, b = self.as_int(lv), self.as_int(rv)
        if a is None or b is None:
            self.fail(n, 'comparison of these types is outside the subset')
        ops = {ast.Lt: '<?', ast.LtE: '<=?', ast.Gt: '>?', ast.GtE: '>=?', ast.Eq: '=?'}
        if type(op) in ops:
            return ('(%s %s %s)' % (a, ops[type(op)], b), BOOL)
        if isinstance(op, ast.NotEq):
            return ('(negb (%s =? %s))' % (a, b), BOOL)
        self.fail(n, 'comparison operator outside the subset')

    def subscript(self, n, env, B):
        v, t = self.ex(n.value, env, B)
        if t not in SEQ:
            self.fail(n, 'subscript of a non-sequence')
        s = n.slice
        if isinstance(s, ast.Slice):
            if s.step is not None:
                if s.lower is None and s.upper is None and self.const_int(s.step) == -1:
                    return ('(rev %s)' % v, t)
                self.fail(n, 'slice step')
            lo = self.as_int(self.ex(s.lower, env, B)) if s.lower is not None else None
            hi = self.as_int(self.ex(s.upper, env, B)) if s.upper is not None else None
            if (s.lower is not None and lo is None) or (s.upper is not None and hi is None):
                self.fail(n, 'slice bound is not an int')
            if lo is not None and hi is not None:
                return ('(py_slice %s %s %s)' % (v, lo, hi), t)
            if lo is not None:
                return ('(py_slice_from %s %s)' % (v, lo), t)
            if hi is not None:
                return ('(py_slice_to %s %s)' % (v, hi), t)
            return (v, t)
        i = self.as_int(self.ex(s, env, B))
        if i is None:
            self.fail(n, 'index is not an int')
        return (self.hoist(B, 'py_index %s %s' % (v, i)), INT)

    def coerce(self, node, v, want):
        txt, t = v
        if t == want or (t in SEQ and want in SEQ and (t == LIST) == (want == LIST)):
            return txt
        if isinstance(want, tuple) and want[0] == 'opt':
            if t == NONE:
                return 'None'
            inner = self.coerce(node, v, want[1])
            return '(Some %s)' % inner
        if t == INT and want == BOUND:
            return '(BInt %s)' % txt
        if t == INT and want == INTBYTES:
            return '(IBInt %s)' % txt
        if t in (BYTES, BARR) and want == INTBYTES:
            return '(IBBytes %s)' % txt
        if t == BOOL and want == INT:
            return '(Z.b2z %s)' % txt
        self.fail(node, 'value of type %s where %s is expected' % (t, want))

    def ex_as(self, n, env, B, want):
        if isinstance(n, ast.Tuple) and isinstance(want, tuple) and want[0] == 'tuple':
            if len(n.elts) != len(want[1]):
                self.fail(n, 'tuple of the wrong length')
            return '(%s)' % ', '.join(self.ex_as(e, env, B, w) for e, w in zip(n.elts, want[1]))
        return self.coerce(n, self.ex(n, env, B), want)

    def call(self, n, env, B):
        f = n.func
        if isinstance(f, ast.Name):
            if f.id in env or f.id in self.assigned_anywhere:
                self.fail(n, 'call of a local variable')
            if f.id in self.mod.specs:
                params, ret = self.mod.specs[f.id]
                fd = self.mod.defs[f.id]
                if n.keywords or any(isinstance(a, ast.Starred) for a in n.args):
                    self.fail(n, 'keyword or starred arguments in a call of a translated function')
                defaults = dict(zip([a.arg for a in fd.args.args][::-1], fd.args.defaults[::-1]))
                if len(n.args) > len(params):
                    self.fail(n, 'too many arguments')
                args = []
                for i, (pn, pt) in enumerate(params):
                    if i < len(n.args):
                        args.append(self.ex_as(n.args[i], env, B, pt))
                    elif pn in defaults and isinstance(defaults[pn], ast.Constant):
                        args.append(self.ex_as(defaults[pn], {}, B, pt))
                    else:
                        self.fail(n, 'missing argument %s' % pn)
                head = self.cname_fn(f.id) + (' fuel' if self.mod.needs_fuel[f.id] else '')
                return (self.hoist(B, '%s %s' % (head, ' '.join(args))), ret)
            if f.id in self.mod.defs or f.id in self.mod.classes or f.id in self.mod.imported or f.id in self.mod.consts:
                self.fail(n, 'call of a module-level name that is not translated')
            if n.keywords:
                self.fail(n, 'keyword arguments')
            if f.id == 'len' and len(n.args) == 1:
                v, t = self.ex(n.args[0], env, B)
                if t not in SEQ:
                    self.fail(n, 'len of a non-sequence')
                return ('(py_len %s)' % v, INT)
            if f.id == 'bytearray':
                if not n.args:
                    return ('[]', BARR)
                if len(n.args) == 1 and isinstance(n.args[0], ast.List):
                    return ('[%s]' % '; '.join(self.byte_of(e, env, B) for e in n.args[0].elts), BARR)
                if len(n.args) == 1:
                    v, t = self.ex(n.args[0], env, B)
                    if t in (BYTES, BARR):
                        return (v, BARR)
                self.fail(n, 'bytearray(...) of this argument')
            if f.id == 'bytes' and len(n.args) == 1:
                v, t = self.ex(n.args[0], env, B)
                if t in (BYTES, BARR):
                    return (v, BYTES)
                self.fail(n, 'bytes(...) of this argument')
            if f.id == 'int' and len(n.args) == 2 and self.const_int(n.args[1]) == 16:
                a = n.args[0]
                if isinstance(a, ast.Call) and isinstance(a.func, ast.Attribute) and a.func.attr == 'hexlify' \
                        and isinstance(a.func.value, ast.Name) and a.func.value.id == 'binascii' \
                        and 'binascii' not in env and len(a.args) == 1 and not a.keywords:
                    v, t = self.ex(a.args[0], env, B)
                    if t in (BYTES, BARR):
                        return (self.hoist(B, 'be_number %s' % v), INT)
                self.fail(n, 'int(..., 16) of something else than binascii.hexlify(<bytes>)')
            if f.id == 'sum' and len(n.args) == 1:
                v, t = self.ex(n.args[0], env, B)
                if isinstance(t, tuple) and t[0] == 'tuple':
                    names = [self.temp() for _ in t[1]]
                    B.append(('let', "'(%s)" % ', '.join(names), v))
                    terms = []
                    for nm, et in zip(names, t[1]):
                        if et == INT:
                            terms.append(nm)
                        elif et == opt(INT):
                            terms.append(self.hoist(B, 'py_int_of_opt %s' % nm))
                        else:
                            self.fail(n, 'sum of a tuple with a non-int component')
                    return ('(%s)' % ' + '.join(['0'] + terms), INT)
                self.fail(n, 'sum of a non-tuple')
            self.fail(n, 'call outside the subset')
        if isinstance(f, ast.Attribute):
            if f.attr == 'bit_length' and not n.args and not n.keywords:
                a = self.ex(f.value, env, B)
                if a[1] != INT and a[1] != BOOL:
                    self.fail(n, 'bit_length of a non-int')
                return ('(py_bit_length %s)' % self.as_int(a), INT)
            if f.attr == 'to_bytes':
                kw = {k.arg: k.value for k in n.keywords}
                if n.args or sorted(kw) != ['byteorder', 'length', 'signed']:
                    self.fail(n, 'to_bytes: only (length=..., byteorder=..., signed=...) is in the subset')
                bo, sg = kw['byteorder'], kw['signed']
                if not (isinstance(bo, ast.Constant) and bo.value == 'big' and isinstance(sg, ast.Constant)
                        and sg.value is True):
                    self.fail(n, "to_bytes: only byteorder='big', signed=True")
                a = self.ex(f.value, env, B)
                if a[1] != INT:
                    self.fail(n, 'to_bytes of a non-int')
                ln = self.as_int(self.ex(kw['length'], env, B))
                if ln is None:
                    self.fail(n, 'to_bytes: length is not an int')
                return (self.hoist(B, 'to_bytes_signed %s %s' % (a[0], ln)), BYTES)
        self.fail(n, 'call outside the subset')

    def cname_fn(self, name):
        return name

    # ---- statements ----------------------------------------------------------------
    def yield_text(self, W, env, node):
        for w in W:
            if w not in env:
                self.fail(node, 'variable %s may be unbound after this statement' % w)
        t = ', '.join(self.cname(w) for w in W) if W else 'tt'
        t = '(%s)' % t if len(W) != 1 else t
        return t if self.pure else 'Ok %s' % t

    def pattern(self, W):
        if not W:
            return '_'
        if len(W) == 1:
            return self.cname(W[0])
        return "'(%s)" % ', '.join(self.cname(w) for w in W)

    def block(self, stmts, env, k, ind):
        """Coq text (type [result R], or the plain tuple in pure mode) of the
        statements followed by the continuation [k env ind]."""
        if not stmts:
            return k(env, ind)
        s, rest = stmts[0], stmts[1:]
        if isinstance(s, ast.Pass) or (isinstance(s, ast.Expr) and isinstance(s.value, ast.Constant)
                                       and isinstance(s.value.value, str)):
            return self.block(rest, env, k, ind)
        if isinstance(s, ast.Return):
            if self.in_loop_or_try:
                self.fail(s, 'return inside a while or inside a try whose body can fall through')
            if self.pure:
                raise _NeedMonad()
            if rest:
                self.fail(rest[0], 'unreachable statement')
            B = []
            if s.value is None:
                txt = self.coerce(s, ('None', NONE), self.ret)
            else:
                txt = self.ex_as(s.value, env, B, self.ret)
            if B and B[-1][0] == 'let*' and B[-1][1] == txt:
                last = B.pop()
                return self.emit(B, ind) + ind + last[2] + '\n'
            return self.emit(B, ind) + '%sOk %s\n' % (ind, txt)
        if isinstance(s, ast.Raise):
            if self.pure:
                raise _NeedMonad()
            if rest:
                self.fail(rest[0], 'unreachable statement')
            return self.raise_stmt(s, env, ind)
        if isinstance(s, ast.Assign):
            return self.assign(s, rest, env, k, ind)
        if isinstance(s, ast.AugAssign):
            return self.augassign(s, rest, env, k, ind)
        if isinstance(s, ast.Expr):
            return self.method_stmt(s, rest, env, k, ind)
        if isinstance(s, ast.If):
            return self.if_stmt(s, rest, env, k, ind)
        if isinstance(s, ast.While):
            return self.while_stmt(s, rest, env, k, ind)
        if isinstance(s, ast.Try):
            return self.try_stmt(s, rest, env, k, ind)
        self.fail(s, 'statement outside the subset')

    def raise_stmt(self, s, env, ind):
        e = s.exc
        if s.cause is not None or e is None:
            self.fail(s, 'raise form outside the subset')
        if isinstance(e, ast.Name):
            cls, args, kws = e.id, [], {}
        elif isinstance(e, ast.Call) and isinstance(e.func, ast.Name):
            cls, args, kws = e.func.id, e.args, {k.arg: k.value for k in e.keywords}
        else:
            self.fail(s, 'raise form outside the subset')
        if cls in env or cls in self.assigned_anywhere:
            self.fail(s, 'exception class is a local variable')
        self.mod.check_exception(self.name, s, cls)
        B = []
        # the message and the other arguments are evaluated (they may not raise); only
        # MissingDataError's offset and expected_length are kept
        vals = [self.msg_arg(a, env, B) for a in args]
        kvals = {k: self.msg_arg(v, env, B) for k, v in kws.items()}
        if B:
            self.fail(s, 'argument of the exception can itself raise')
        build = EXCEPTIONS[cls][1]
        if build == 'EMissing':
            if len(vals) != 3 or kws or vals[1][1] != INT or vals[2][1] != INT:
                self.fail(s, 'MissingDataError(message, offset, expected_length) expected')
            build = 'EMissing %s %s' % (vals[1][0], vals[2][0])
        elif cls in ('DecodeError', 'OutOfByteDataError'):
            if len(vals) != 1 or any(k not in ('offset', 'location') for k in kvals):
                self.fail(s, '%s(message, offset=...) expected' % cls)
        return '%sErr (%s)\n' % (ind, build)

    def msg_arg(self, a, env, B):
        """An argument of an exception constructor: a string constant, '...'.format(pure args) or a value."""
        if isinstance(a, ast.Constant) and isinstance(a.value, str):
            return ('""', 'str')
        if isinstance(a, ast.Call) and isinstance(a.func, ast.Attribute) and a.func.attr == 'format' \
                and isinstance(a.func.value, ast.Constant) and isinstance(a.func.value.value, str) and not a.keywords:
            for x in a.args:
                self.ex(x, env, B)
            return ('""', 'str')
        return self.ex(a, env, B)

    def bind_var(self, env, name, t, node):
        if name in [p for p, _ in self.params] and t != env.get(name) and env.get(name) in (BARR, LIST):
            self.fail(node, 'mutable argument rebound')
        env = dict(env)
        env[name] = t
        return env

    def assign(self, s, rest, env, k, ind):
        if len(s.targets) != 1:
            self.fail(s, 'multiple assignment targets')
        tg = s.targets[0]
        B = []
        v = s.value
        # x = y.pop(0)
        if isinstance(v, ast.Call) and isinstance(v.func, ast.Attribute) and v.func.attr == 'pop':
            src = v.func.value
            if not (isinstance(tg, ast.Name) and isinstance(src, ast.Name) and src.id in env and env[src.id] in (BARR, LIST)
                    and len(v.args) == 1 and self.const_int(v.args[0]) == 0 and not v.keywords and tg.id != src.id):
                self.fail(s, 'only x = y.pop(0) on a local bytearray/list is in the subset')
            self.check_mutable(src, env)
            env2 = self.bind_var(env, tg.id, INT, s)
            B.append(('let*', "'(%s, %s)" % (self.cname(tg.id), self.cname(src.id)), 'py_pop0 %s' % self.cname(src.id)))
            return self.emit(B, ind) + self.block(rest, env2, k, ind)
        if isinstance(tg, ast.Name):
            if isinstance(v, ast.Name) and v.id in env and env[v.id] in (BARR, LIST):
                self.fail(s, 'aliasing of a mutable object')
            txt, t = self.ex(v, env, B)
            if t == NONE:
                self.fail(s, 'assignment of None to a variable')
            if tg.id in env and env[tg.id] != t and not (env[tg.id] in SEQ and t in SEQ):
                self.fail(s, 'variable changes its type from %s to %s' % (env[tg.id], t))
            env2 = self.bind_var(env, tg.id, t, s)
            if B and B[-1][0] == 'let*' and B[-1][1] == txt:
                B[-1] = ('let*', self.cname(tg.id), B[-1][2])
            else:
                B.append(('let', self.cname(tg.id), txt))
            return self.emit(B, ind) + self.block(rest, env2, k, ind)
        if isinstance(tg, ast.Tuple) and all(isinstance(e, ast.Name) for e in tg.elts):
            txt, t = self.ex(v, env, B)
            if not (isinstance(t, tuple) and t[0] == 'tuple' and len(t[1]) == len(tg.elts)):
                self.fail(s, 'unpacking of a non-tuple or of the wrong length')
            env2 = env
            for e, et in zip(tg.elts, t[1]):
                if et == NONE:
                    self.fail(s, 'assignment of None to a variable')
                env2 = self.bind_var(env2, e.id, et, s)
            B.append(('let', "'(%s)" % ', '.join(self.cname(e.id) for e in tg.elts), txt))
            return self.emit(B, ind) + self.block(rest, env2, k, ind)
        self.fail(s, 'assignment target outside the subset')

    def check_mutable(self, name_node, env):
        nm = name_node.id
        if nm in [p for p, _ in self.params] and nm not in self.rebound:
            self.fail(name_node, 'mutation of an argument')
        if env.get(nm) not in (BARR, LIST):
            self.fail(name_node, 'mutation of something that is not a local bytearray/list')

    def augassign(self, s, rest, env, k, ind):
        tg = s.target
        B = []
        if isinstance(tg, ast.Name):
            if tg.id not in env:
                self.fail(s, 'augmented assignment to an unbound variable')
            if env[tg.id] in (BARR, LIST):
                self.fail(s, 'augmented assignment to a mutable sequence (in-place semantics)')
            load = ast.copy_location(ast.Name(id=tg.id, ctx=ast.Load()), tg)
            txt, t = self.binop(s, s.op, load, s.value, env, B)
            if t != env[tg.id]:
                self.fail(s, 'variable changes its type')
            B.append(('let', self.cname(tg.id), txt))
            return self.emit(B, ind) + self.block(rest, env, k, ind)
        if isinstance(tg, ast.Subscript) and isinstance(tg.value, ast.Name) and not isinstance(tg.slice, ast.Slice):
            self.check_mutable(tg.value, env)
            seq = self.cname(tg.value.id)
            i = self.as_int(self.ex(tg.slice, env, B))
            if i is None:
                self.fail(s, 'index is not an int')
            old = self.hoist(B, 'py_index %s %s' % (seq, i))
            # the new value: <old> op <e>; byte-safety is judged on the Python expression
            holder = ast.copy_location(ast.Name(id='__old__', ctx=ast.Load()), tg)
            env_h = dict(env)
            env_h['__old__'] = INT
            saved = self.cname
            self.cname = lambda nm: old if nm == '__old__' else saved(nm)
            try:
                txt, t = self.binop(s, s.op, holder, s.value, env_h, B)
            finally:
                self.cname = saved
            new = ast.BinOp(left=holder, op=s.op, right=s.value)
            if env[tg.value.id] == BARR and not self.byte_safe(new):
                txt = self.hoist(B, 'py_byte %s' % txt)
            B.append(('let*', seq, 'py_setitem %s %s %s' % (seq, i, txt)))
            return self.emit(B, ind) + self.block(rest, env, k, ind)
        self.fail(s, 'augmented assignment target outside the subset')

    def method_stmt(self, s, rest, env, k, ind):
        v = s.value
        if not (isinstance(v, ast.Call) and isinstance(v.func, ast.Attribute) and isinstance(v.func.value, ast.Name)
                and not v.keywords):
            self.fail(s, 'expression statement outside the subset')
        obj, m = v.func.value, v.func.attr
        if obj.id not in env:
            self.fail(s, 'unknown object')
        self.check_mutable(obj, env)
        seq, t = self.cname(obj.id), env[obj.id]
        B = []
        if m == 'append' and len(v.args) == 1:
            x = self.byte_of(v.args[0], env, B) if t == BARR else self.as_int(self.ex(v.args[0], env, B))
            if x is None:
                self.fail(s, 'appended value is not an int')
            B.append(('let', seq, '%s ++ [%s]' % (seq, x)))
        elif m == 'insert' and len(v.args) == 2 and self.const_int(v.args[0]) == 0:
            x = self.byte_of(v.args[1], env, B) if t == BARR else self.as_int(self.ex(v.args[1], env, B))
            if x is None:
                self.fail(s, 'inserted value is not an int')
            B.append(('let', seq, '%s :: %s' % (x, seq)))
        elif m == 'extend' and len(v.args) == 1:
            if isinstance(v.args[0], ast.Name) and v.args[0].id == obj.id:
                self.fail(s, 'extend with itself')
            x, xt = self.ex(v.args[0], env, B)
            if xt not in SEQ or (t == BARR and xt == LIST):
                self.fail(s, 'extend with this argument is outside the subset')
            B.append(('let', seq, '%s ++ %s' % (seq, x)))
        elif m == 'reverse' and not v.args:
            B.append(('let', seq, 'rev %s' % seq))
        else:
            self.fail(s, 'method outside the subset')
        return self.emit(B, ind) + self.block(rest, env, k, ind)

    def narrowing(self, test, env):
        """(coq head, coq middle, coq tail, env_then, env_else) for the special tests, else None."""
        if isinstance(test, ast.Compare) and len(test.ops) == 1 and isinstance(test.ops[0], (ast.Is, ast.IsNot)) \
                and isinstance(test.left, ast.Name) and isinstance(test.comparators[0], ast.Constant) \
                and test.comparators[0].value is None and test.left.id in env:
            x, t = test.left.id, env[test.left.id]
            if isinstance(t, tuple) and t[0] == 'opt':
                cx = self.cname(x)
                e_some, e_none = dict(env), dict(env)
                e_some[x] = t[1]
                e_none[x] = NONE
                if isinstance(test.ops[0], ast.IsNot):
                    return ('match %s with\n' % cx, '| Some %s =>\n' % cx, '| None =>\n', 'end\n', e_some, e_none, x)
                return ('match %s with\n' % cx, '| None =>\n', '| Some %s =>\n' % cx, 'end\n', e_none, e_some, x)
        if isinstance(test, ast.Call) and isinstance(test.func, ast.Name) and test.func.id == 'isinstance' \
                and len(test.args) == 2 and isinstance(test.args[0], ast.Name) and test.args[0].id in env \
                and env[test.args[0].id] == INTBYTES and isinstance(test.args[1], ast.Name) and test.args[1].id == 'int' \
                and 'isinstance' not in env and 'int' not in env:
            x = test.args[0].id
            cx = self.cname(x)
            e_int, e_bytes = dict(env), dict(env)
            e_int[x] = INT
            e_bytes[x] = BYTES
            return ('match %s with\n' % cx, '| IBInt %s =>\n' % cx, '| IBBytes %s =>\n' % cx, 'end\n', e_int, e_bytes, x)
        return None

    def if_stmt(self, s, rest, env, k, ind):
        B = []
        nar = self.narrowing(s.test, env)
        if nar:
            head, c1, c2, tail, env_t, env_e, narrowed = nar
            if narrowed in assigned_names(s.body + s.orelse):
                self.fail(s, 'narrowed variable is assigned in the branch')
            head, c1, c2, tail = ind + head, ind + c1, ind + c2, ind + tail
        else:
            c = self.truthy(s.test, env, B)
            head, c1, c2, tail = '', '%sif %s then\n' % (ind, c), '%selse\n' % ind, ''
            env_t = env_e = env
            narrowed = None
        pre = self.emit(B, ind)
        ind2 = ind + '  '
        body_ft, else_ft = falls_through(s.body), falls_through(s.orelse)
        merge = body_ft and else_ft and not has_return(s.body + s.orelse) and (rest or self.in_loop_or_try)
        if not merge:
            # no merge point is needed (or a branch returns): the rest is continued in each branch that falls through
            def cont(env2, i2):
                # (inside a narrowing branch the Coq variable is the narrowed one: the narrowed type stays)
                return self.block(rest, env2, k, i2)
            t1 = self.block(s.body, env_t, cont if body_ft else self.dead, ind2)
            t2 = self.block(s.orelse, env_e, cont if else_ft else self.dead, ind2)
            return pre + head + c1 + t1 + c2 + t2 + tail
        both = [x for x in assigned_names(s.body) if x in assigned_names(s.orelse)]
        W = [x for x in assigned_names(s.body + s.orelse) if x in env or x in both]

        def branches():
            y = lambda env2, i2: '%s%s\n' % (i2, self.yield_text(W, env2, s))   # noqa
            return (self.block(s.body, env_t, y, ind2), self.block(s.orelse, env_e, y, ind2))
        saved = (self.ntemp, self.nloop, list(self.loops))
        self.pure += 1
        try:
            t1, t2 = branches()
            kind = 'let'
        except _NeedMonad:
            self.pure -= 1
            self.ntemp, self.nloop, self.loops = saved[0], saved[1], saved[2]
            if self.pure:
                raise
            t1, t2 = branches()
            kind = 'let*'
            self.pure += 1
        finally:
            self.pure -= 1
        env2 = dict(env)
        for w in W:
            if w not in env:
                # bound in both branches: the types must agree
                ta = self.type_after(s.body, env_t, w)
                tb = self.type_after(s.orelse, env_e, w)
                if ta != tb and not (ta in SEQ and tb in SEQ):
                    self.fail(s, 'variable %s gets different types in the two branches' % w)
                env2[w] = ta
        pat = self.pattern(W)
        txt = '%s%s %s :=\n%s%s%s%s%s%s%sin\n' % (ind, kind, pat.lstrip("'") if kind == 'let*' else pat, head, c1, t1,
                                                 c2, t2, tail, ind)
        return pre + txt + self.block(rest, env2, k, ind)

    def type_after(self, stmts, env, w):
        """Type of [w] at the end of [stmts] (re-translates the block, discarding the text)."""
        box = {}

        def y(env2, i2):
            box['t'] = env2.get(w)
            return ''
        saved = (self.ntemp, self.nloop, list(self.loops), self.pure)
        self.pure = 0
        try:
            self.block(stmts, env, y, '')
        finally:
            self.ntemp, self.nloop, self.loops, self.pure = saved
        return box.get('t')

    def dead(self, env, ind):
        raise AssertionError('continuation of a block that cannot fall through')

    def while_stmt(self, s, rest, env, k, ind):
        if self.pure:
            raise _NeedMonad()
        if s.orelse:
            self.fail(s, 'while ... else')
        for n in ast.walk(s):
            if isinstance(n, (ast.Break, ast.Continue, ast.Return)):
                self.fail(n, 'break/continue/return inside a while')
        assigned = assigned_names(s.body)
        carried = [x for x in assigned if x in env]
        local = [x for x in assigned if x not in env]
        used = names_used([s.test] + s.body)
        free = [x for x in used if x in env and x not in carried]
        self.nloop += 1
        lname = '%s_loop%d' % (self.name, self.nloop)
        slot = len(self.loops)
        self.loops.append(None)
        saved_flag = self.in_loop_or_try
        self.in_loop_or_try = True
        i1, i2 = '    ', '      '
        B = []
        c = self.truthy(s.test, env, B)

        def again(env2, i3):
            for x in carried:
                if env2.get(x) != env[x] and not (env2.get(x) in SEQ and env[x] in SEQ):
                    self.fail(s, 'loop variable %s changes its type' % x)
            return '%s%s fuel\' %s\n' % (i3, lname, ' '.join(self.cname(x) for x in free + carried))
        body = self.block(s.body, env, again, i2)
        self.in_loop_or_try = saved_flag
        tuple_t = ' * '.join(coq_atom_type(env[x]) for x in carried) if carried else 'unit'
        params = ''.join(' (%s : %s)' % (self.cname(x), coq_type(env[x])) for x in free + carried)
        saved_pure, self.pure = self.pure, 0
        done = self.yield_text(carried, env, s)
        self.pure = saved_pure
        text = ('Fixpoint %s (fuel : nat)%s {struct fuel} : result %s :=\n'
                '  match fuel with\n'
                '  | O => Err EFuel\n'
                '  | S fuel\' =>\n'
                '%s'
                '    if %s then\n'
                '%s'
                '    else %s\n'
                '  end.\n' % (lname, params, coq_atom_type_text(tuple_t), self.emit(B, i1), c, body, done))
        self.loops[slot] = text
        for x in local:
            if x in names_used(rest):
                # may be unbound after zero iterations
                pass
        call = '%s fuel %s' % (lname, ' '.join(self.cname(x) for x in free + carried))
        out = '%slet* %s := %s in\n' % (ind, self.pattern(carried).lstrip("'"), call)
        return out + self.block(rest, env, k, ind)

    def try_stmt(self, s, rest, env, k, ind):
        if self.pure:
            raise _NeedMonad()
        if s.orelse or s.finalbody or not s.handlers:
            self.fail(s, 'try form outside the subset')
        ind2 = ind + '    '
        # handlers: fun exc => first matching clause
        clauses = []
        for h in s.handlers:
            if h.type is None or not isinstance(h.type, ast.Name):
                self.fail(h, 'except clause without a single named class')
            cls = h.type.id
            if cls in env or cls in self.assigned_anywhere:
                self.fail(h, 'exception class is a local variable')
            self.mod.check_exception(self.name, h, cls)
            clauses.append((h, cls))
        body_ft = falls_through(s.body)
        if not body_ft:
            if rest and all(not falls_through(h.body) for h, _ in clauses):
                self.fail(rest[0], 'unreachable statement')
            if any(falls_through(h.body) for h, _ in clauses):
                self.fail(s, 'handler that falls through')
            body = self.block(s.body, env, self.dead, ind2)
            handler = self.handlers(clauses, env, None, ind2)
            return '%spy_try (\n%s%s  ) (fun exc =>\n%s%s  )\n' % (ind, body, ind, handler, ind)
        if has_return(s.body):
            self.fail(s, 'try body that both returns and falls through')
        if any(falls_through(h.body) or has_return(h.body) for h, _ in clauses):
            self.fail(s, 'handler of a fall-through try must raise')
        W = assigned_names(s.body)
        saved_flag = self.in_loop_or_try
        self.in_loop_or_try = True
        box = {}

        def y(env2, i2):
            box['env'] = env2
            return '%s%s\n' % (i2, self.yield_text(W, env2, s))
        body = self.block(s.body, env, y, ind2)
        self.in_loop_or_try = saved_flag
        handler = self.handlers(clauses, env, None, ind2)
        env2 = dict(env)
        for w in W:
            env2[w] = box['env'][w]
        out = '%slet* %s := py_try (\n%s%s  ) (fun exc =>\n%s%s  ) in\n' % (ind, self.pattern(W).lstrip("'"), body, ind,
                                                                            handler, ind)
        return out + self.block(rest, env2, k, ind)

    def handlers(self, clauses, env, _unused, ind):
        if not clauses:
            return '%sNone\n' % ind
        (h, cls), more = clauses[0], clauses[1:]
        nxt = self.handlers(more, env, None, ind + '  ')
        attrs = {}
        if h.name is not None:
            if h.name in env or h.name in self.assigned_anywhere:
                self.fail(h, 'exception variable shadows a local')
            if cls != 'MissingDataError':
                self.fail(h, '"as" is only in the subset for MissingDataError')
            attrs = {'offset': 'exc_offset', 'expected_length': 'exc_expected_length'}
        saved_ex = self.ex
        if attrs:
            def ex2(n, env_, B_):
                if isinstance(n, ast.Attribute) and isinstance(n.value, ast.Name) and n.value.id == h.name:
                    if n.attr not in attrs:
                        self.fail(n, 'attribute of the exception outside the subset')
                    return (attrs[n.attr], INT)
                if isinstance(n, ast.Name) and n.id == h.name:
                    self.fail(n, 'the exception object itself is used')
                return saved_ex(n, env_, B_)
            self.ex = ex2
        saved_flag = self.in_loop_or_try
        self.in_loop_or_try = False
        try:
            body = self.block(h.body, env, self.dead, ind + '    ')
        finally:
            self.ex = saved_ex
            self.in_loop_or_try = saved_flag
        if attrs:
            return ('%smatch exc with\n%s| EMissing exc_offset exc_expected_length => Some (\n%s%s  )\n%s| _ =>\n%s%send\n'
                    % (ind, ind, body, ind, ind, nxt, ind))
        return ('%sif exc_matches %s exc then Some (\n%s%s  ) else\n%s'
                % (ind, EXCEPTIONS[cls][0], body, ind, nxt))

    # ---- the function -----------------------------------------------------------------
    def translate(self):
        fd = self.fd
        a = fd.args
        if a.vararg or a.kwarg or a.kwonlyargs or a.posonlyargs or fd.decorator_list or fd.returns is not None:
            self.fail(fd, 'signature outside the subset')
        if [x.arg for x in a.args] != [p for p, _ in self.params]:
            self.fail(fd, 'parameters are not %s' % [p for p, _ in self.params])
        for d in a.defaults:
            if not isinstance(d, ast.Constant):
                self.fail(fd, 'non-constant default')
        for n in ast.walk(fd):
            if isinstance(n, (ast.FunctionDef, ast.Lambda, ast.Global, ast.Nonlocal, ast.ClassDef, ast.Yield,
                              ast.YieldFrom, ast.Await, ast.With, ast.For, ast.ListComp, ast.GeneratorExp,
                              ast.NamedExpr, ast.Delete, ast.Import, ast.ImportFrom)) and n is not fd:
                self.fail(n, 'construct outside the subset')
        body = _strip_doc(fd.body)
        self.assigned_anywhere = set(assigned_names(body))
        self.rebound = set()
        for n in ast.walk(fd):
            if isinstance(n, ast.Assign):
                for t in n.targets:
                    for m in ast.walk(t):
                        if isinstance(m, ast.Name):
                            self.rebound.add(m.id)
        self.in_loop_or_try = False
        env = dict(self.params)

        def end(env2, ind):
            # falling off the end returns None
            return '%sOk %s\n' % (ind, self.coerce(fd, ('None', NONE), self.ret))
        text = self.block(body, env, end, '  ')
        params = ''.join(' (%s : %s)' % (self.cname(p), coq_type(t)) for p, t in self.params)
        head = 'Definition %s%s%s : result %s :=\n' % (self.name, ' (fuel : nat)' if self.fuel else '', params,
                                                      coq_atom_type(self.ret))
        return ''.join(l + '\n' for l in self.loops) + head + text.rstrip('\n') + '.\n'


def coq_atom_type_text(s):
    return s if re.match(r'^\w+$', s) else '(%s)' % s


def translate_module(repo, relpath, modname, specs):
    path = os.path.join(repo, relpath)
    try:
        with open(path) as f:
            src = f.read()
    except OSError as e:
        raise Untranslatable(relpath, '?', 'cannot read the source: %s' % e)
    try:
        mod = Module(relpath, src, specs)
    except SyntaxError as e:
        raise Untranslatable(relpath, e.lineno, 'syntax error: %s' % e.msg)
    order = mod.compute_fuel()
    parts = []
    table = []
    for name in order:
        fn = Fn(mod, name)
        parts.append(fn.translate())
        fd = mod.defs[name]
        table.append(dict(module=modname, function=name, source=relpath, first_line=fd.lineno, last_line=fd.end_lineno,
                          fuel=mod.needs_fuel[name], loops=fn.nloop,
                          params=[(p, coq_type(t)) for p, t in mod.specs[name][0]], ret=coq_type(mod.specs[name][1])))
    header = ('(* GENERATED by translator/pyfun.py from %s on every run -- do not edit.\n'
              '   Shallow Gallina translation of these functions (Python subset and its meaning: see\n'
              '   translator/pyfun.py and coq/theories/Py/PyRuntime.v); source line ranges:\n%s*)\n'
              'From Asn1V Require Import Base.Prelude Base.Corr Py.PyRuntime.\n\n'
              % (relpath, ''.join('     %-45s lines %d-%d%s\n' % (t['function'], t['first_line'], t['last_line'],
                                                                  '  (fuel)' if t['fuel'] else '') for t in table)))
    return header + '\n'.join(parts), table


def translate(repo):
    """-> [(module name, coq text, table)] for every module of SPECS."""
    return [(modname,) + translate_module(repo, relpath, modname, specs) for relpath, modname, specs in SPECS]


def regenerate(repo, gen_dir):
    """Write gen_dir/Py*.v (only files whose text changed).  Returns the list
    of translated functions (dicts); raises Untranslatable."""
    out = translate(repo)
    table = []
    for modname, text, tbl in out:
        path = os.path.join(gen_dir, modname + '.v')
        old = None
        if os.path.exists(path):
            with open(path) as f:
                old = f.read()
        if old != text:
            os.makedirs(gen_dir, exist_ok=True)
            tmp = path + '.tmp%d' % os.getpid()
            with open(tmp, 'w') as f:
                f.write(text)
            os.replace(tmp, path)
        table += tbl
    return table


if __name__ == '__main__':
    import sys
    repo = sys.argv[1] if len(sys.argv) > 1 else os.environ.get('VERIF_REPO', '/repo')
    gen = os.path.join(os.path.dirname(os.path.dirname(os.path.abspath(__file__))), 'coq', 'gen')
    for row in regenerate(repo, gen):
        print('%-8s %-45s %s:%d-%d%s' % (row['module'], row['function'], row['source'], row['first_line'],
                                         row['last_line'], '  fuel' if row['fuel'] else ''))
