"""C17 — regenerate coq/gen/CacheKey.v from <repo>/asn1tools/compiler.py.

Reads the Python `ast` of `_compile_files_cache` and `compile_files` and emits
the description of the cache key that Cache/Key.v gives a meaning to:

    components : list comp      which values enter the key, in source order
    frame      : framing        how the parts are joined into one byte string

Fail-closed: every statement of `_compile_files_cache` must be one of the
shapes listed below, every key part must be one of the known component
expressions, the miss path must evaluate exactly the expression of the
uncached branch of `compile_files`, and the only handled exception must be
KeyError.  Anything else raises Untranslatable (the check then reports the
obligation "translator" as failed; it never guesses).  Names of local
variables are irrelevant; names of the parameters are not.
"""
import ast
import os

PARAMS = ['filenames', 'codec', 'any_defined_by_choices', 'encoding', 'cache_dir', 'numeric_enums']

# key part expression (source text, normalised through ast) -> component
COMPONENT_SOURCES = {
    "codec.encode('ascii')": 'KCodec',
    "repr(bool(numeric_enums)).encode('ascii')": 'KNumericEnums',
    "repr(encoding).encode('utf-8')": 'KEncoding',
    "repr(any_defined_by_choices).encode('utf-8')": 'KAdbc',
}
UNCACHED = 'compile_dict(parse_files(filenames, encoding), codec, any_defined_by_choices, numeric_enums)'


class Untranslatable(Exception):
    pass


def _dump(node):
    return ast.dump(node, annotate_fields=True, include_attributes=False)


def _expr(src):
    return _dump(ast.parse(src, mode='eval').body)


COMPONENTS = {_expr(src): comp for src, comp in COMPONENT_SOURCES.items()}


def _fail(node, why):
    raise Untranslatable('compiler.py:%s: %s: %s' % (getattr(node, 'lineno', '?'), why,
                                                    ast.unparse(node).splitlines()[0][:100]))


def _is_name(node, name=None):
    return isinstance(node, ast.Name) and (name is None or node.id == name)


def _match(node, template, holes):
    """Structural match of [node] against the expression/statement source
    [template]; identifiers of the template that start with '_' are holes bound
    consistently to local variable names (dict [holes])."""
    t = ast.parse(template).body[0]
    if isinstance(t, ast.Expr) and not isinstance(node, ast.Expr):
        t = t.value
    return _match_nodes(node, t, holes)


def _match_nodes(a, b, holes):
    if isinstance(b, ast.Name) and b.id.startswith('_'):
        if not isinstance(a, ast.Name):
            return False
        if a.id in PARAMS:
            return False
        if b.id in holes:
            return holes[b.id] == a.id
        if a.id in holes.values():
            return False
        holes[b.id] = a.id
        return True
    if type(a) is not type(b):
        return False
    if isinstance(a, ast.AST):
        for f in a._fields:
            if f in ('ctx', 'type_comment'):
                continue
            if not _match_nodes(getattr(a, f, None), getattr(b, f, None), holes):
                return False
        return True
    if isinstance(a, list):
        return len(a) == len(b) and all(_match_nodes(x, y, holes) for x, y in zip(a, b))
    return a == b


def _function(tree, name):
    found = [n for n in tree.body if isinstance(n, ast.FunctionDef) and n.name == name]
    if len(found) != 1:
        raise Untranslatable('compiler.py: expected exactly one top-level def %s, found %d' % (name, len(found)))
    return found[0]


def _strip_doc(body):
    if body and isinstance(body[0], ast.Expr) and isinstance(body[0].value, ast.Constant) \
            and isinstance(body[0].value.value, str):
        return body[1:]
    return body


def _component(node):
    c = COMPONENTS.get(_dump(node))
    if c is None:
        _fail(node, 'key part is not a known component expression')
    return c


def translate_source(src):
    tree = ast.parse(src)
    fn = _function(tree, '_compile_files_cache')
    a = fn.args
    if a.vararg or a.kwarg or a.kwonlyargs or a.posonlyargs or a.defaults or fn.decorator_list:
        _fail(fn, 'unexpected signature')
    if [x.arg for x in a.args] != PARAMS:
        _fail(fn, 'parameters are not %s' % PARAMS)

    holes = {}
    comps = []
    frame = None
    normalised = False
    have_list = False
    have_cache = False
    have_lookup = False
    for st in _strip_doc(fn.body):
        if have_lookup:
            _fail(st, 'statement after the lookup')
        # K = [part, ...]
        if (frame is None and not have_list and isinstance(st, ast.Assign) and len(st.targets) == 1
                and _is_name(st.targets[0]) and isinstance(st.value, ast.List)
                and _match_nodes(st.targets[0], ast.Name(id='_K'), holes)):
            comps += [_component(e) for e in st.value.elts]
            have_list = True
            continue
        # if isinstance(filenames, str): filenames = [filenames]
        if _match(st, 'if isinstance(filenames, str):\n    filenames = [filenames]', holes):
            if 'KFiles' in comps:
                _fail(st, 'file name normalisation after the files were read')
            normalised = True
            continue
        # for X in filenames: with open(X, 'rb') as F: K.append(F.read())
        if have_list and frame is None and isinstance(st, ast.For):
            h = dict(holes)
            if _match(st, "for _X in filenames:\n    with open(_X, 'rb') as _F:\n        _K.append(_F.read())", h):
                if not normalised:
                    _fail(st, 'files are read before a single file name is wrapped in a list')
                comps.append('KFiles')
                continue
            _fail(st, 'loop is not the read-every-file loop')
        # K.append(part)
        if (have_list and frame is None and isinstance(st, ast.Expr) and isinstance(st.value, ast.Call)
                and _match_nodes(st.value.func, ast.parse('_K.append').body[0].value, dict(holes))
                and len(st.value.args) == 1 and not st.value.keywords):
            comps.append(_component(st.value.args[0]))
            continue
        # K = b''.join(K)   |   K = b''.join([struct.pack('>Q', len(P)) + P for P in K])
        if have_list and frame is None and isinstance(st, ast.Assign):
            if _match(st, "_K = b''.join(_K)", dict(holes)):
                frame = 'FrameNone'
                continue
            if _match(st, "_K = b''.join([struct.pack('>Q', len(_P)) + _P for _P in _K])", dict(holes)) or \
               _match(st, "_K = b''.join(struct.pack('>Q', len(_P)) + _P for _P in _K)", dict(holes)):
                frame = 'FrameLen8'
                continue
            _fail(st, 'unknown way of joining the key parts')
        # C = diskcache.Cache(cache_dir)
        if frame is not None and not have_cache and _match(st, '_C = diskcache.Cache(cache_dir)', holes):
            have_cache = True
            continue
        # the lookup
        if have_cache and isinstance(st, ast.Try):
            tmpl = ('try:\n    return _C[_K]\nexcept KeyError:\n    _V = %s\n    _C[_K] = _V\n    return _V' % UNCACHED)
            if not _match(st, tmpl, holes):
                _fail(st, 'lookup is not "try: return cache[key] / except KeyError: compile, store, return"')
            have_lookup = True
            continue
        _fail(st, 'statement of _compile_files_cache not understood')
    if not (have_list and frame and have_cache and have_lookup):
        _fail(fn, 'key construction, cache open or lookup missing')

    # compile_files: uncached branch and the call of _compile_files_cache
    cf = _function(tree, 'compile_files')
    body = _strip_doc(cf.body)
    names = [x.arg for x in cf.args.args]
    if sorted(names) != sorted(PARAMS) or cf.args.vararg or cf.args.kwarg or cf.args.kwonlyargs:
        _fail(cf, 'compile_files parameters changed')
    if len(body) != 1 or not isinstance(body[0], ast.If):
        _fail(cf, 'compile_files body is not a single if/else on cache_dir')
    top = body[0]
    if not _match(top.test, 'cache_dir is None', {}):
        _fail(top, 'condition is not "cache_dir is None"')
    if len(top.body) != 1 or not _match(top.body[0], 'return ' + UNCACHED, {}):
        _fail(top, 'uncached branch is not "return %s"' % UNCACHED)
    rest = list(top.orelse)
    if (rest and isinstance(rest[0], ast.If) and _match(rest[0].test, 'not has_diskcache', {})
            and len(rest[0].body) == 1 and isinstance(rest[0].body[0], ast.Raise) and not rest[0].orelse):
        rest = rest[1:]          # the "diskcache module is missing" guard, any message
    call = 'return _compile_files_cache(%s)' % ', '.join(PARAMS)
    if len(rest) != 1 or not _match(rest[0], call, {}):
        _fail(top, 'cached branch is not "%s"' % call)
    return comps, frame


def coq_text(comps, frame, origin):
    return ('(* GENERATED by translator/cachekey.py from %s on every run of ./check C17 -- do not edit.\n'
            '   The parts of the cache key of _compile_files_cache in source order, and how they are joined. *)\n'
            'From Asn1V Require Import Base.Prelude Cache.Key.\n'
            'Definition components : list comp := [%s].\n'
            'Definition frame : framing := %s.\n' % (origin, '; '.join(comps), frame))


def translate(repo):
    path = os.path.join(repo, 'asn1tools', 'compiler.py')
    with open(path) as f:
        src = f.read()
    comps, frame = translate_source(src)
    return comps, frame, coq_text(comps, frame, 'asn1tools/compiler.py')


def regenerate(repo, out_path):
    """Write the generated file (only when its text changed, so that an
    unchanged source does not trigger a rebuild).  Returns (comps, frame)."""
    comps, frame, text = translate(repo)
    old = None
    if os.path.exists(out_path):
        with open(out_path) as f:
            old = f.read()
    if old != text:
        os.makedirs(os.path.dirname(out_path), exist_ok=True)
        tmp = out_path + '.tmp%d' % os.getpid()
        with open(tmp, 'w') as f:
            f.write(text)
        os.replace(tmp, out_path)
    return comps, frame


if __name__ == '__main__':
    import sys
    print(translate(sys.argv[1] if len(sys.argv) > 1 else '/repo')[2])
