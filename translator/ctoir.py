"""Translation of the parsed C dialect (translator/cparse.py) into terms of the
Coq IR of coq/theories/CGen/Ir.v, fail-closed.

All of C's implicit typing is made explicit here, for the LP64 targets the
check compiles for (int = 32 bit, long = long long = size_t = ssize_t = 64 bit):
integer promotions, usual arithmetic conversions, the type of integer
constants, conversion on assignment, argument passing and return.  Every
arithmetic node of the IR carries the type it is computed in and operands are
wrapped in ECast where the C abstract machine converts them.

Anything not understood raises cparse.CParseError (the check reports it).
"""
import cparse
from cparse import CParseError, INT_TYPES

ITY = {'uint8_t': 'U8', 'uint16_t': 'U16', 'uint32_t': 'U32', 'uint64_t': 'U64',
       'int8_t': 'I8', 'int16_t': 'I16', 'int32_t': 'I32', 'int64_t': 'I64',
       'size_t': 'U64', 'ssize_t': 'I64', 'int': 'I32', 'bool': 'IBool'}
BITS = {'I8': 8, 'U8': 8, 'I16': 16, 'U16': 16, 'I32': 32, 'U32': 32, 'I64': 64, 'U64': 64, 'IBool': 1}
SIGNED = {'I8', 'I16', 'I32', 'I64'}


def rng_of(t):
    b = BITS[t]
    if t in SIGNED:
        return -2 ** (b - 1), 2 ** (b - 1) - 1
    return 0, 2 ** b - 1


def promote(t):
    return 'I32' if BITS[t] < 32 else t


def uac(a, b):
    """usual arithmetic conversions on promoted types"""
    a, b = promote(a), promote(b)
    if a == b:
        return a
    if (a in SIGNED) == (b in SIGNED):
        return a if BITS[a] >= BITS[b] else b
    s, u = (a, b) if a in SIGNED else (b, a)
    if BITS[u] >= BITS[s]:
        return u
    return s            # the signed type can represent all values of the unsigned one


def zlit(v):
    return '(%d)' % v


def q(s):
    return '"%s"' % s


# Functions that move object representations (type punning through memcpy or a byte pointer): the IR has no
# notion of it, so they are replaced by a hand-written IR equivalent (REAL = IEEE bit pattern; little-endian
# target for encoder_append_long_uint) - only while their C text is exactly the one the equivalent was written for.
OVERRIDES = {
    'encoder_append_long_uint': (
        'static void encoder_append_long_uint(struct encoder_t* p0, uint64_t p1, uint8_t p2) { const uint8_t* l0 = '
        '((const uint8_t*)(&p1)); uint8_t l1[8]; for (uint32_t l2 = 0; (l2 < p2); l2++) { l1[((p2 - l2) - 1)] = (*l0++); } '
        'encoder_append_bytes(p0, l1, p2); }',
        'mkFunc [("self_p", PByRef); ("value", PByVal U64); ("number_of_bytes", PByVal U8)] '
        '[("buf", (VArr (repeat (VInt 0) 8))); ("byte", VUndef)] '
        '[(SFor [SAssign (PVar "byte") U32 (EConst (0))] (EBin OLt U32 (ERead (PVar "byte")) (ERead (PVar "number_of_bytes"))) '
        '[SAssign (PVar "byte") U32 (EBin OAdd U32 (ERead (PVar "byte")) (EConst (1)))] '
        '[SAssign (PIndex (PVar "buf") (EBin OSub U32 (EBin OSub U32 (ERead (PVar "number_of_bytes")) (ERead (PVar "byte"))) (EConst (1)))) U8 '
        '(ECast U8 (EBin OShr U64 (ERead (PVar "value")) (EBin OMul U32 (EConst (8)) (ERead (PVar "byte")))))]); '
        '(SExpr (ECall "encoder_append_bytes" [(ARef (PVar "self_p")); (ARef (PVar "buf")); (AVal U64 (ERead (PVar "number_of_bytes")))]))] None'),
    'encoder_append_float': (
        'static void encoder_append_float(struct encoder_t* p0, float p1) { uint32_t l0; ((void)memcpy((&l0), (&p1), sizeof(l0))); '
        'encoder_append_uint32(p0, l0); }',
        'mkFunc [("self_p", PByRef); ("value", PByVal U32)] [] '
        '[(SExpr (ECall "encoder_append_uint32" [(ARef (PVar "self_p")); (AVal U32 (ERead (PVar "value")))]))] None'),
    'encoder_append_double': (
        'static void encoder_append_double(struct encoder_t* p0, double p1) { uint64_t l0; ((void)memcpy((&l0), (&p1), sizeof(l0))); '
        'encoder_append_uint64(p0, l0); }',
        'mkFunc [("self_p", PByRef); ("value", PByVal U64)] [] '
        '[(SExpr (ECall "encoder_append_uint64" [(ARef (PVar "self_p")); (AVal U64 (ERead (PVar "value")))]))] None'),
    'decoder_read_float': (
        'static float decoder_read_float(struct decoder_t* p0) { float l0; uint32_t l1; l1 = decoder_read_uint32(p0); '
        '((void)memcpy((&l0), (&l1), sizeof(l0))); return l0; }',
        'mkFunc [("self_p", PByRef)] [] [(SReturn (Some (ECall "decoder_read_uint32" [(ARef (PVar "self_p"))])))] (Some U32)'),
    'decoder_read_double': (
        'static double decoder_read_double(struct decoder_t* p0) { double l0; uint64_t l1; l1 = decoder_read_uint64(p0); '
        '((void)memcpy((&l0), (&l1), sizeof(l0))); return l0; }',
        'mkFunc [("self_p", PByRef)] [] [(SReturn (Some (ECall "decoder_read_uint64" [(ARef (PVar "self_p"))])))] (Some U64)'),
}


class T(object):
    """Types: ('int', ity) | ('ptr', T) | ('arr', T, n) | ('struct', members-dict-ordered) | ('void',)"""


class Translator(object):
    def __init__(self, units):
        """units: parsed cparse.Units that make up the program (header + source,
        or the helper block)."""
        self.structs = {}
        self.enum_consts = {}
        self.defines = {}
        self.functions = {}
        self.order = []
        for u in units:
            self.structs.update(u.structs)
            for name, items in u.enums.items():
                for c, v in items:
                    self.enum_consts[c] = v
            self.defines.update(getattr(u, 'defines', {}))
            for name in u.function_order:
                self.functions[name] = u.functions[name]
                self.order.append(name)
            for name, (ct, v) in u.consts.items():
                self.defines[name] = v

    # ---- types
    def ty(self, ct, array=None):
        base = ct.base
        if isinstance(base, tuple):
            t = ('struct', [(m.name, self.ty(m.ctype, m.array)) for m in base[2]])
        elif base in ITY:
            t = ('int', ITY[base])
        elif base.startswith('enum '):
            t = ('int', 'U32')
        elif base.startswith('struct '):
            if base[7:] not in self.structs:
                raise CParseError('unknown struct %s' % base)
            t = ('struct', [(m.name, self.ty(m.ctype, m.array)) for m in self.structs[base[7:]]])
        elif base == 'float':
            t = ('int', 'U32')          # REAL binary32 travels as its bit pattern (see OVERRIDES)
        elif base == 'double':
            t = ('int', 'U64')
        elif base == 'void':
            t = ('void',)
        else:
            raise CParseError('type %s not in the IR' % base)
        for _ in range(ct.ptr):
            t = ('ptr', t)
        if array is not None:
            t = ('arr', t, array)
        return t

    def init_val(self, t, zero_arrays):
        """Coq text of the initial value of a declared object."""
        k = t[0]
        if k == 'int' or k == 'ptr':
            return 'VUndef'
        if k == 'arr':
            inner = 'VInt 0' if (zero_arrays and t[1][0] == 'int') else self.init_val(t[1], zero_arrays)
            return '(VArr (repeat (%s) %d))' % (inner, t[2])
        if k == 'struct':
            return '(VRec [%s])' % '; '.join('(%s, %s)' % (q(n), self.init_val(ft, zero_arrays)) for n, ft in t[1])
        raise CParseError('no value of type %r' % (t,))

    # ---- expressions
    def const_type(self, v, suf):
        if suf == '':
            for t in ('I32', 'I64', 'U64'):
                if v <= rng_of(t)[1]:
                    return t
        elif suf == 'u':
            for t in ('U32', 'U64'):
                if v <= rng_of(t)[1]:
                    return t
        elif suf in ('ul', 'ull', 'lu', 'llu'):
            if v <= rng_of('U64')[1]:
                return 'U64'
        elif suf in ('l', 'll'):
            if v <= rng_of('I64')[1]:
                return 'I64'
        raise CParseError('integer constant %d%s' % (v, suf))

    def cast(self, text, frm, to):
        if frm == to:
            return text
        lo, hi = rng_of(frm)
        lo2, hi2 = rng_of(to)
        if to != 'IBool' and lo2 <= lo and hi <= hi2:
            return text              # value preserving
        return '(ECast %s %s)' % (to, text)

    def lvalue(self, e, env):
        """(path text, type)"""
        k = e[0]
        if k == 'id':
            if e[1] not in env:
                raise CParseError('%s is not an object' % e[1])
            return '(PVar %s)' % q(e[1]), env[e[1]]
        if k in ('member', 'arrow'):
            p, t = self.lvalue(e[1], env)
            if k == 'arrow':
                if t[0] != 'ptr':
                    raise CParseError('-> on a non-pointer: %s' % cparse.show(e))
                t = t[1]
            if t[0] != 'struct':
                raise CParseError('member of a non-struct: %s' % cparse.show(e))
            for n, ft in t[1]:
                if n == e[2]:
                    return '(PField %s %s)' % (p, q(e[2])), ft
            raise CParseError('no member %s: %s' % (e[2], cparse.show(e)))
        if k == 'index':
            p, t = self.lvalue(e[1], env)
            if t[0] == 'arr':
                et = t[1]
            elif t[0] == 'ptr':
                et = t[1]
            else:
                raise CParseError('index of a non-array: %s' % cparse.show(e))
            it, ity = self.rvalue(e[2], env)
            return '(PIndex %s %s)' % (p, it), et
        raise CParseError('not an lvalue: %s' % cparse.show(e))

    BINOPS = {'+': 'OAdd', '-': 'OSub', '*': 'OMul', '/': 'ODiv', '%': 'ORem', '&': 'OAnd', '|': 'OOr', '^': 'OXor'}
    CMPOPS = {'<': 'OLt', '<=': 'OLe', '>': 'OGt', '>=': 'OGe', '==': 'OEq', '!=': 'ONe'}

    def rvalue(self, e, env):
        """(expr text, ity)"""
        k = e[0]
        if k == 'num':
            return '(EConst %s)' % zlit(e[1]), self.const_type(e[1], e[2])
        if k == 'bool':
            return '(EConst %s)' % zlit(1 if e[1] else 0), 'I32'
        if k == 'id' and e[1] not in env:
            if e[1] in self.enum_consts:
                return '(EConst %s)' % zlit(self.enum_consts[e[1]]), 'I32'
            if e[1] in self.defines:
                return '(EConst %s)' % zlit(self.defines[e[1]]), 'I32'
            raise CParseError('unknown identifier %s' % e[1])
        if k in ('id', 'member', 'arrow', 'index'):
            p, t = self.lvalue(e, env)
            if t[0] != 'int':
                raise CParseError('aggregate or pointer used as a value: %s' % cparse.show(e))
            return '(ERead %s)' % p, t[1]
        if k == 'cast':
            ct = e[1]
            if ct.base == 'void' and not ct.ptr:
                raise CParseError('(void) cast inside an expression')
            t = self.ty(ct)
            if t[0] != 'int':
                raise CParseError('cast to %r' % (t,))
            a, ta = self.rvalue(e[2], env)
            if t[1] == ta:
                return a, ta
            return '(ECast %s %s)' % (t[1], a), t[1]
        if k == 'un':
            op = e[1]
            if op == '-':
                a, ta = self.rvalue(e[2], env)
                if e[2][0] == 'num':
                    # a negative constant: fold (the type is that of the positive constant;
                    # negation of an unsigned constant wraps)
                    v = -e[2][1]
                    if v < rng_of(ta)[0]:
                        v %= 2 ** BITS[ta]
                    return '(EConst %s)' % zlit(v), ta
                pt = promote(ta)
                return '(ENeg %s %s)' % (pt, self.cast(a, ta, pt)), pt
            if op == '!':
                a, ta = self.rvalue(e[2], env)
                return '(ELNot %s)' % a, 'I32'
            raise CParseError('unary %s in an expression: %s' % (op, cparse.show(e)))
        if k == 'bin':
            op = e[1]
            if op in ('&&', '||'):
                a, _ = self.rvalue(e[2], env)
                b, _ = self.rvalue(e[3], env)
                return '(%s %s %s)' % ('ELAnd' if op == '&&' else 'ELOr', a, b), 'I32'
            if op in ('==', '!=') and e[2][0] == 'call' and e[2][1] == 'memcmp':
                if op != '!=' or e[3] != ('num', 0, ''):
                    raise CParseError('memcmp only as "memcmp(...) != 0"')
                return self.memcmp(e[2], env), 'I32'
            a, ta = self.rvalue(e[2], env)
            b, tb = self.rvalue(e[3], env)
            if op in ('<<', '>>'):
                pt = promote(ta)
                return '(EBin %s %s %s %s)' % ('OShl' if op == '<<' else 'OShr', pt, self.cast(a, ta, pt),
                                              self.cast(b, tb, promote(tb))), pt
            ct = uac(ta, tb)
            a, b = self.cast(a, ta, ct), self.cast(b, tb, ct)
            if op in self.CMPOPS:
                return '(EBin %s %s %s %s)' % (self.CMPOPS[op], ct, a, b), 'I32'
            if op in self.BINOPS:
                return '(EBin %s %s %s %s)' % (self.BINOPS[op], ct, a, b), ct
            raise CParseError('operator %s' % op)
        if k == 'cond':
            c, _ = self.rvalue(e[1], env)
            a, ta = self.rvalue(e[2], env)
            b, tb = self.rvalue(e[3], env)
            ct = uac(ta, tb)
            return '(ECond %s %s %s)' % (c, self.cast(a, ta, ct), self.cast(b, tb, ct)), ct
        if k == 'sizeof':
            return '(EConst %s)' % zlit(self.sizeof(e[1], env)), 'U64'
        if k == 'call':
            text, rt = self.call(e, env)
            if rt is None:
                raise CParseError('void call used as a value: %s' % cparse.show(e))
            return text, rt
        raise CParseError('expression %s' % cparse.show(e))

    def sizeof(self, e, env):
        _, t = self.lvalue(e, env)
        return self.size_of_type(t)

    def size_of_type(self, t):
        if t[0] == 'int':
            return max(1, BITS[t[1]] // 8)
        if t[0] == 'arr':
            return t[2] * self.size_of_type(t[1])
        raise CParseError('sizeof of %r' % (t[0],))

    def pointer(self, e, env):
        """A pointer-valued argument: (path, offset expr text, element/object type, is_scalar_object)"""
        if e[0] == 'un' and e[1] == '&':
            inner = e[2]
            if inner[0] == 'index':
                p, t = self.lvalue(inner[1], env)
                if t[0] not in ('arr', 'ptr'):
                    raise CParseError('& of an element of a non-array: %s' % cparse.show(e))
                off, _ = self.rvalue(inner[2], env)
                return p, off, t, False, inner[2]
            p, t = self.lvalue(inner, env)
            return p, '(EConst (0))', t, t[0] == 'int', ('num', 0, '')
        p, t = self.lvalue(e, env)
        if t[0] not in ('arr', 'ptr'):
            raise CParseError('not a pointer: %s' % cparse.show(e))
        return p, '(EConst (0))', t, False, ('num', 0, '')

    def memcmp(self, e, env):
        if len(e[2]) != 3:
            raise CParseError('memcmp arity')
        pa, oa, _, _, ia = self.pointer(e[2][0], env)
        pb, ob, _, _, ib = self.pointer(e[2][1], env)
        if ia != ('num', 0, '') or ib != ('num', 0, ''):
            raise CParseError('memcmp with an offset')
        n, _ = self.rvalue(e[2][2], env)
        return '(EMemcmpNe %s %s %s)' % (pa, pb, n)

    def call(self, e, env):
        name, args = e[1], e[2]
        if name not in self.functions:
            raise CParseError('call of unknown function %s' % name)
        f = self.functions[name]
        if len(args) != len(f.params):
            raise CParseError('arity of %s' % name)
        out = []
        for (pct, pname), a in zip(f.params, args):
            pt = self.ty(pct)
            if pt[0] == 'ptr':
                if a[0] == 'un' and a[1] == '&':
                    lp, lt = self.lvalue(a[2], env)
                    if lt[0] == 'struct':
                        if pt[1][0] != 'struct':
                            raise CParseError('struct passed for %r: %s' % (pt[1][0], cparse.show(a)))
                        out.append('(ARef %s)' % lp)        # pointer to one object (possibly an array element)
                        continue
                p, off, t, scalar, idx = self.pointer(a, env)
                if idx != ('num', 0, ''):
                    raise CParseError('pointer argument with an offset: %s' % cparse.show(a))
                out.append('(ARefScalar %s)' % p if scalar else '(ARef %s)' % p)
            elif pt[0] == 'int':
                text, ta = self.rvalue(a, env)
                out.append('(AVal %s %s)' % (pt[1], text))
            else:
                raise CParseError('parameter type of %s' % name)
        rt = self.ty(f.ret)
        return '(ECall %s [%s])' % (q(name), '; '.join(out)), (rt[1] if rt[0] == 'int' else None)

    # ---- statements
    def stmts(self, items, env):
        out = []
        for s in items:
            out += self.stmt(s, env)
        return out

    def block(self, items, env):
        return '[%s]' % '; '.join(self.stmts(items, env))

    def assign(self, lhs, op, rhs, env):
        p, t = self.lvalue(lhs, env)
        if t[0] == 'ptr':
            if op != '=':
                raise CParseError('pointer arithmetic')
            q_, tq = self.lvalue(rhs, env)
            if tq[0] not in ('ptr', 'arr'):
                raise CParseError('pointer assigned from a non-pointer')
            return '(SCopy %s %s)' % (p, q_)
        if t[0] != 'int':
            raise CParseError('assignment to an aggregate: %s' % cparse.show(lhs))
        if op == '=':
            text, tr = self.rvalue(rhs, env)
            return '(SAssign %s %s %s)' % (p, t[1], text)
        binop = op[:-1]
        text, tr = self.rvalue(('bin', binop, lhs, rhs), env)
        return '(SAssign %s %s %s)' % (p, t[1], text)

    def stmt(self, s, env):
        k = s[0]
        if k == 'decl':
            raise CParseError('declaration after the first statement')
        if k == 'expr':
            e = s[1]
            if e[0] == 'cast' and e[1].base == 'void' and not e[1].ptr:
                e = e[2]
                if e[0] == 'id':
                    return []                       # (void)param;
                if e[0] != 'call':
                    raise CParseError('(void) of %s' % cparse.show(e))
            if e[0] == 'assign':
                return [self.assign(e[2], e[1], e[3], env)]
            if e[0] == 'postinc':
                return [self.assign(e[1], '+=', ('num', 1, ''), env)]
            if e[0] == 'call' and e[1] == 'memcpy':
                if len(e[2]) != 3:
                    raise CParseError('memcpy arity')
                pd, od, _, sd, _ = self.pointer(e[2][0], env)
                ps, os_, _, ss, _ = self.pointer(e[2][1], env)
                if sd or ss:
                    raise CParseError('memcpy of a scalar')
                n, _ = self.rvalue(e[2][2], env)
                return ['(SMemcpy %s %s %s %s %s)' % (pd, od, ps, os_, n)]
            if e[0] == 'call' and e[1] == 'memset':
                if len(e[2]) != 3 or e[2][1] != ('num', 0, ''):
                    raise CParseError('memset other than memset(p, 0, n)')
                pd, od, _, sd, idx = self.pointer(e[2][0], env)
                if sd or idx != ('num', 0, ''):
                    raise CParseError('memset of a scalar / with an offset')
                n, tn = self.rvalue(e[2][2], env)
                iv = self.fresh_local(env, 'memset_i', ('int', 'U64'))
                return ['(SFor [SAssign (PVar %s) U64 (EConst (0))] (EBin OLt U64 (ERead (PVar %s)) %s) '
                        '[SAssign (PVar %s) U64 (EBin OAdd U64 (ERead (PVar %s)) (EConst (1)))] '
                        '[SAssign (PIndex %s (ERead (PVar %s))) U8 (EConst (0))])' % (
                            q(iv), q(iv), self.cast(n, tn, 'U64'), q(iv), q(iv), pd, q(iv))]
            if e[0] == 'call':
                text, _ = self.call(e, env)
                return ['(SExpr %s)' % text]
            raise CParseError('expression statement %s' % cparse.show(e))
        if k == 'if':
            c, _ = self.rvalue(s[1], env)
            return ['(SIf %s %s %s)' % (c, self.block(s[2], env), self.block(s[3] or [], env))]
        if k == 'for':
            init = self.stmt(('expr', s[1]), env)
            c, _ = self.rvalue(s[2], env)
            step = self.stmt(('expr', s[3]), env)
            return ['(SFor [%s] %s [%s] %s)' % ('; '.join(init), c, '; '.join(step), self.block(s[4], env))]
        if k == 'empty':
            return []
        if k == 'dowhile':
            # do body while (c)  ==  body; while (c) body
            c, _ = self.rvalue(s[2], env)
            body = self.block(s[1], env)
            return ['(SFor %s %s [] %s)' % (body, c, body)]
        if k == 'fordecl':
            _, ct, lname, arr, init, static_const = s[1]
            if arr is not None or init is None:
                raise CParseError('for-declaration of %s' % lname)
            t = self.ty(ct)
            if lname in env:
                raise CParseError('%s declared twice' % lname)
            env[lname] = t
            self.extra_locals.append('(%s, VUndef)' % q(lname))
            initst = self.assign(('id', lname), '=', init, env)
            c, _ = self.rvalue(s[2], env)
            step = self.stmt(('expr', s[3]), env)
            return ['(SFor [%s] %s [%s] %s)' % (initst, c, '; '.join(step), self.block(s[4], env))]
        if k == 'switch':
            e, _ = self.rvalue(s[1], env)
            arms = []
            dflt = None
            pending = []
            for lab, body in s[2]:
                if lab is None:
                    if pending:
                        raise CParseError('case label falling into default')
                    if not body or body[-1][0] not in ('break', 'return'):
                        raise CParseError('default arm without break/return')
                    dflt = self.block(body, env)
                    continue
                lt, _ = self.rvalue(lab, env)
                if not lt.startswith('(EConst '):
                    raise CParseError('case label is not a constant')
                pending.append(lt[len('(EConst '):-1])
                if not body:
                    continue
                if body[-1][0] not in ('break', 'return'):
                    raise CParseError('switch arm falls through')
                arms.append('([%s], %s)' % ('; '.join(pending), self.block(body, env)))
                pending = []
            if pending:
                raise CParseError('trailing case labels')
            if dflt is None:
                dflt = '[SBreak]'
            return ['(SSwitch %s [%s] %s)' % (e, '; '.join(arms), dflt)]
        if k == 'return':
            if s[1] is None:
                return ['(SReturn None)']
            text, _ = self.rvalue(s[1], env)
            return ['(SReturn (Some %s))' % text]
        if k == 'break':
            return ['SBreak']
        if k == 'block':
            return self.stmts(s[1], env)
        raise CParseError('statement %r' % (k,))

    def fresh_local(self, env, base, t):
        name = '$' + base
        if name not in env:
            env[name] = t
            self.extra_locals.append('(%s, VUndef)' % q(name))
        return name

    def function(self, name):
        f = self.functions[name]
        if name in OVERRIDES:
            want, ir = OVERRIDES[name]
            got = ' '.join(cparse.show_function(cparse.alpha_function(f)).split())
            if got != want:
                raise CParseError('%s (type punning, translated by a hand-written IR equivalent) no longer has the '
                                  'text that equivalent was written for: %s' % (name, got))
            return '(%s, %s)' % (q(name), ir)
        self.extra_locals = []
        env = {}
        params = []
        for pct, pname in f.params:
            pt = self.ty(pct)
            env[pname] = pt
            if pt[0] == 'int':
                params.append('(%s, PByVal %s)' % (q(pname), pt[1]))
            elif pt[0] == 'ptr':
                params.append('(%s, PByRef)' % q(pname))
            else:
                raise CParseError('parameter %s of %s' % (pname, name))
        locals_ = []
        body = list(f.body)
        while body and body[0][0] == 'decl':
            _, ct, lname, arr, init, static_const = body.pop(0)
            t = self.ty(ct, arr)
            if lname in env:
                raise CParseError('%s declared twice in %s' % (lname, name))
            env[lname] = t
            if init is None:
                v = self.init_val(t, zero_arrays=True)
            elif init[0] == 'list':
                vals = []
                for x in init[1]:
                    if x[0] != 'num':
                        raise CParseError('initialiser of %s' % lname)
                    vals.append('VInt %s' % zlit(x[1]))
                v = '(VArr [%s])' % '; '.join(vals)
            elif init[0] == 'num' and t[0] == 'int':
                v = '(VInt %s)' % zlit(init[1])
            else:
                raise CParseError('initialiser of %s' % lname)
            locals_.append('(%s, %s)' % (q(lname), v))
        rt = self.ty(f.ret)
        ret = 'None' if rt[0] == 'void' else '(Some %s)' % rt[1]
        btext = self.block(body, env)
        return '(%s, mkFunc [%s] [%s] %s %s)' % (q(name), '; '.join(params), '; '.join(locals_ + self.extra_locals),
                                                btext, ret)

    def program(self, names=None):
        names = names or self.order
        return '[\n  ' + ';\n  '.join(self.function(n) for n in names) + '\n]'
