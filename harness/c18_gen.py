"""C18 generator: random ASN.1 modules (text), values and operations.

Kept to constructs every codec supports: BOOLEAN, INTEGER with / without range, ENUMERATED,
OCTET STRING, IA5String / UTF8String, BIT STRING, SEQUENCE with OPTIONAL / DEFAULT, SEQUENCE OF / SET OF,
CHOICE, extension markers, references (one sub-type shared by several types) and direct
recursion (through an OPTIONAL member, a SEQUENCE OF and a CHOICE).

Documented exclusions (predicates of this generator):
 * no DEFAULT on a structured member in the *text*: the parser turns `DEFAULT {1, 2}` into the
   string '{' (a defect that belongs to C19/C01); structured defaults are exercised through
   compile_dict by harness/c18.py (aliasing test);
 * no REAL, no SET, no time types, no OBJECT IDENTIFIER, no ANY / open types;
 * IA5String / UTF8String values avoid XML-special characters and surrounding blanks.
"""
LEAVES = ['BOOLEAN', 'INTEGER', 'RANGE', 'ENUMERATED', 'OCTET STRING', 'IA5String', 'UTF8String', 'BIT STRING']
ENUM_NAMES = ['red', 'green', 'blue', 'cyan']


class T(object):
    """abstract type: kind + parameters"""

    def __init__(self, kind, **kw):
        self.kind = kind
        self.__dict__.update(kw)


def gen_leaf(rng):
    k = rng.choice(LEAVES)
    if k == 'RANGE':
        lo = rng.choice([0, 0, -5, 1, -200, 0])
        hi = lo + rng.choice([1, 7, 10, 255, 256, 70000])
        return T('RANGE', lo=lo, hi=hi, ext=rng.random() < .2)
    if k == 'ENUMERATED':
        n = rng.randrange(2, 5)
        return T('ENUMERATED', names=ENUM_NAMES[:n], ext=rng.random() < .2)
    if k == 'OCTET STRING':
        return T(k, size=rng.choice([None, None, (0, 4), (2, 2)]))
    return T(k)


def gen_type(rng, depth, names, allow_ref=True):
    r = rng.random()
    if depth <= 0 or r < .45:
        if allow_ref and names and rng.random() < .3:
            return T('REF', name=rng.choice(names))
        return gen_leaf(rng)
    if r < .7:
        return gen_sequence(rng, depth, names)
    if r < .85:
        return T('SEQUENCE OF', elem=gen_type(rng, depth - 1, names), set_of=rng.random() < .3)
    return gen_choice(rng, depth, names)


def gen_members(rng, depth, names, n, prefix, in_choice=False):
    ms = []
    for i in range(n):
        t = gen_type(rng, depth - 1, names)
        m = dict(name='%s%d' % (prefix, i), type=t, optional=False, default=None)
        if not in_choice:
            r = rng.random()
            if r < .3:
                m['optional'] = True
            elif r < .55 and t.kind in ('BOOLEAN', 'INTEGER', 'RANGE', 'ENUMERATED', 'OCTET STRING', 'IA5String',
                                        'BIT STRING'):
                m['default'] = default_for(rng, t)
        ms.append(m)
    return ms


def default_for(rng, t):
    """(text, python value)"""
    if t.kind == 'BOOLEAN':
        b = rng.random() < .5
        return ('TRUE' if b else 'FALSE', b)
    if t.kind == 'INTEGER':
        v = rng.choice([0, 1, -3, 1000])
        return (str(v), v)
    if t.kind == 'RANGE':
        v = rng.randrange(t.lo, t.hi + 1)
        return (str(v), v)
    if t.kind == 'ENUMERATED':
        v = rng.choice(t.names)
        return (v, v)
    if t.kind == 'OCTET STRING':
        n = 2 if t.size == (2, 2) else rng.randrange(0, 4)
        b = bytes(rng.randrange(256) for _ in range(n))
        return ("'%s'H" % b.hex().upper(), b)
    if t.kind == 'IA5String':
        return ('"dflt"', 'dflt')
    if t.kind == 'BIT STRING':
        return ("'101'B", (b'\xa0', 3))
    raise ValueError(t.kind)


def gen_sequence(rng, depth, names):
    n = rng.randrange(1, 5)
    root = gen_members(rng, depth, names, n, 'm')
    adds = None
    if rng.random() < .35:
        adds = gen_members(rng, depth, names, rng.randrange(0, 3), 'x')
        for a in adds:            # extension additions: always OPTIONAL, no defaults (keeps codecs comparable)
            a['default'] = None
            a['optional'] = True
    return T('SEQUENCE', root=root, adds=adds)


def gen_choice(rng, depth, names):
    n = rng.randrange(1, 4)
    root = gen_members(rng, depth, names, n, 'c', in_choice=True)
    adds = None
    if rng.random() < .3:
        adds = gen_members(rng, depth, names, rng.randrange(0, 2), 'y', in_choice=True)
    return T('CHOICE', root=root, adds=adds)


def render(t, ind=''):
    k = t.kind
    if k == 'REF':
        return t.name
    if k == 'RANGE':
        return 'INTEGER (%d..%d%s)' % (t.lo, t.hi, ', ...' if t.ext else '')
    if k == 'ENUMERATED':
        return 'ENUMERATED { %s%s }' % (', '.join(t.names), ', ...' if t.ext else '')
    if k == 'OCTET STRING':
        if t.size is None:
            return k
        return 'OCTET STRING (SIZE(%s))' % (str(t.size[0]) if t.size[0] == t.size[1] else '%d..%d' % t.size)
    if k == 'SEQUENCE OF':
        return ('SET OF ' if getattr(t, 'set_of', False) else 'SEQUENCE OF ') + render(t.elem, ind)
    if k in ('SEQUENCE', 'CHOICE'):
        parts = []
        for m in t.root:
            parts.append(render_member(m, ind + '  '))
        if t.adds is not None:
            parts.append('...')
            for m in t.adds:
                parts.append(render_member(m, ind + '  '))
        return '%s {\n%s%s\n%s}' % (k, ind + '  ', (',\n' + ind + '  ').join(parts), ind)
    return k


def render_member(m, ind):
    s = '%s %s' % (m['name'], render(m['type'], ind))
    if m.get('optional'):
        s += ' OPTIONAL'
    elif m.get('default') is not None:
        s += ' DEFAULT ' + m['default'][0]
    return s


class Module(object):
    def __init__(self, types, order):
        self.types = types            # name -> T
        self.order = order
        self.text = 'M DEFINITIONS AUTOMATIC TAGS ::= BEGIN\n' + \
            '\n'.join('%s ::= %s' % (n, render(types[n])) for n in order) + '\nEND\n'

    def resolve(self, t):
        seen = 0
        while t.kind == 'REF':
            t = self.types[t.name]
            seen += 1
            assert seen < 50
        return t


def gen_module(rng):
    """A module with a shared sub-type referenced by several types, recursive types and a few random
    types."""
    types, order = {}, []

    def add(n, t):
        types[n] = t
        order.append(n)

    shared = gen_sequence(rng, 1, [])       # depth 1: leaf members only
    add('Shared', shared)
    add('Leaf', gen_leaf(rng))
    # direct recursion, three shapes
    add('Rec', T('SEQUENCE', root=[dict(name='v', type=T('INTEGER'), optional=False, default=None),
                                   dict(name='s', type=T('REF', name='Shared'), optional=True, default=None),
                                   dict(name='next', type=T('REF', name='Rec'), optional=True, default=None)], adds=None))
    add('Tree', T('SEQUENCE', root=[dict(name='v', type=gen_leaf(rng), optional=False, default=None),
                                    dict(name='kids', type=T('SEQUENCE OF', elem=T('REF', name='Tree')), optional=False,
                                         default=None)], adds=None))
    add('Expr', T('CHOICE', root=[dict(name='num', type=T('INTEGER')),
                                  dict(name='sh', type=T('REF', name='Shared')),
                                  dict(name='neg', type=T('REF', name='Expr')),
                                  dict(name='sum', type=T('SEQUENCE OF', elem=T('REF', name='Expr')))], adds=None))
    names = ['Shared', 'Leaf']
    for i in range(rng.randrange(2, 5)):
        n = 'T%d' % i
        t = gen_type(rng, 3, names + ['Rec', 'Tree', 'Expr'])
        if t.kind == 'REF' or (t.kind not in ('SEQUENCE', 'CHOICE', 'SEQUENCE OF') and rng.random() < .6):
            t = gen_sequence(rng, 2, names + ['Rec', 'Expr'])
        add(n, t)
        names.append(n)
    # two more users of the shared sub-type, one of them adding a member attribute (shallow copy)
    add('UserA', T('SEQUENCE', root=[dict(name='a', type=T('REF', name='Shared'), optional=False, default=None),
                                     dict(name='b', type=T('REF', name='Shared'), optional=True, default=None),
                                     dict(name='l', type=T('REF', name='Leaf'), optional=True, default=None)], adds=None))
    add('UserB', T('SEQUENCE OF', elem=T('REF', name='Shared')))
    add('Bag', T('SEQUENCE OF', elem=gen_leaf(rng), set_of=True))
    return Module(types, order)


# ---- values -------------------------------------------------------------------------
def gen_text(rng, n, alphabet='abcXYZ019 -'):
    s = ''.join(rng.choice(alphabet) for _ in range(n))
    return s.strip() or ('a' if n else '')


def gen_value(rng, mod, t, depth=4):
    t = mod.resolve(t)
    k = t.kind
    if k == 'BOOLEAN':
        return rng.random() < .5
    if k == 'INTEGER':
        return rng.choice([0, 1, -1, 127, 128, -129, 65535, 2 ** 31, -2 ** 40, rng.randrange(-1000, 1000)])
    if k == 'RANGE':
        return rng.choice([t.lo, t.hi, rng.randrange(t.lo, t.hi + 1)])
    if k == 'ENUMERATED':
        return rng.choice(t.names)
    if k == 'OCTET STRING':
        n = rng.randrange(0, 6) if t.size is None else rng.randrange(t.size[0], t.size[1] + 1)
        return bytes(rng.randrange(256) for _ in range(n))
    if k == 'IA5String':
        return gen_text(rng, rng.randrange(0, 8))
    if k == 'UTF8String':
        return gen_text(rng, rng.randrange(0, 6), 'abcé世z')
    if k == 'BIT STRING':
        nb = rng.randrange(0, 20)
        raw = bytearray(rng.randrange(256) for _ in range((nb + 7) // 8))
        if nb % 8:
            raw[-1] &= (0xff << (8 - nb % 8)) & 0xff
        return (bytes(raw), nb)
    if k == 'SEQUENCE OF':
        n = 0 if depth <= 0 else rng.randrange(0, 4)
        return [gen_value(rng, mod, t.elem, depth - 1) for _ in range(n)]
    if k == 'SEQUENCE':
        v = {}
        for m in t.root + (t.adds or []):
            optional = m.get('optional') or m.get('default') is not None
            inner = mod.resolve(m['type'])
            recursive = inner.kind in ('SEQUENCE', 'CHOICE', 'SEQUENCE OF')
            if optional and (rng.random() < .4 or (recursive and depth <= 0)):
                continue
            if m in (t.adds or []) and rng.random() < .3:
                continue
            v[m['name']] = gen_value(rng, mod, m['type'], depth - 1)
        return v
    if k == 'CHOICE':
        ms = t.root + (t.adds or [])
        if depth <= 0:
            flat = [m for m in ms if mod.resolve(m['type']).kind not in ('SEQUENCE', 'CHOICE', 'SEQUENCE OF')]
            ms = flat or ms
        m = rng.choice(ms)
        return (m['name'], gen_value(rng, mod, m['type'], depth - 1))
    raise ValueError(k)


def break_value(rng, mod, t, v):
    """an invalid or ill-typed variant of a valid value"""
    t = mod.resolve(t)
    how = rng.choice(['illtyped', 'range', 'missing', 'unknown', 'nested', 'none'])
    k = t.kind
    if how == 'none':
        return None
    if how == 'illtyped':
        return {'BOOLEAN': 'yes', 'INTEGER': 'seven', 'RANGE': 1.5, 'ENUMERATED': 7, 'OCTET STRING': 'text',
                'IA5String': 5, 'UTF8String': b'bytes', 'BIT STRING': b'\x01', 'SEQUENCE OF': {'a': 1},
                'SEQUENCE': [1, 2], 'CHOICE': 'c0'}[k]
    if how == 'range' and k == 'RANGE':
        return rng.choice([t.lo - 1, t.hi + 1, t.hi + 10 ** 6])
    if how == 'unknown' and k == 'ENUMERATED':
        return 'no-such-name'
    if how == 'unknown' and k == 'CHOICE':
        return ('no-such-alternative', 1)
    if k == 'SEQUENCE' and isinstance(v, dict):
        if how == 'missing':
            mand = [m for m in t.root if not m.get('optional') and m.get('default') is None]
            if mand:
                v = dict(v)
                v.pop(rng.choice(mand)['name'], None)
                return v
        ms = [m for m in t.root + (t.adds or []) if m['name'] in v]
        if ms:
            m = rng.choice(ms)
            v = dict(v)
            v[m['name']] = break_value(rng, mod, m['type'], v[m['name']])
            return v
    if k == 'SEQUENCE OF' and isinstance(v, list):
        v = list(v) or [gen_value(rng, mod, t.elem, 1)]
        i = rng.randrange(len(v))
        v[i] = break_value(rng, mod, t.elem, v[i])
        return v
    if k == 'CHOICE' and isinstance(v, tuple):
        for m in t.root + (t.adds or []):
            if m['name'] == v[0]:
                return (v[0], break_value(rng, mod, m['type'], v[1]))
    return {'BOOLEAN': 2, 'INTEGER': None, 'RANGE': 'x', 'ENUMERATED': 'nope', 'OCTET STRING': 12,
            'IA5String': ['a'], 'UTF8String': 3, 'BIT STRING': ('ab', 2)}.get(k, 0)


def break_bytes(rng, data):
    """truncated / corrupted / random encodings"""
    data = bytes(data)
    how = rng.choice(['trunc', 'trunc', 'flip', 'random', 'extend', 'empty'])
    if how == 'trunc' and len(data) > 0:
        return data[:rng.randrange(0, len(data))]
    if how == 'flip' and len(data) > 0:
        b = bytearray(data)
        i = rng.randrange(len(b))
        b[i] ^= 1 << rng.randrange(8)
        return bytes(b)
    if how == 'random':
        return bytes(rng.randrange(256) for _ in range(rng.randrange(1, 12)))
    if how == 'extend':
        return data + bytes(rng.randrange(256) for _ in range(rng.randrange(1, 4)))
    return b''
