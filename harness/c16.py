"""C16 — a truncated encoding is reported as a decode error, never as a value."""
import json

import common
import codec_common as CC
import gen_asn1 as G
import lib
import xcodec as X
import boundary


def run(ctx):
    if ctx.replay:
        doc = json.load(open(ctx.replay))['replay']
        spec = lib.compile_string(doc['spec'], doc['codec'], numeric_enums=doc.get('numeric_enums', False))
        data = bytes.fromhex(doc['data'])
        print('decode(prefix %d):' % doc['k'], lib.attempt(spec.decode, doc['type'], data[:doc['k']]))
        return
    ctx.rule = ('every strict byte prefix of every generated encoding (gen_asn1 modules x values x codec in '
                '{uper,per,oer,der,ber}); an evaluation is one prefix decode on /repo; distinct by (codec, type shape, '
                'encoding length); modelled codecs: the model decoder is run on a sample of the same prefixes and its '
                'outcome class compared with the library')
    ok = ctx.coq_props()
    mods = X.models()
    ctx.extra['modelled_codecs'] = sorted(mods)
    ctx.extra['codecs_covered'] = list(X.BINARY)
    ctx.extra['codecs_not_yet_covered'] = [c for c in X.ALL_BINARY if c not in X.BINARY]
    n = 30 if ctx.quick else 400
    for codec in X.BINARY:
        opts = X.union_opts([codec], mods)
        prefixes = []
        for c in CC.gen_cases(ctx, opts, n, 2):
            if not X.scope_ok(codec, mods, c):
                continue
            spec = lib.attempt(lib.compile_string, c.text, codec, numeric_enums=c.numeric)
            if spec[0] != 'ok':
                continue
            e = lib.attempt(spec[1].encode, c.tname, c.api_value(), check_constraints=True)
            if e[0] != 'ok':
                continue           # C01 reports these
            k = X.pt_truncation(ctx, codec, c, e[1])
            ctx.case(('trunc', codec, G.shape(c.rt, c.t), len(e[1])),
                     dict(kind='truncation', codec=codec, spec=c.text, type=c.tname, encoding=e[1].hex()[:80]), n=k)
            ctx.count('pt:%s:prefixes' % codec, k)
            if codec in mods and len(e[1]) > 0:
                for kk in {0, len(e[1]) - 1, ctx.rng.randrange(len(e[1]))}:
                    prefixes.append((c, e[1][:kk]))
        if codec in mods:
            CC.corr_decode_bytes(ctx, mods[codec], prefixes[:600 if ctx.quick else 6000], tag='corr-prefix')
    boundary.run(ctx, X.BINARY, {}, truncation=True, roundtrip=False,
                 lengths='quick' if ctx.quick else None)
    for f in common.load_findings(ctx.pid):
        w = f['witness']
        spec = lib.compile_string(w['spec'], w['codec'])
        r = lib.attempt(spec.decode, w['type'], bytes.fromhex(w['data']))
        if r[0] == 'ok' or r[1] != 'decode':
            ctx.known_finding(f['id'], f['what'])
    if not ok:
        common.proof_broken(ctx)
