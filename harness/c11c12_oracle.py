"""Python re-implementation of the C11 specification ("the declared
constraints admit the value") over the generator's abstract types, and the
boundary mutations.  Independent of the library's parser/compiler and written
separately from the Coq text (Check/Admits.v) it mirrors."""
from gen_asn1 import ALPHABETS, all_members

CODECS = ['ber', 'der', 'uper', 'per', 'oer', 'jer', 'xer', 'gser']


def in_range(c, n):
    """A constraint applied in series (c['series'], outermost parent first:
    constraints written at reference sites on top of the referenced type's own)
    admits a value iff every constraint of the series does (X.680 50; mirror of
    Check/Serial.v admits_series); an extensible constraint excludes nothing."""
    if c is not None and c.get('series'):
        return all(in_range1(x, n) for x in c['series'])
    return in_range1(c, n)


def in_range1(c, n):
    if c is None or c['ext']:
        return True
    if c['lo'] is not None and n < c['lo']:
        return False
    if c['hi'] is not None and n > c['hi']:
        return False
    return True


def class_ok(sk, ch):
    o = ord(ch)
    if sk in ALPHABETS:
        return ch in ALPHABETS[sk]
    if sk == 'BMPString':
        return o <= 0xffff and not (0xd800 <= o <= 0xdfff)
    return True


def char_ok(t, ch):
    if t.get('alpha'):
        return ch in t['alpha']
    return class_ok(t['sk'], ch)


def admits(rt_of, t, v):
    t = rt_of(t)
    k = t['k']
    if k == 'INTEGER':
        return in_range(t['c'], v)
    if k == 'OCTET STRING':
        return in_range(t['size'], len(v))
    if k == 'BIT STRING':
        return in_range(t['size'], v[1])
    if k == 'STRING':
        return in_range(t['size'], len(v)) and all(char_ok(t, ch) for ch in v)
    if k in ('SEQUENCE', 'SET'):
        return all(admits(rt_of, m['t'], v[m['name']]) for m in all_members(t) if m['name'] in v)
    if k in ('SEQUENCE OF', 'SET OF'):
        return in_range(t['size'], len(v)) and all(admits(rt_of, t['elem'], x) for x in v)
    if k == 'CHOICE':
        for m in t['root'] + (t['ext'] or []):
            if m['name'] == v[0]:
                return admits(rt_of, m['t'], v[1])
        return t['ext'] is not None
    return True


def violations(rt_of, t, v, names=()):
    """Name paths of all violating components (outermost first), in checker order."""
    t = rt_of(t)
    k = t['k']
    out = []
    if k in ('SEQUENCE', 'SET'):
        for m in all_members(t):
            if m['name'] in v:
                out += violations(rt_of, m['t'], v[m['name']], names + (m['name'],))
    elif k in ('SEQUENCE OF', 'SET OF'):
        if not in_range(t['size'], len(v)):
            out.append(names)
        for x in v:
            out += violations(rt_of, t['elem'], x, names)
    elif k == 'CHOICE':
        for m in t['root'] + (t['ext'] or []):
            if m['name'] == v[0]:
                out += violations(rt_of, m['t'], v[1], names + (m['name'],))
                break
        else:
            if t['ext'] is None:
                out.append(names)
    elif not admits(rt_of, t, v):
        out.append(names)
    return out


def series_sig(c):
    """'nx', 'xn', 'nxn', ...: extensible / non-extensible flags of a series."""
    return '/' + ''.join('x' if x['ext'] else 'n' for x in c['series'])


def outside_char(t):
    """A character the component must reject, or None."""
    sk = t['sk']
    if t.get('alpha'):
        pool = ALPHABETS.get(sk) or [chr(c) for c in range(32, 127)]
        for ch in pool:
            if ch not in t['alpha']:
                return ch
        return None
    return {'NumericString': 'a', 'PrintableString': '*', 'IA5String': '\x80', 'VisibleString': '\x7f',
            'BMPString': '\U00010000'}.get(sk)


def inside_char(t, rng):
    if t.get('alpha'):
        return rng.choice(t['alpha'])
    if t['sk'] in ALPHABETS:
        return rng.choice([c for c in ALPHABETS[t['sk']] if c.isalnum() or c == ' '] if t['sk'] != 'NumericString'
                          else list(' 0123456789'))
    return rng.choice(['a', 'Z', '0', '\xe5', '中'])


def with_length(gen, rng, t, v, n):
    """A value of the sized kind of [t] with length n (contents otherwise valid)."""
    k = t['k']
    if k == 'OCTET STRING':
        return bytes((v + bytes(rng.randrange(256) for _ in range(max(0, n - len(v)))))[:n])
    if k == 'BIT STRING':
        nb = (n + 7) // 8
        b = bytearray((bytes(v[0]) + bytes(rng.randrange(256) for _ in range(nb)))[:nb])
        if n % 8:
            b[-1] &= (0xff << (8 - n % 8)) & 0xff
        return (bytes(b), n)
    if k == 'STRING':
        return (v + ''.join(inside_char(t, rng) for _ in range(max(0, n - len(v)))))[:n]
    if k in ('SEQUENCE OF', 'SET OF'):
        l = list(v[:n])
        while len(l) < n:
            l.append(gen.gen_value(t['elem'], depth=3))
        return l
    raise AssertionError(k)


def boundary_mutants(gen, rng, rt_of, t, v, max_list=40, max_len=70001):
    """[(label, new component value)] at, just inside and just outside every
    bound of the component (t, v)."""
    t = rt_of(t)
    k = t['k']
    out = []
    if k == 'INTEGER':
        c = t['c']
        if c is None:
            return [('int:free', rng.choice([-2 ** 70, 2 ** 70, 0]))]
        for which in ('lo', 'hi'):
            b = c[which]
            if b is None:
                out.append(('int:%s:inf' % which, (c['hi'] - 2 ** 66) if which == 'lo' and c['hi'] is not None
                            else (c['lo'] + 2 ** 66) if c['lo'] is not None else 2 ** 66))
                continue
            for d in (-1, 0, 1):
                out.append(('int:%s%+d%s' % (which, d, 'x' if c['ext'] else ''), b + d))
        # every bound of every constraint applied in series (referenced type's own, reference sites)
        have = set(x for _, x in out)
        for i, sc in enumerate(c.get('series') or []):
            for which in ('lo', 'hi'):
                if sc[which] is not None:
                    for d in (-1, 0, 1):
                        if sc[which] + d not in have:
                            have.add(sc[which] + d)
                            out.append(('int:ser%d%s%s:%s%+d' % (i, 'x' if sc['ext'] else 'n', series_sig(c), which, d),
                                        sc[which] + d))
        return out
    if k in ('OCTET STRING', 'BIT STRING', 'STRING', 'SEQUENCE OF', 'SET OF'):
        s = t['size']
        cur = v[1] if k == 'BIT STRING' else len(v)
        lens = []
        if s is None:
            lens = [('size:free', cur + 1)]
        else:
            for which in ('lo', 'hi'):
                b = s[which]
                if b is None:
                    lens.append(('size:hi:inf', s['lo'] + 17))
                    continue
                for d in (-1, 0, 1):
                    if b + d >= 0:
                        lens.append(('size:%s%+d%s' % (which, d, 'x' if s['ext'] else ''), b + d))
            have = set(x for _, x in lens)
            for i, sc in enumerate(s.get('series') or []):
                for which in ('lo', 'hi'):
                    if sc[which] is not None:
                        for d in (-1, 0, 1):
                            if sc[which] + d >= 0 and sc[which] + d not in have:
                                have.add(sc[which] + d)
                                lens.append(('size:ser%d%s%s:%s%+d' % (i, 'x' if sc['ext'] else 'n', series_sig(s),
                                                                      which, d), sc[which] + d))
        for label, n in lens:
            if n > (max_list if k.endswith('OF') else max_len):
                continue
            out.append((label + ':' + k.split()[0], with_length(gen, rng, t, v, n)))
        if k == 'STRING' and len(v) > 0:
            ch = outside_char(t)
            if ch is not None:
                i = rng.randrange(len(v))
                out.append(('from:out' + (':FROM' if t.get('alpha') else ':class'), v[:i] + ch + v[i + 1:]))
            i = rng.randrange(len(v))
            out.append(('from:in', v[:i] + inside_char(t, rng) + v[i + 1:]))
        return out
    return out
