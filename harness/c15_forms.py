"""C15, round 5 — framing of valid BER encodings in forms the encoder never emits.

The property quantifies over ANY valid definite-length encoding followed by
arbitrary further bytes.  The library's encoder only produces the DER-like
form (primitive strings, minimal lengths), so encoder outputs alone never
reach the code that delimits the contents of a string in constructed form, of
a padded / long-form length or of nested constructed nodes.  This file

  * re-serialises encoder outputs with its own deterministic TLV writer (on
    top of codec_ber's independent parser / typed walker): every string leaf
    in turn (the *focus*) is written in every shape of a catalogue —
    primitive, constructed with zero / one / several segments, empty segments
    first / last / in the middle, segments that are themselves constructed
    (empty, nested to depth 3) — with minimal, long-form and padded length
    octets, inside enclosing nodes that are definite (minimal / long / padded)
    or, below the outermost one, indefinite; the outermost length is always
    definite (that is the property's domain);
  * appends adversarial tails: end-of-contents octets, a TLV that looks like a
    further segment (with and without end-of-contents behind it), a copy of
    the last string TLV (a further member / element), a copy of the whole
    message (the next message of a stream), an empty constructed string, a
    single zero, random bytes;
  * checks on /repo: decode_with_length(msg + tail) = (decode(msg), len(msg))
    for every tail, decode_length(prefix k) = len(msg) exactly when k covers
    the identifier and length octets and None before;
  * ties each case to the Coq side: the tree the writer built satisfies
    X690.ber_check with the decoded value (valid BER in the specification's
    sense, the hypotheses of HeaderAgree.probe_agrees_with_decoder), the
    library's outcome on msg + tail equals BerImpl.ber_decode's, and the
    library's probe answers equal HeaderAgree.probe_spec evaluated on the tree.
"""
import os
import re

import common
from common import C, Nat, to_coq
import lib
import gen_asn1
import codec_ber as cb
import c03
import c04

IMPORTS = c03.CORR_IMPORTS + ['Ber.HeaderProofs', 'Ber.HeaderAgree']

PREAMBLE = '''
Definition probe_code (r : result (option Z)) : Z :=
  match r with Ok (Some n) => n | Ok None => -1 | Err EDecode => -2 | Err _ => -3 end.
Definition probe_rows (x : btlv) (rows : list (nat * Z)) : bool :=
  HeaderAgree.outer_definite x && forallb (fun r => probe_code (HeaderAgree.probe_spec x (fst r)) =? snd r) rows.
Definition show_probe (x : btlv) (rows : list (nat * Z)) : list (nat * Z) :=
  map (fun r => (fst r, probe_code (HeaderAgree.probe_spec x (fst r)))) rows.
'''


# ---------------------------------------------------------------------------
# corner modules: a string type at every position of a message

def modules():
    _m, _mod = cb._m, cb._mod
    INT = {'k': 'INTEGER', 'c': None, 'named': None}
    BOOL = {'k': 'BOOLEAN'}
    OCT = {'k': 'OCTET STRING', 'size': None}
    IA5 = {'k': 'STRING', 'sk': 'IA5String', 'size': None, 'alpha': None}
    UTF8 = {'k': 'STRING', 'sk': 'UTF8String', 'size': None, 'alpha': None}
    BITS = {'k': 'BIT STRING', 'size': None, 'named': None}
    out = []
    # the string is the whole message
    out.append((_mod('IMPLICIT', [('T0', dict(OCT)), ('T1', dict(BITS)), ('T2', dict(IA5)), ('T3', dict(UTF8))]),
                [('T0', b''), ('T0', b'A'), ('T0', bytes(range(5))), ('T0', bytes(range(130))),
                 ('T1', (b'', 0)), ('T1', (b'\xa5\xc0', 10)), ('T1', (b'\x01\x02\x03', 24)),
                 ('T2', ''), ('T2', 'hello'), ('T3', ''), ('T3', 'aå中')]))
    # last / middle / only member of a SEQUENCE, OPTIONAL last member, SET
    s_last = {'k': 'SEQUENCE', 'root': [_m('id', INT), _m('data', dict(OCT))], 'ext': None}
    s_bits = {'k': 'SEQUENCE', 'root': [_m('id', INT), _m('data', dict(BITS))], 'ext': None}
    s_mid = {'k': 'SEQUENCE', 'root': [_m('a', dict(OCT)), _m('b', dict(OCT)), _m('c', BOOL)], 'ext': None}
    s_opt = {'k': 'SEQUENCE', 'root': [_m('a', dict(IA5)), _m('b', dict(OCT), 'optional')], 'ext': None}
    s_set = {'k': 'SET', 'root': [_m('a', dict(OCT), None, ('', 0, '')), _m('b', BOOL, None, ('', 1, ''))], 'ext': None}
    # every component may be absent: the contents of the message can be empty, and what follows it can look
    # like one of its components
    s_none = {'k': 'SEQUENCE', 'root': [_m('a', dict(OCT), 'optional'), _m('b', INT, ('default', 5), ('', 0, ''))], 'ext': None}
    out.append((_mod('IMPLICIT', [('T0', s_last), ('T1', s_bits), ('T2', s_mid), ('T3', s_opt), ('T4', s_set), ('T5', s_none)]),
                [('T0', {'id': 5, 'data': b''}), ('T0', {'id': -1, 'data': b'AB'}),
                 ('T1', {'id': 5, 'data': (b'', 0)}), ('T1', {'id': 0, 'data': (b'\xf0', 4)}),
                 ('T2', {'a': b'', 'b': b'A', 'c': True}), ('T2', {'a': b'A', 'b': b'', 'c': False}),
                 ('T2', {'a': b'', 'b': b'', 'c': False}),
                 ('T3', {'a': ''}), ('T3', {'a': 'x', 'b': b''}), ('T3', {'a': '', 'b': b'\x04\x01A'}),
                 ('T4', {'a': b'', 'b': True}), ('T4', {'a': b'\x00\x00', 'b': False}),
                 ('T5', {}), ('T5', {'a': b''}), ('T5', {'b': 7})]))
    # elements of SEQUENCE OF / SET OF, CHOICE alternatives
    so = {'k': 'SEQUENCE OF', 'elem': dict(OCT), 'size': None}
    sb = {'k': 'SEQUENCE OF', 'elem': dict(BITS), 'size': None}
    ch = {'k': 'CHOICE', 'root': [_m('o', dict(OCT)), _m('s', dict(IA5)), _m('i', INT)], 'ext': None}
    sch = {'k': 'SEQUENCE OF', 'elem': {'k': 'REF', 'name': 'T2'}, 'size': None}
    out.append((_mod('IMPLICIT', [('T0', so), ('T1', sb), ('T2', ch), ('T3', sch)]),
                [('T0', []), ('T0', [b'']), ('T0', [b'', b'A']), ('T0', [b'A', b'']), ('T0', [b'', b'']), ('T0', [b'\x04\x00', b'']),
                 ('T1', [(b'', 0)]), ('T1', [(b'\x80', 1), (b'', 0)]),
                 ('T2', ('o', b'')), ('T2', ('s', '')), ('T2', ('o', b'\x00\x00')),
                 ('T3', [('i', 1), ('o', b'')]), ('T3', [('s', ''), ('o', b'A')])]))
    # IMPLICIT / EXPLICIT tags (one and several identifier octets) on the string, nesting
    tg = {'k': 'SEQUENCE', 'root': [_m('a', dict(OCT), None, ('', 0, 'EXPLICIT')),
                                    _m('b', dict(UTF8), 'optional', ('', 31, 'IMPLICIT')),
                                    _m('c', dict(OCT), 'optional', ('APPLICATION', 16384, 'EXPLICIT'))], 'ext': None}
    inner = {'k': 'SEQUENCE', 'root': [_m('x', dict(OCT))], 'ext': None}
    nest = {'k': 'SEQUENCE', 'root': [_m('n', INT), _m('inner', {'k': 'REF', 'name': 'T1'}),
                                      _m('l', {'k': 'SET OF', 'elem': dict(IA5), 'size': None})], 'ext': None}
    nest2 = {'k': 'SEQUENCE', 'root': [_m('n', INT), _m('w', {'k': 'REF', 'name': 'T1'}, None, ('PRIVATE', 300, 'EXPLICIT'))],
             'ext': None}
    out.append((_mod('EXPLICIT', [('T0', tg), ('T1', inner), ('T2', nest), ('T3', nest2)]),
                [('T0', {'a': b''}), ('T0', {'a': b'A', 'b': ''}), ('T0', {'a': b'', 'b': 'z', 'c': b''}),
                 ('T1', {'x': b''}), ('T2', {'n': 1, 'inner': {'x': b''}, 'l': []}),
                 ('T2', {'n': 1, 'inner': {'x': b'A'}, 'l': ['']}), ('T3', {'n': 2, 'w': {'x': b''}}),
                 ('T3', {'n': 2, 'w': {'x': bytes(125)}})]))
    return out


def make_cases(ctx, n_random):
    """(mods, cases): the corner modules above plus random modules of the shared generator"""
    rng = ctx.rng
    mods, cases = [], []
    for mod, vals in modules():
        probs = cb.scope_problems(mod, 'ber')
        text = gen_asn1.render_module(mod, gen_asn1.make_resolver(mod))
        if probs:
            raise RuntimeError('c15_forms corner module outside the modelled scope: %r' % (probs,))
        lib.compile_string(text, 'ber')
        mi = len(mods)
        mods.append((mod, text))
        tmap = dict(mod['types'])
        for tname, v in vals:
            c = c03.Case()
            c.mi, c.mod, c.text, c.tname, c.t, c.gen = mi, mod, text, tname, tmap[tname], None
            c.v, c.numeric, c.corner = v, False, True
            cases.append(c)
    tries = 0
    target = len(mods) + n_random
    while len(mods) < target and tries < n_random * 20:
        tries += 1
        mod, text, g = cb.generate(rng, cb.default_opts())
        if cb.scope_problems(mod, 'ber'):
            continue
        try:
            lib.compile_string(text, 'ber')
        except Exception:  # noqa  (C03/C04 report modules that do not compile)
            continue
        mi = len(mods)
        mods.append((mod, text))
        for tname, t in mod['types']:
            c = c03.Case()
            c.mi, c.mod, c.text, c.tname, c.t, c.gen = mi, mod, text, tname, t, g
            c.v, c.numeric, c.corner = g.gen_value(t), False, False
            cases.append(c)
    return mods, cases


# ---------------------------------------------------------------------------
# deterministic writer

LEN_FORMS = {'min': 0, 'long': 1, 'pad2': 2, 'pad4': 4, 'pad20': 20, 'pad124': 124}        # -> codec_ber.length_octets(n, pad)


def frame(cls, constructed, number, body, lf):
    """body: contents octets (primitive) or a list of (octets, term) children;
    lf: 'min' | 'long' | 'pad2' | 'pad4' | 'indef' (constructed only)"""
    ident = cb.ident_octets(cls, constructed, number)
    cl = C(cb.CLASS_OF_BITS[cls])
    if constructed:
        kids = [t for _, t in body]
        body = b''.join(b for b, _ in body)
        if lf == 'indef':
            return ident + b'\x80' + body + b'\x00\x00', C('BCons', cl, number, C('LIndef'), kids)
        lo = cb.length_octets(len(body), LEN_FORMS[lf])
        return ident + lo + body, C('BCons', cl, number, C('LDef', lo), kids)
    lo = cb.length_octets(len(body), LEN_FORMS[lf])
    return ident + lo + body, C('BPrim', cl, number, lo, body)


def P(part):
    return ('P', part)


def K(*kids):
    return ('C', list(kids))


def shapes(data):
    """catalogue of the ways to write the octets [data] of a string: name -> shape"""
    h = len(data) // 2
    a, b = data[:h], data[h:]
    out = [('prim', P(data))]
    if not data:
        out.append(('c0', K()))
        out.append(('c-in-c0', K(K())))
        out.append(('c-in-c-in-c0', K(K(K()))))
        out.append(('c0-c0', K(K(), K())))
    out += [
        ('c1', K(P(data))),
        ('empty-first', K(P(b''), P(data))),
        ('empty-last', K(P(data), P(b''))),
        ('empty-mid', K(P(a), P(b''), P(b))),
        ('c0-last', K(P(data), K())),
        ('c0-first', K(K(), P(data))),
        ('nested', K(K(P(a)), P(b))),
        ('nested-deep-c0-last', K(P(a), K(K(P(b)), K()))),
    ]
    return out


def leaves_of(shape):
    if shape[0] == 'P':
        return [shape[1]]
    return [x for k in shape[1] for x in leaves_of(k)]


def rightmost(shape):
    """the primitive segment at the end of the chain of last children (None: that chain ends in an
    empty constructed segment)"""
    if shape[0] == 'P':
        return shape[1]
    return rightmost(shape[1][-1]) if shape[1] else None


def shape_valid(shape, bits, unused):
    """X.690 8.6.4: only the LAST segment (at every level of nesting) may hold unused bits, and they
    belong to its last octet"""
    if bits and unused:
        return bool(rightmost(shape))
    return True


class Plan(object):
    """how one variant is written"""

    def __init__(self, rng, focus=None, shape_name='prim', focus_lf='min', root_lf='min', mix=0.0, inner_indef=0.0):
        self.rng = rng
        self.focus = focus
        self.shape_name = shape_name
        self.focus_lf = focus_lf
        self.root_lf = root_lf
        self.mix = mix                   # probability that another node departs from the DER form
        self.inner_indef = inner_indef   # probability of the indefinite form on a constructed node below the root
        self.focus_bytes = None
        self.root_children = []
        self.used = set()

    def cons_lf(self):
        r = self.rng.random()
        if r < self.inner_indef:
            self.used.add('inner-indefinite')
            return 'indef'
        if self.rng.random() < self.mix:
            self.used.add('inner-long-length')
            return self.rng.choice(['long', 'pad2', 'pad4'])
        return 'min'

    def prim_lf(self):
        if self.rng.random() < self.mix:
            self.used.add('inner-long-length')
            return self.rng.choice(['long', 'pad2'])
        return 'min'


def write_string(node, shape, plan, top_lf, inner_lf):
    bits = node.note == 'bits'
    if bits:
        unused, data = node.content[0], node.content[1:]
    else:
        unused, data = 0, node.content
    n_leaves = len(leaves_of(shape))
    seen = [0]
    u = 3 if bits else 4

    def ser(sh, top):
        cls, num = (node.cls, node.number) if top else (0, u)
        if sh[0] == 'P':
            last = seen[0] == n_leaves - 1
            seen[0] += 1
            c = (bytes([unused if last else 0]) + sh[1]) if bits else sh[1]
            return frame(cls, False, num, c, top_lf if top else inner_lf(False))
        parts = [ser(k, False) for k in sh[1]]
        return frame(cls, True, num, parts, top_lf if top else inner_lf(True))
    assert b''.join(leaves_of(shape)) == data
    return ser(shape, True)


def write_node(node, plan, is_root=True):
    rng = plan.rng
    if node.constructed:
        parts = [write_node(k, plan, False) for k in node.children]
        if is_root:
            plan.root_children = [b for b, _ in parts]
        return frame(node.cls, True, node.number, parts, plan.root_lf if is_root else plan.cons_lf())
    if node.note in ('octets', 'bits'):
        bits = node.note == 'bits'
        data = node.content[1:] if bits else node.content
        unused = node.content[0] if bits else 0
        cat = [(n, s) for n, s in shapes(data) if shape_valid(s, bits, unused)]
        inner = lambda cons: (plan.cons_lf() if cons else plan.prim_lf())      # noqa
        if node is plan.focus:
            shape = dict(cat)[plan.shape_name]
            top_lf = plan.focus_lf
            if is_root and top_lf == 'indef':
                top_lf = 'min'
            out = write_string(node, shape, plan, top_lf, inner)
            plan.focus_bytes = out[0]
            return out
        if rng.random() < plan.mix:
            name, shape = rng.choice(cat)
            if name != 'prim':
                plan.used.add('other-string-constructed')
            top_lf = plan.root_lf if is_root else (plan.cons_lf() if shape[0] == 'C' else plan.prim_lf())
            return write_string(node, shape, plan, top_lf, inner)
    return frame(node.cls, False, node.number, node.content, plan.root_lf if is_root else plan.prim_lf())


def string_leaves(node):
    if node.constructed:
        return [x for k in node.children for x in string_leaves(k)]
    return [node] if node.note in ('octets', 'bits') else []


def header_len(msg):
    """identifier + length octets of the outermost TLV, read independently"""
    i = 1
    if msg[0] & 0x1f == 0x1f:
        while msg[i] & 0x80:
            i += 1
        i += 1
    if msg[i] & 0x80:
        return i + 1 + (msg[i] & 0x7f)
    return i + 1


def tails_for(rng, var, focus_bytes, bits, children=()):
    seg = b'\x03\x02\x00\x41' if bits else b'\x04\x01\x41'
    empty_c = bytes([0x23 if bits else 0x24, 0])
    out = [('eoc', b'\x00\x00'), ('eoc-eoc', b'\x00\x00\x00\x00'), ('zero', b'\x00'),
           ('segment', seg), ('segment+eoc', seg + b'\x00\x00'),
           ('empty-constructed+eoc', empty_c + b'\x00\x00'),
           ('message-copy', var),
           ('random', bytes(rng.randrange(256) for _ in range(rng.choice([1, 2, 3, 7]))))]
    if focus_bytes and focus_bytes != var:
        out.append(('member-copy', focus_bytes))
        out.append(('member-copy+eoc', focus_bytes + b'\x00\x00'))
    if children and children[0] != focus_bytes:
        out.append(('first-component-copy', children[0]))
    if len(children) > 1 and children[-1] != focus_bytes:
        out.append(('last-component-copy', children[-1]))
    return out


MAX_REPORTED = 5


def report(ctx, what, rep):
    """at most MAX_REPORTED violations per kind are written out (one defect shows in hundreds of
    variants); the others are only counted"""
    key = 'forms:violations:' + rep.get('kind', '?')
    n = ctx.histogram.get(key, 0)
    ctx.count(key)
    if n < MAX_REPORTED:
        ctx.violation(what, rep)
    else:
        ctx.count('forms:violations-not-written-out')


def probe_code(r):
    if r[0] == 'ok':
        return -1 if r[1] is None else r[1]
    return -2 if r[1] == 'decode' else -3


# ---------------------------------------------------------------------------
# the checks

class Batch(c03.Batch):
    """c03.Batch with the HeaderAgree specification in scope"""

    def run(self, name='forms'):
        ctx = self.ctx
        pre = c03.env_preamble(self.mods) + PREAMBLE
        bad = cb.eval_shards(ctx, name, IMPORTS, pre, self.items, per_file=400, workers=8)
        first = bad[:c03.MAX_SHOWN]
        shown = []
        if first:
            body = pre + c03.SHOW + ''.join('Eval vm_compute in %s.\n' % self.meta[i][1] for i in first)
            shown = list(ctx.coq_eval('forms_show', IMPORTS, body))
        for i, mv in zip(bad, shown + [None] * len(bad)):
            what, rep = self.meta[i][2](mv)
            report(ctx, what, rep)
        ctx.log('forms: %d Coq checks evaluated, %d disagree' % (len(self.items), len(bad)))


def check_variant(ctx, batch, c, spec, base, var, term, plan, feats, n_coq_tails, all_tails=True):
    """one re-serialisation [var] of the encoder output; base = ('ok', (value, n)) of the encoder output"""
    rng = ctx.rng
    rt_of = cb.Resolver(c.mod)
    env, ty, _ = c03.terms(c)
    bits = plan.focus is not None and plan.focus.note == 'bits'
    rep0 = dict(spec=c.text, type=c.tname, codec='ber', msg=var.hex(), msg_len=len(var), form=feats)
    alone = lib.attempt(spec.decode_with_length, c.tname, var)
    ctx.case(('forms', c03.shape_key(c) if not c.corner else (c.mi, c.tname), feats),
             dict(kind='forms', spec=c.text, type=c.tname, msg=var.hex()[:120], form=feats))
    ctx.count('forms:variants')
    ctx.count('forms:shape:' + plan.shape_name)
    if alone[0] != 'ok' or alone[1][1] != len(var) or c04.veq_norm(c, alone[1][0]) != c04.veq_norm(c, base[1][0]):
        report(ctx, 'BER decode_with_length of a valid re-serialisation (%s) alone: %s, expected (%r, %d)' % (
            feats, repr(alone[1:])[:200], base[1][0], len(var)),
            dict(kind='forms-decode_with_length', tail='', expected_value=repr(base[1][0])[:300], **rep0))
        value = base[1][0]
    else:
        value = alone[1][0]
    # (Coq item built below, together with the probe rows)
    # decode_with_length with every tail
    tails = tails_for(rng, var, plan.focus_bytes, bits, plan.root_children)
    if not all_tails:
        tails = rng.sample(tails, 4)
    failed = False
    for tname, tail in tails:
        got = lib.attempt(spec.decode_with_length, c.tname, var + tail)
        ctx.evaluations += 1
        ctx.count('forms:tail:' + tname)
        if got != ('ok', (value, len(var))) and not failed:
            failed = True
            report(ctx, 'decode_with_length(msg + tail) != (decode(msg), len(msg)) for a valid BER message (%s) with '
                          'tail %s (%s): got %s, expected (%r, %d); decode_length(msg) = %r' % (
                              feats, tail.hex()[:40], tname, repr(got[1:] if got[0] != 'ok' else got[1])[:200], value, len(var),
                              lib.attempt(spec.decode_length, var)[1]),
                          dict(kind='forms-decode_with_length', tail=tail.hex(), tail_kind=tname,
                               expected_value=repr(value)[:300], **rep0))
    # the decoder model on msg + tail (always the end-of-contents-like tail, the others in rotation)
    # (given the specification check below, HeaderAgree.probe_agrees_with_decoder already fixes the model's
    # answer for every tail; a sample of the inputs is compared directly as well)
    chosen = []
    if n_coq_tails:
        chosen = [tails[0]] if ('c0' in plan.shape_name and rng.random() < .5) else [rng.choice(tails[1:])]
    c03.add_decode_checks(ctx, batch, c, [('variant+tail', var + t) for _, t in chosen], 'ber', cb, 'BER',
                          extra_key=(plan.shape_name,))
    # the probe on prefixes of msg + tail
    hl = header_len(var)
    full = var + tails[0][1] + var
    ks = sorted(set(range(0, min(len(full), hl + 6) + 1)) | {len(var) - 1, len(var), len(var) + 1, len(full)} |
                {rng.randrange(0, len(full) + 1) for _ in range(3)})
    rows = []
    bad = None
    for k in ks:
        got = lib.attempt(spec.decode_length, full[:k])
        ctx.evaluations += 1
        rows.append((Nat(k), probe_code(got)))
        want = ('ok', len(var) if k >= hl else None)
        if got != want and bad is None:
            bad = k
            report(ctx, 'decode_length(prefix of %d octets of a valid BER message (%s) + tail) = %r, expected %r' % (
                k, feats, got[1:], want[1]),
                dict(kind='forms-decode_length', k=k, header_len=hl, data=full[:max(k, hl + 4)].hex()[:400], **rep0))
    ctx.count('forms:probe-prefixes', len(ks))

    # the tree is valid BER in the specification's sense (bwf, bser x = msg), denotes the decoded value, has a
    # definite outermost length, and the library's probe answers are those of HeaderAgree.probe_spec
    lrows = [(int(k), a) for k, a in rows]
    check = '(let x := %s in X690.ber_check false %s DerImpl.corr_fuel %s x %s %s && probe_rows x %s)' % (
        to_coq(term), env, ty, to_coq(var), to_coq(cb.coq_value(rt_of, c.t, cb.plain(value))), to_coq(rows))
    show = '(let x := %s in (X690.bwf x, X690.bread false %s DerImpl.corr_fuel %s x, show_probe x %s))' % (
        to_coq(term), env, ty, to_coq(rows))

    def rep_spec(mv, var=var, feats=feats, value=value, lrows=lrows):
        return ('a re-serialisation (%s) %s: the decoded value %r / the decode_length answers %r do not agree with the '
                'specification (X690.bwf, X690.bread, HeaderAgree.probe_spec): %r' % (
                    feats, var.hex()[:80], value, lrows, mv),
                dict(kind='forms-spec', decoded=repr(value)[:300], rows=lrows, specification=repr(mv)[:600], **rep0))
    batch.add(c, check, show, rep_spec)


def pt_forms(ctx, quick):
    rng = ctx.rng
    mods, cases = make_cases(ctx, 4 if quick else 40)
    batch = Batch(ctx, mods)
    lfs = ['min', 'long', 'pad2', 'min', 'pad4', 'long', 'min', 'pad20', 'long', 'min', 'pad2', 'pad124', 'min']
    tick = 0
    nvar = 0
    for c in cases:
        spec = lib.compile_string(c.text, 'ber')
        enc = lib.attempt(spec.encode, c.tname, c03.api_value(c))
        if enc[0] != 'ok':
            ctx.count('forms:skipped:not-encodable')
            continue
        data = enc[1]
        if len(data) > 3000:
            ctx.count('forms:skipped:long')
            continue
        try:
            root, end = cb.parse_strict(data, der=True)
            assert end == len(data)
        except (cb.TlvError, AssertionError):
            ctx.count('forms:skipped:encoder-output-not-der')
            continue            # C03/C04 report encoder outputs that are not one DER TLV
        if cb.annotate(c.mod, c.tname, root):
            ctx.count('forms:skipped:encoder-output-not-of-the-type')
            continue
        base = lib.attempt(spec.decode_with_length, c.tname, data)
        if base[0] != 'ok' or base[1][1] != len(data):
            report(ctx, 'BER decode_with_length of the encoder output %s alone: %s, expected length %d' % (
                data.hex()[:80], repr(base[1:])[:200], len(data)),
                dict(kind='forms-decode_with_length', spec=c.text, type=c.tname, codec='ber', msg=data.hex(),
                     msg_len=len(data), form='encoder-output', tail='', expected_value=repr(c.v)[:300]))
            continue
        leaves = string_leaves(root)
        if c.corner:
            focus = leaves[-2:]
        else:
            focus = leaves[-1:] + ([rng.choice(leaves[:-1])] if len(leaves) > 1 else [])
        if not focus:
            # no string: the enclosing length forms only
            for root_lf in ('min', 'long', 'pad2'):
                plan = Plan(rng, root_lf=root_lf, mix=0.0 if c.corner else .3, inner_indef=0.0 if c.corner else .2)
                var, term = write_node(root, plan)
                check_variant(ctx, batch, c, spec, base, var, term, plan, 'no-string/root-' + root_lf, 1, all_tails=c.corner)
                nvar += 1
            continue
        for leaf in focus:
            bits = leaf.note == 'bits'
            data_l = leaf.content[1:] if bits else leaf.content
            unused = leaf.content[0] if bits else 0
            cat = [n for n, s in shapes(data_l) if shape_valid(s, bits, unused)]
            if not c.corner:
                cat = ['prim'] + rng.sample(cat[1:], min(3, len(cat) - 1))
            for name in cat:
                tick += 1
                focus_lf = lfs[tick % len(lfs)]
                root_lf = lfs[(tick // 2) % len(lfs)]
                clean = tick % 3 != 0            # two in three: everything else stays in the encoder's form
                plan = Plan(rng, leaf, name, focus_lf, root_lf, mix=0.0 if clean else .5, inner_indef=0.0 if clean else .3)
                var, term = write_node(root, plan)
                feats = '%s/len-%s/root-%s%s' % (name, focus_lf, root_lf, ''.join('/' + u for u in sorted(plan.used)))
                check_variant(ctx, batch, c, spec, base, var, term, plan, feats, 1 if ('c0' in name or tick % 4 == 0) else 0,
                              all_tails=c.corner or name != 'prim')
                nvar += 1
    ctx.log('forms: %d (type, value) cases, %d re-serialisations' % (len(cases), nvar))
    batch.run()


# ---------------------------------------------------------------------------
# audit of the theorems of Ber/HeaderAgree.v (Props/C15.v is a shared file)

AGREE_V = 'theories/Ber/HeaderAgree.v'


def audit_agree(ctx, built=False):
    """compile Ber/HeaderAgree.v, apply the vernacular gate to it and audit its Print Assumptions output"""
    coq = common.COQ
    src = open(os.path.join(coq, AGREE_V)).read()
    txt = re.sub(r'\(\*.*?\*\)', '', src, flags=re.S)
    bad = [m.group(1) for m in common.FORBIDDEN.finditer(txt)]
    ctx.obligation('gate:HeaderAgree.v', not bad, '; '.join(bad[:5]))
    printed = re.findall(r'^\s*Print Assumptions\s+([\w\']+)', src, flags=re.M)
    theorems = re.findall(r'^\s*(?:Theorem|Corollary|Example)\s+([\w\']+)', src, flags=re.M)
    ok, detail = (True, '') if built else ctx.coq_build([AGREE_V + 'o'])
    if not ok:
        for t in theorems:
            ctx.obligation('HeaderAgree.' + t, False, detail)
        return False
    os.makedirs(os.path.join(coq, 'cases', 'C15_audit'), exist_ok=True)
    rc, out = common.sh(['coqc'] + common.COQ_FLAGS + ['-o', 'cases/C15_audit/HeaderAgree.vo', AGREE_V], cwd=coq, timeout=1200)
    for ext in ('.vo', '.glob', '.vok', '.vos'):
        try:
            os.remove(os.path.join(coq, 'cases', 'C15_audit', 'HeaderAgree' + ext))
        except OSError:
            pass
    if rc != 0:
        for t in theorems:
            ctx.obligation('HeaderAgree.' + t, False, out[-400:])
        return False
    blocks = re.split(r'^(?=Closed under the global context|Axioms:)', out, flags=re.M)[1:]
    allok = not bad
    for t in theorems:
        if t not in printed or printed.index(t) >= len(blocks):
            ctx.obligation('HeaderAgree.' + t, False, 'no Print Assumptions output for this theorem')
            allok = False
            continue
        b = blocks[printed.index(t)]
        closed = b.startswith('Closed under the global context')
        ctx.obligation('HeaderAgree.' + t, closed, 'closed' if closed else b[:300])
        allok = allok and closed
    return allok
