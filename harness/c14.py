"""C14 -- Parsing depends only on the token sequence, not on comments or white-space.

Flow (DESIGN.md section 6, C14):
  1. regenerate coq/gen/Keywords.v from /repo/asn1tools/parser.py (translator/keywords.py, fail-closed);
  2. build and audit coq/theories/Props/C14.v;
  3. witnesses of the ..._refuted lemmas and the known findings are replayed on /repo;
  4. correspondence: asn1tools.parser.ignore_comments vs the Coq model (Lex/Comments.v, the REPAIRED
     scanner) exhaustively on every string up to a length over {- / * \\n " a space} and on pseudo-random
     long strings (generated on both sides from a seed), evaluated inside Coq with vm_compute;
  5. property tests on /repo: ignore_comments(text) == blanking by an independent X.680 scanner,
     parse_string(text) == parse_string(relayout(text)) on the fixture corpus and on generated modules,
     and the line reported for an injected syntax error.
"""
import glob
import json
import multiprocessing
import os
import re
import sys
from concurrent.futures import ThreadPoolExecutor

import common
from common import to_coq
import lib

sys.path.insert(0, os.path.join(common.VERIF, 'translator'))
import keywords as kwtrans  # noqa: E402

import asn1tools  # noqa: E402
from asn1tools.parser import ignore_comments  # noqa: E402
from pyparsing import ParseException, ParseSyntaxException  # noqa: E402

IMPORTS = ['Base.Prelude', 'Base.Corr', 'Lex.Comments']

# ---------------------------------------------------------------------------
# Independent X.680 clause 12 scanner (not the library's)

WS = ' \t\n\r\x0b\x0c'


class LexError(Exception):
    pass


def _alnum(ch):
    return ('a' <= ch <= 'z') or ('A' <= ch <= 'Z') or ('0' <= ch <= '9')


def scan(text):
    """Split [text] into lexical items and separators.

    Returns (tokens, comments, stray): tokens = [(kind, start, end)], comments = [(start, end)] (delimiters
    included, the newline that ends a one-line comment excluded), stray = offsets of asterisks outside comments
    and literals.  Token kinds: word (references, identifiers, keywords, numbers; a leading '-' '&' '@' and
    embedded '.' between names/digits are kept inside the token, see notes/C14.md), cstring, qstring
    ('...'B / '...'H), punct.
    """
    n = len(text)
    i = 0
    tokens, comments, stray = [], [], []
    while i < n:
        c = text[i]
        if c in WS:
            i += 1
        elif text.startswith('--', i):
            j = i + 2
            while True:
                if j >= n:
                    raise LexError('one-line comment at offset %d runs into the end of the text' % i)
                if text[j] == '\n':
                    break
                if text.startswith('--', j):
                    j += 2
                    break
                j += 1
            comments.append((i, j))
            i = j
        elif text.startswith('/*', i):
            depth, j = 1, i + 2
            while depth:
                if j >= n:
                    raise LexError('comment at offset %d is not closed' % i)
                if text.startswith('*/', j):
                    depth -= 1
                    j += 2
                elif text.startswith('/*', j):
                    depth += 1
                    j += 2
                else:
                    j += 1
            comments.append((i, j))
            i = j
        elif c == '"':
            j = i + 1
            while True:
                j = text.find('"', j)
                if j < 0:
                    raise LexError('character string at offset %d is not closed' % i)
                if text.startswith('""', j):
                    j += 2
                    continue
                j += 1
                break
            tokens.append(('cstring', i, j))
            i = j
        elif c == "'":
            j = text.find("'", i + 1)
            if j < 0:
                raise LexError('string at offset %d is not closed' % i)
            j += 1
            if j < n and text[j] in 'BH':
                j += 1
            tokens.append(('qstring', i, j))
            i = j
        elif _alnum(c) or (c in '&@' and i + 1 < n and (_alnum(text[i + 1]) or text[i + 1] == '.')) \
                or (c == '-' and i + 1 < n and '0' <= text[i + 1] <= '9'):
            j = i + 1
            while j < n:
                ch = text[j]
                if _alnum(ch) or ch == '_':
                    j += 1
                elif ch == '-' and j + 1 < n and _alnum(text[j + 1]):
                    j += 1
                elif ch == '.' and j + 1 < n and (_alnum(text[j + 1]) or text[j + 1] == '&') \
                        and not text.startswith('..', j) and text[j - 1] != '.':
                    j += 1          # Module.Type, CLASS.&field, 1.5, @a.b kept in one token
                elif ch == '&' and text[j - 1] == '.':
                    j += 1
                elif ch == '-' and text[j - 1] in 'eE' and j + 1 < n and '0' <= text[j + 1] <= '9' \
                        and re.match(r'-?\d+\.?\d*[eE]$', text[i:j]):
                    j += 1          # exponent sign of a realnumber
                else:
                    break
            if text.startswith('...', j) and j + 3 < n and text[j + 3] not in '.,)}] \t\r\n' \
                    and re.match(r'-?\d+$', text[i:j]):
                j += 1              # "1...2" is the realnumber "1." followed by ".." (tests/files/all_types.asn)
            if j < n and text[j] == '.' and text[j + 1:j + 2] != '.' and re.match(r'-?\d+$', text[i:j]):
                j += 1              # realnumber with an empty fraction: "1." (12.9)
            tokens.append(('word', i, j))
            i = j
        else:
            for p in ('::=', '...', '..', '[[', ']]'):
                if text.startswith(p, i):
                    tokens.append(('punct', i, i + len(p)))
                    i += len(p)
                    break
            else:
                if c == '*':
                    stray.append(i)
                tokens.append(('punct', i, i + 1))
                i += 1
    return tokens, comments, stray


def spec_blank(text, comments):
    """The text with every comment character replaced by a space, line feeds kept."""
    out = list(text)
    for a, b in comments:
        for k in range(a, b):
            if out[k] != '\n':
                out[k] = ' '
    return ''.join(out)


# ---------------------------------------------------------------------------
# Layout generation

COMMENT_WORDS = ['x', 'todo', 'OCTET', 'STRING', 'END', '"', "'", 'a-b', '- ', '* ', '/ ', '::=', '{', '}', 'é',
                 '""', 'BEGIN', ',', '1..2', '"unbalanced', '-', '*', '/',
                 # characters Python's str.isspace()/\s accept but pyparsing does not skip
                 '\xa0', '\u2028', '\u3000', '\x85', '\t', 'a\xa0b']
# VT and FF end a one-line comment in X.680 (known finding x680-vt-ff-cr): block comments only
BLOCK_ONLY_WORDS = ['\x0c', '\x0b', 'a\x0cb', '\x1c', '\x1f']


def _comment_body(rng, kind):
    pool_ = COMMENT_WORDS + (BLOCK_ONLY_WORDS if kind == 'block' else [])
    words = [rng.choice(pool_) for _ in range(rng.randrange(0, 5))]
    body = ' '.join(words)
    # the body must not contain a delimiter of its own kind
    while '--' in body:
        body = body.replace('--', '- -')
    while '/*' in body or '*/' in body:
        body = body.replace('/*', '/ *').replace('*/', '* /')
    if kind == 'block' and rng.random() < .4:
        body = body.replace(' ', '\n', 1)
    return body


def random_piece(rng):
    """One separator: white space or a comment of one of the three kinds."""
    r = rng.random()
    if r < .18:
        return ' ' * rng.randrange(1, 4)
    if r < .30:
        return '\t'
    if r < .45:
        return '\n'
    if r < .50:
        return '\r\n'
    if r < .68:
        return '--' + _comment_body(rng, 'line') + '\n'
    if r < .82:
        b = _comment_body(rng, 'line')
        if b.endswith('-'):
            b += ' '
        return '--' + b + '--'
    if r < .94:
        b = _comment_body(rng, 'block')
        return '/*' + b + ('' if not b.endswith('/') and not b.endswith('*') else ' ') + '*/'
    inner = _comment_body(rng, 'block')
    return '/* ' + _comment_body(rng, 'block') + ' /*' + inner + ' */\n ' + _comment_body(rng, 'block') + ' */'


def _join_piece(out_tail, piece):
    """Keep an inserted comment from fusing with a neighbouring '-', '/' or '*'."""
    if out_tail and out_tail[-1] in '-/*' and piece[0] in '-/*':
        return ' ' + piece
    return piece


def relayout(text, tokens, rng, mode, only=None, keep=()):
    """A text with the same tokens in the same order and different layout.

    mode 'strip': every separator becomes one space or newline (comments removed);
    mode 'dense': every gap, also between adjacent tokens, may get white space and comments;
    mode 'sparse': a few gaps only.
    [only]: restrict changes to this set of gap indices (gap k is before token k; gap len(tokens) is the tail).
    [keep]: gap indices that must be copied unchanged.
    Returns (new_text, new_starts) with the new start offset of every token.
    """
    out = []
    pos = 0
    starts = []
    prev_end = 0
    ntok = len(tokens)
    for k in range(ntok + 1):
        a = tokens[k][1] if k < ntok else len(text)
        gap = text[prev_end:a]
        change = (only is None or k in only) and k not in keep
        if not change:
            new = gap
        elif mode == 'strip':
            new = '' if gap == '' else rng.choice([' ', '\n'])
            if k == ntok:
                new = '\n'
        else:
            p = .9 if mode == 'dense' else .08
            if rng.random() < p:
                pieces = [random_piece(rng) for _ in range(rng.randrange(1, 4))]
                new = ''
                for pc in pieces:
                    new += _join_piece(new or ''.join(out[-1:]), pc)
                if rng.random() < .5 and gap:
                    new = gap + _join_piece(gap, new) if rng.random() < .5 else new + _join_piece(new, gap)
                if k < ntok and new and new[-1] in '-/*' and text[a] in '-/*':
                    new += ' '
            elif gap:
                new = gap if rng.random() < .5 else ' '
            else:
                new = ''
            if k == ntok and not new.endswith('\n'):
                new += '\n'
        out.append(new)
        pos += len(new)
        if k < ntok:
            starts.append(pos)
            tok = text[a:tokens[k][2]]
            out.append(tok)
            pos += len(tok)
            prev_end = tokens[k][2]
    return ''.join(out), starts


# ---------------------------------------------------------------------------
# Generated modules

def gen_module(rng):
    """A module that uses every multi-word keyword of the grammar, literals that contain comment delimiters,
    and comments of its own."""
    name = rng.choice(['M', 'Gen-Module', 'Foo1'])
    tags = rng.choice(['', 'AUTOMATIC TAGS ', 'IMPLICIT TAGS ', 'EXPLICIT TAGS ', 'EXTENSIBILITY IMPLIED ',
                       'AUTOMATIC TAGS EXTENSIBILITY IMPLIED '])
    cstr = rng.choice(['"x--y"', '"a /* b"', '"*/ c"', '"q-uote"', '"-- not a comment"', '""', '"/*"',
                       '"a -- b -- c"', '"x"'])
    items = [
        'A ::= OCTET STRING',
        'B ::= BIT STRING { first(0), second(1) } (SIZE (1..16))',
        'C ::= OBJECT IDENTIFIER',
        'D ::= SEQUENCE { a INTEGER (-5..5) DEFAULT -1, b BOOLEAN OPTIONAL, c OCTET STRING (SIZE (4)), ... }',
        'E ::= ENUMERATED { red(0), green(1), ..., blue(2) }',
        'F ::= CHOICE { x [0] INTEGER, y [1] IA5String (SIZE (1..8)), ..., z [2] NULL }',
        'G ::= SEQUENCE (SIZE (1..4)) OF D',
        'H ::= D (WITH COMPONENTS { ..., a PRESENT, b ABSENT })',
        'I ::= SEQUENCE OF INTEGER (WITH COMPONENT (0..9))',
        'J ::= SEQUENCE { COMPONENTS OF D, k CHARACTER STRING }',
        'K ::= SET { a [APPLICATION 3] IMPLICIT INTEGER, b [PRIVATE 4] EXPLICIT REAL, c ANY DEFINED BY a }',
        'L ::= OCTET STRING (CONSTRAINED BY { })',
        'N ::= SEQUENCE { a INTEGER, ..., [[ b BOOLEAN, c NULL ]], ..., d BIT STRING }',
        'O ::= INTEGER { one(1), two(2) } (1 | 2, ...)',
        'P ::= OCTET STRING (CONTAINING D)',
        'Q ::= IA5String (FROM ("a".."z") ^ SIZE (1..MAX))',
        'OC ::= CLASS { &id INTEGER UNIQUE, &Type OPTIONAL } WITH SYNTAX { ID &id [TYPE &Type] }',
        'str1 IA5String ::= ' + cstr,
        'str2 UTF8String ::= ' + rng.choice(['"x--y"', '"/* */"', '"--"', '"a--"']),
        'int1 INTEGER ::= ' + rng.choice(['-5', '0', '12345678901234567890']),
        "oct1 OCTET STRING ::= '0123ABCD'H",
        "bit1 BIT STRING ::= '0101'B",
        'oid1 OBJECT IDENTIFIER ::= { iso(1) member-body(2) 840 }',
        'bool1 BOOLEAN ::= TRUE',
        'seq1 D ::= { a 3, c \'00112233\'H }',
        'r1 REAL ::= 1.5',
    ]
    rng.shuffle(items)
    items = items[:rng.randrange(3, len(items) + 1)]
    imports = rng.choice(['', 'IMPORTS X, Y FROM Other-Module { iso 2 3 } Z FROM Third;\n',
                          'IMPORTS X FROM Other WITH SUCCESSORS;\n', 'EXPORTS ALL;\n'])
    lines = ['%s DEFINITIONS %s::= BEGIN' % (name, tags)]
    if imports:
        lines.append(imports.rstrip('\n'))
    for it in items:
        if rng.random() < .3:
            lines.append(rng.choice(['-- a comment', '/* block\n   comment */', '-- "quote - x', '/* /* nested */ */']))
        lines.append(it + (rng.choice(['', ' -- trailing', ' /* t */']) if rng.random() < .3 else ''))
    lines.append('END')
    return '\n'.join(lines) + '\n'


# ---------------------------------------------------------------------------
# At most MAX_PER_CATEGORY violations are written out per category; the rest is counted.

MAX_PER_CATEGORY = 3
_reported = {}


def may_report(ctx, category):
    _reported[category] = _reported.get(category, 0) + 1
    if _reported[category] > MAX_PER_CATEGORY:
        ctx.count('violations-not-listed:' + category)
        return False
    return True


# ---------------------------------------------------------------------------
# Running the library

def _parse_job(text):
    return lib.attempt(asn1tools.parse_string, text)


_pool = None


def pool(ctx):
    global _pool
    if _pool is None:
        workers = 8 if ctx.quick else 14
        _pool = multiprocessing.get_context('fork').Pool(workers)
    return _pool


def parse_many(ctx, texts):
    return pool(ctx).map(_parse_job, texts, chunksize=1)


def impl_outcome(s):
    try:
        return ('ok', ignore_comments(s))
    except (ParseSyntaxException, ParseException) as e:
        if 'single line' in e.msg:
            return ('line', e.loc)
        if 'multi line' in e.msg:
            return ('block', e.loc)
        return ('foreign', 'ParseException:' + e.msg)
    except Exception as e:  # noqa
        return ('foreign', type(e).__name__)


def outcome_code(out, alphabet, length):
    b = len(alphabet) + 1
    if out[0] == 'ok':
        if len(out[1]) != length:
            return b ** length + 6000
        code = 0
        for k, ch in enumerate(out[1]):
            code += (alphabet.index(ch) if ch in alphabet else len(alphabet)) * b ** k
        return code
    if out[0] == 'line':
        return b ** length + out[1]
    if out[0] == 'block':
        return b ** length + 1000 + out[1]
    return b ** length + 5000      # a foreign exception: matches no model outcome


def parse_error_line(msg):
    m = re.search(r'at line (\d+), column (\d+)', msg) or re.search(r'at line (\d+)', msg)
    return int(m.group(1)) if m else None


# ---------------------------------------------------------------------------
# 4. correspondence

ALPHA = ['-', '/', '*', '\n', '"', 'a', ' ']
ALPHA_WIDE = ['-', '/', '*', '\n', '"', 'a', ' ', '\t', '\r', '-', '*', '/', '\n', '"', 'b', '\xe9', ' ', "'"]


def nth_string(alphabet, length, n):
    out = []
    b = len(alphabet)
    for _ in range(length):
        out.append(alphabet[n % b])
        n //= b
    return ''.join(out)


def lcg_string(alphabet, length, x):
    out = []
    for _ in range(length):
        x = (x * 1103515245 + 12345) % 2147483648
        out.append(alphabet[(x // 65536) % len(alphabet)])
    return ''.join(out)


def coq_codes(alphabet):
    return to_coq([ord(c) for c in alphabet])


def model_outcomes(ctx, name, strings):
    """Outcome of both models (repaired, unrepaired) on a few strings, for reports."""
    body = ''.join('Eval vm_compute in (ignore_comments %s, ignore_comments_orig %s).\n' % (
        to_coq([ord(c) for c in s]), to_coq([ord(c) for c in s])) for s in strings)
    res = ctx.coq_eval(name, IMPORTS, body)

    def show(o):
        if isinstance(o, common.C) and o.name == 'Blanked':
            return ('ok', ''.join(chr(c) for c in o.args[0]))
        if isinstance(o, common.C):
            return ({'MissingLineEnd': 'line', 'MissingBlockEnd': 'block'}.get(o.name, o.name), o.args[0])
        return repr(o)
    return [(show(a), show(b)) for a, b in res]


def report_scan_mismatches(ctx, name, strings):
    """[strings]: inputs on which implementation and model differ (shortest first)."""
    strings = sorted(set(strings), key=lambda s: (len(s), s))
    ctx.count('corr:mismatching-strings', len(strings))
    shown = strings[:3]
    for s, (fixed, orig) in zip(shown, model_outcomes(ctx, name, shown)):
        impl = impl_outcome(s)
        hint = ''
        if impl == orig and impl != fixed:
            hint = (' [the implementation behaves like the UNREPAIRED scanner here: is '
                    'proposed_fixes/C14-scanner.diff applied?]')
        ctx.violation('ignore_comments(%r) = %r but the model (repaired scanner) gives %r%s; %d mismatching '
                      'strings in this sweep' % (s, impl, fixed, hint, len(strings)),
                      dict(kind='corr-scan', text=s, impl=repr(impl), model=repr(fixed), model_unrepaired=repr(orig)))


FP_P1 = 2 ** 31 - 1
FP_P2 = 2 ** 61 - 1


def _fold(k, x):
    p = (1 << k) - 1
    y = (x & p) + (x >> k)
    return (y & p) + (y >> k)


def fp_fold(codes, r1, r2):
    """The same function as Lex/Comments.v [fp_step] folded over the codes."""
    a1 = a2 = 0
    for c in codes:
        a1 = _fold(31, a1 * r1 + c + 1)
        a2 = _fold(61, a2 * r2 + c + 1)
    return (a1, a2)


def corr_exhaustive(ctx, max_len, block=2048, blocks_per_job=12):
    """Every string of length <= max_len over ALPHA.  Model and implementation are both evaluated on every
    string; they are compared per block by two polynomial fingerprints with random bases (a block that differs is
    then listed string by string)."""
    r1, r2 = ctx.rng.randrange(2, FP_P1), ctx.rng.randrange(2, FP_P2)
    jobs = []
    for length in range(0, max_len + 1):
        total = len(ALPHA) ** length
        blocks = [(lo, min(block, total - lo)) for lo in range(0, total, block)]
        for i in range(0, len(blocks), blocks_per_job):
            jobs.append((length, blocks[i:i + blocks_per_job]))

    def impl_codes(length, lo, cnt):
        return [outcome_code(impl_outcome(nth_string(ALPHA, length, n)), ALPHA, length) for n in range(lo, lo + cnt)]

    def body_of(job):
        length, blocks = job
        return ('Eval vm_compute in sweep_fps cfg_fixed %s %d%%nat %s %s %s.\n'
                % (coq_codes(ALPHA), length, to_coq(r1), to_coq(r2), to_coq(blocks)))

    # short lengths in one file (also makes sure the model is built before the parallel part)
    small = [j for j in jobs if j[0] <= 4]
    big = [j for j in jobs if j[0] > 4]
    results = {}
    res = ctx.coq_eval('sweep_small', IMPORTS, ''.join(body_of(j) for j in small))
    for j, r in zip(small, res):
        results[id(j)] = r

    def run(idx_job):
        idx, job = idx_job
        (r,) = ctx.coq_eval('sweep_%d_%d' % (job[0], idx), IMPORTS, body_of(job))
        return r
    with ThreadPoolExecutor(max_workers=6 if ctx.quick else 12) as ex:
        for j, r in zip(big, ex.map(run, enumerate(big))):
            results[id(j)] = r
    bad_blocks = []
    for job in jobs:
        length, blocks = job
        for (lo, cnt), fp in zip(blocks, results[id(job)]):
            ctx.case(('sweep', length), n=cnt)
            ctx.count('corr:exhaustive:len%d' % length, cnt)
            if tuple(fp) != fp_fold(impl_codes(length, lo, cnt), r1, r2):
                bad_blocks.append((length, lo, cnt))
    bad = []
    for length, lo, cnt in bad_blocks[:4]:
        (codes,) = ctx.coq_eval('sweep_list', IMPORTS, 'Eval vm_compute in sweep_codes cfg_fixed %s %d%%nat (Z.to_nat %s) %s.\n'
                                % (coq_codes(ALPHA), length, to_coq(cnt), to_coq(lo)))
        for n, (m, i) in enumerate(zip(codes, impl_codes(length, lo, cnt))):
            if m != i:
                bad.append(nth_string(ALPHA, length, lo + n))
    ctx.log('exhaustive correspondence up to length %d: %d strings, %d of %d blocks differ'
            % (max_len, sum(len(ALPHA) ** k for k in range(max_len + 1)), len(bad_blocks),
               sum(len(j[1]) for j in jobs)))
    if bad_blocks:
        ctx.count('corr:exhaustive:blocks-differ', len(bad_blocks))
        report_scan_mismatches(ctx, 'sweep_report', bad)


def lcg(x):
    return (x * 1103515245 + 12345) % 2147483648


def rand_len(x):
    u = (x // 65536) % 100
    v = x // 7
    return 8 + v % 9 if u < 50 else 17 + v % 24 if u < 85 else 41 + v % 80


def corr_random(ctx, n, block=100):
    """Seeded pseudo-random strings of length 8..120, generated identically in Coq and here."""
    r1, r2 = ctx.rng.randrange(2, FP_P1), ctx.rng.randrange(2, FP_P2)
    jobs = []
    for alphabet, tag in ((ALPHA, 'a7'), (ALPHA_WIDE, 'wide')):
        x = ctx.rng.randrange(1, 2 ** 31)
        blocks = []
        for _ in range(0, n, block):
            cases = []
            x0 = x
            for _ in range(block):
                x = lcg(x)
                length = rand_len(x)
                s = lcg_string(alphabet, length, x)
                out = impl_outcome(s)
                cases.append((s, out, outcome_code(out, alphabet, length)))
                ctx.case(('rand', tag, length, out[0]), dict(kind='corr-scan', text=s[:60], impl=repr(out)[:80]))
                ctx.count('corr:random:%s:%s' % (tag, out[0]))
            blocks.append((x0, cases))
        for i in range(0, len(blocks), 10):
            jobs.append((alphabet, tag, i, blocks[i:i + 10]))

    def run(job):
        alphabet, tag, idx, blocks = job
        body = ('Eval vm_compute in rand_fps cfg_fixed %s %s %s %s.\n'
                % (coq_codes(alphabet), to_coq(r1), to_coq(r2), to_coq([(x0, len(cs)) for x0, cs in blocks])))
        (r,) = ctx.coq_eval('rand_%s_%d' % (tag, idx), IMPORTS, body)
        return r
    with ThreadPoolExecutor(max_workers=6 if ctx.quick else 12) as ex:
        results = list(ex.map(run, jobs))
    bad_blocks = []
    for (alphabet, tag, idx, blocks), fps in zip(jobs, results):
        for (x0, cases), fp in zip(blocks, fps):
            if tuple(fp) != fp_fold([c[2] % FP_P2 for c in cases], r1, r2):
                bad_blocks.append((alphabet, x0, cases))
    bad = []
    for alphabet, x0, cases in bad_blocks[:3]:
        (outs,) = ctx.coq_eval('rand_list', IMPORTS, 'Eval vm_compute in rand_outcomes cfg_fixed %s (Z.to_nat %s) %s.\n'
                               % (coq_codes(alphabet), to_coq(len(cases)), to_coq(x0)))
        for o, (s, out, code) in zip(outs, cases):
            if isinstance(o, common.C) and o.name == 'Blanked':
                m = ('ok', ''.join(chr(c) for c in o.args[0]))
            else:
                m = ({'MissingLineEnd': 'line', 'MissingBlockEnd': 'block'}[o.name], o.args[0])
            if m != out:
                bad.append(s)
    ctx.log('random long strings: %d cases, %d of %d blocks differ'
            % (sum(len(cs) for j in jobs for _, cs in j[3]), len(bad_blocks), sum(len(j[3]) for j in jobs)))
    if bad_blocks:
        ctx.count('corr:random:blocks-differ', len(bad_blocks))
        report_scan_mismatches(ctx, 'rand_report', bad)


# ---------------------------------------------------------------------------
# 3. witnesses of the refuted lemmas, known findings

MODULE = 'M DEFINITIONS ::= BEGIN\n%s\nEND\n'

WITNESSES = [
    # (id, lemma, description, kind, payload)
    ('block-comment-newlines', 'C14_blank_keeps_lineno_refuted',
     'a /* */ comment that contains newlines must keep them when it is blanked',
     'scan', ('/*\n*/x', '  \n  x')),
    ('block-comment-error-line', 'C14_blank_keeps_lineno_refuted',
     'a syntax error after a /* */ comment with newlines is reported on its own line',
     'errline', (MODULE % '/* a\nb\nc */\nA ::= INTEGR }', 5)),
    ('cstring-dashes-scan', 'C14_string_literals_untouched_refuted',
     'a pair of hyphens inside a character string literal is not a comment',
     'scan', ('"--"\n', '"--"\n')),
    ('cstring-dashes-accept', 'C14_string_literal_acceptance_refuted',
     'a character string value that contains -- or /* is accepted with its text intact',
     'parse-value', (MODULE % 'a IA5String ::= "x--y"\nb IA5String ::= "p /* q"', {'a': 'x--y', 'b': 'p /* q'})),
    ('keyword-split-newline', 'C14_keyword_literal_layout_refuted',
     'the words of OCTET STRING may be separated by a newline',
     'parse-same', (MODULE % 'A ::= OCTET STRING', MODULE % 'A ::= OCTET\nSTRING')),
    ('keyword-split-comment', 'C14_keyword_literal_layout_refuted',
     'the words of WITH COMPONENTS / BIT STRING may be separated by comments and tabs',
     'parse-same', (MODULE % 'A ::= SEQUENCE { a BIT STRING } B ::= A (WITH COMPONENTS { a PRESENT })',
                    MODULE % 'A ::= SEQUENCE { a BIT/**/STRING } B ::= A (WITH -- c\n\tCOMPONENTS { a PRESENT })')),
]


def run_witness(kind, payload):
    """None when /repo behaves as required, else a description of what it did."""
    if kind == 'scan':
        s, want = payload
        got = impl_outcome(s)
        return None if got == ('ok', want) else 'ignore_comments(%r) -> %r, expected %r' % (s, got, ('ok', want))
    if kind == 'errline':
        text, line = payload
        r = lib.attempt(asn1tools.parse_string, text)
        if r[0] == 'err' and r[1] == 'parse' and parse_error_line(r[2]) == line:
            return None
        return 'parse_string reports %r, expected a ParseError at line %d' % (r[1:] if r[0] == 'err' else 'success', line)
    if kind == 'parse-value':
        text, values = payload
        r = lib.attempt(asn1tools.parse_string, text)
        if r[0] == 'ok':
            vals = list(r[1].values())[0]['values']
            got = {k: vals.get(k, {}).get('value') for k in values}
            return None if got == values else 'values parsed as %r, expected %r' % (got, values)
        return 'parse_string raises %s: %s' % (r[1], r[2][:200])
    if kind == 'parse-same':
        a, b = payload
        ra, rb = lib.attempt(asn1tools.parse_string, a), lib.attempt(asn1tools.parse_string, b)
        if ra[0] == 'ok' and ra == rb:
            return None
        return 'parse_string(layout 1) = %s but parse_string(layout 2) = %s' % (
            'ok' if ra[0] == 'ok' else ra[1:], ('a different result' if rb[0] == 'ok' else '%s: %s' % (rb[1], rb[2][:160])))
    raise ValueError(kind)


def witnesses(ctx):
    for wid, lemma, what, kind, payload in WITNESSES:
        bad = run_witness(kind, payload)
        ctx.case(('witness', wid), dict(kind='witness', id=wid))
        ctx.count('witness:' + ('defect-present' if bad else 'repaired'))
        if bad:
            ctx.violation('%s (witness of %s): %s' % (what, lemma, bad),
                          dict(kind='witness', id=wid, lemma=lemma, witness_kind=kind, payload=payload))


def known_findings(ctx):
    for f in common.load_findings('C14'):
        w = f['witness']
        bad = run_witness(w['kind'], tuple(w['payload']))
        ctx.case(('finding', f['id']))
        if bad:
            ctx.known_finding(f['id'], f['what'])
        else:
            ctx.log('known finding %s does not reproduce any more' % f['id'])


# ---------------------------------------------------------------------------
# 5. property tests

def corpus_files(ctx):
    files = sorted(glob.glob(os.path.join(common.REPO, 'tests', 'files', '**', '*.asn'), recursive=True))
    out = []
    for f in files:
        try:
            text = open(f, encoding='utf-8', errors='replace').read()
        except OSError:
            continue
        out.append((os.path.relpath(f, common.REPO), text))
    return out


def pt_scanner(ctx, name, text):
    """ignore_comments on /repo against the independent scanner.  Returns the tokens (or None)."""
    try:
        tokens, comments, stray = scan(text)
    except LexError as e:
        ctx.count('pt:scan:lex-error')
        return None
    if stray:
        ctx.count('pt:scan:stray-asterisk')
        return None
    got = impl_outcome(text)
    want = ('ok', spec_blank(text, comments))
    ctx.evaluations += 1
    if got != want and may_report(ctx, 'pt-scan'):
        k = next((i for i, (x, y) in enumerate(zip(got[1], want[1])) if x != y), None) if got[0] == 'ok' else None
        ctx.violation('ignore_comments differs from X.680 blanking on %s%s' % (
            name, '' if k is None else ' at offset %d (line %d): %r vs %r' % (
                k, text.count('\n', 0, k) + 1, got[1][max(0, k - 20):k + 20], want[1][max(0, k - 20):k + 20])),
            dict(kind='pt-scan', name=name, text=text if len(text) < 2000 else None,
                 impl=repr(got)[:300] if got[0] != 'ok' else None, offset=k))
    return tokens


def shrink_layout(ctx, text, tokens, seed, mode, base):
    """Find a single gap whose relayout alone changes the result (best effort)."""
    import random
    gaps = list(range(len(tokens) + 1))

    def differs(only):
        new, _ = relayout(text, tokens, random.Random(seed), mode, only=set(only))
        return lib.attempt(asn1tools.parse_string, new) != base, new
    steps = 0
    while len(gaps) > 1 and steps < 24:
        steps += 1
        half = gaps[:len(gaps) // 2]
        d, _ = differs(half)
        if d:
            gaps = half
            continue
        rest = gaps[len(gaps) // 2:]
        d, _ = differs(rest)
        if d:
            gaps = rest
            continue
        break
    d, new = differs(gaps)
    return (gaps, new) if d else (None, None)


def pt_relayout(ctx, sources, variants):
    """parse_string(text) == parse_string(relayout(text))."""
    import random
    rng = ctx.rng
    work = []
    for name, text in sources:
        tokens = pt_scanner(ctx, name, text)
        if tokens is None:
            continue
        work.append((name, text, tokens))
    base = parse_many(ctx, [w[1] for w in work])
    jobs = []
    for (name, text, tokens), b in zip(work, base):
        if b[0] != 'ok':
            ctx.count('pt:relayout:skipped-does-not-parse')
            continue
        for mode in variants:
            seed = rng.randrange(1, 2 ** 31)
            new, _ = relayout(text, tokens, random.Random(seed), mode)
            jobs.append((name, text, tokens, b, mode, seed, new))
    for j in jobs:
        pt_scanner(ctx, j[0] + ':' + j[4], j[6])
    results = parse_many(ctx, [j[6] for j in jobs])
    for (name, text, tokens, b, mode, seed, new), r in zip(jobs, results):
        kws = sum(1 for t in tokens if text[t[1]:t[2]] in ('OCTET', 'BIT', 'WITH', 'OBJECT', 'COMPONENTS', 'CHARACTER',
                                                           'CONSTRAINED', 'ANY', 'EXTENSIBILITY'))
        ctx.case(('relayout', name, mode), dict(kind='pt-relayout', name=name, mode=mode, seed=seed,
                                                tokens=len(tokens), new_len=len(new)))
        ctx.count('pt:relayout:%s' % mode)
        ctx.count('pt:relayout:multi-word-keyword-heads', kws)
        if r != b and may_report(ctx, 'pt-relayout:' + ('corpus' if name.startswith('tests') else 'generated')):
            gaps, small = shrink_layout(ctx, text, tokens, seed, mode, b)
            detail = ''
            rep = dict(kind='pt-relayout', name=name, mode=mode, seed=seed,
                       text=text if len(text) < 3000 else None)
            if gaps is not None and len(gaps) == 1:
                k = gaps[0]
                a = tokens[k - 1] if k > 0 else None
                z = tokens[k] if k < len(tokens) else None
                left = text[a[1]:a[2]] if a else ''
                right = text[z[1]:z[2]] if z else ''
                old_gap = text[(a[2] if a else 0):(z[1] if z else len(text))]
                rs = lib.attempt(asn1tools.parse_string, small)
                detail = ' -- changing only the layout between %r and %r (was %r) gives %s' % (
                    left, right, old_gap, 'a different result' if rs[0] == 'ok' else '%s: %s' % (rs[1], rs[2][:200]))
                rep.update(gap=k, left=left, right=right, old_gap=old_gap)
            ctx.violation('parse_string(%s) != parse_string(relayout %s seed %d): %s%s' % (
                name, mode, seed, 'different result' if r[0] == 'ok' else '%s: %s' % (r[1], r[2][:200]), detail), rep)


ERROR_TOKENS = ['::=', '}', ')', 'BEGIN', ',', '"oops"']


def pt_error_lines(ctx, sources, per_source):
    """A syntax error injected at a known token is reported with the line of that token, whatever comments and
    newlines precede it.  Differential: the reference layout (comments removed) fixes the offset the error is
    reported at relative to the tokens; the layout is then changed everywhere before that place."""
    import random
    rng = ctx.rng
    cands = []
    for name, text in sources:
        try:
            tokens, _, stray = scan(text)
        except LexError:
            continue
        if stray or len(tokens) < 12:
            continue
        for _ in range(per_source):
            k = rng.randrange(6, len(tokens))
            bogus = rng.choice(ERROR_TOKENS)
            a = tokens[k][1]
            broken = text[:a] + bogus + ' ' + text[a:]
            try:
                btoks, _, _ = scan(broken)
            except LexError:
                continue
            ref, rstarts = relayout(broken, btoks, random.Random(1), 'strip')
            cands.append((name, k, bogus, btoks, ref, rstarts))
    refs = parse_many(ctx, [c[4] for c in cands])
    jobs = []
    for (name, k, bogus, btoks, ref, rstarts), r0 in zip(cands, refs):
        if r0[0] != 'err' or r0[1] != 'parse':
            ctx.count('pt:errline:not-an-error')
            continue
        m = re.search(r'at line (\d+), column (\d+)', r0[2])
        if not m:
            ctx.count('pt:errline:no-position')
            continue
        line0, col0 = int(m.group(1)), int(m.group(2))
        lines = ref.split('\n')
        off0 = sum(len(x) + 1 for x in lines[:line0 - 1]) + col0 - 1
        # the error is reported in the gap before, or at the start of, token e
        e = next((i for i, s in enumerate(rstarts) if s >= off0), None)
        if e is None:
            ctx.count('pt:errline:at-end')
            continue
        seed = rng.randrange(1, 2 ** 31)
        rtoks = [(t[0], s, s + (t[2] - t[1])) for t, s in zip(btoks, rstarts)]
        new, starts = relayout(ref, rtoks, random.Random(seed), 'dense', only=set(range(0, e)))
        off = starts[e] - (rstarts[e] - off0)          # the gap before token e is unchanged
        want = new.count('\n', 0, off) + 1
        jobs.append((name, k, bogus, new, want, line0))
    # the line in the message of the ENUMERATED parse action
    for _ in range(per_source * 2):
        pre = ''.join(random_piece(rng) for _ in range(rng.randrange(1, 6)))
        text = 'M DEFINITIONS ::= BEGIN%s\nE ::= ENUMERATED { a(0), b(0) }\nEND\n' % _join_piece('N', pre)
        jobs.append(('enum', 0, 'duplicated number', text, text.count('\n', 0, text.index('E ::=')) + 1, 1))
    results = parse_many(ctx, [j[3] for j in jobs])
    for (name, k, bogus, new, want, line0), r in zip(jobs, results):
        got = parse_error_line(r[2]) if r[0] == 'err' and r[1] == 'parse' else None
        ctx.case(('errline', name, k, bogus), dict(kind='pt-errline', name=name, token=k, bogus=bogus, line=want))
        ctx.count('pt:errline:%s' % ('lines-inserted-before' if want > line0 else 'same-line'))
        if got != want and may_report(ctx, 'pt-errline'):
            ctx.violation('syntax error at line %d of the text is reported as %s (%s)' % (
                want, 'line %r' % got if got else 'no ParseError', (r[2] if r[0] == 'err' else 'parsed')[:200]),
                dict(kind='pt-errline', text=new if len(new) < 6000 else None, line=want, reported=got, name=name))


# ---------------------------------------------------------------------------

def replay(ctx):
    doc = json.load(open(ctx.replay))
    r = doc['replay']
    kind = r.get('kind')
    print('replaying', kind, '--', doc.get('what', '')[:300])
    if kind == 'corr-scan':
        print('ignore_comments(%r) -> %r' % (r['text'], impl_outcome(r['text'])))
        print('model (repaired) said %s, model (unrepaired) %s' % (r.get('model'), r.get('model_unrepaired')))
    elif kind == 'witness':
        print(run_witness(r['witness_kind'], tuple(r['payload'])) or 'behaves as required now')
    elif kind == 'pt-scan' and r.get('text') is not None:
        toks, comments, _ = scan(r['text'])
        print('impl:', impl_outcome(r['text']))
        print('spec:', ('ok', spec_blank(r['text'], comments)))
    elif kind == 'pt-relayout':
        import random
        text = r.get('text')
        if text is None:
            text = open(os.path.join(common.REPO, r['name']), encoding='utf-8', errors='replace').read()
        tokens, _, _ = scan(text)
        only = {r['gap']} if 'gap' in r else None
        new, _ = relayout(text, tokens, random.Random(r['seed']), r['mode'], only=only)
        a, b = lib.attempt(asn1tools.parse_string, text), lib.attempt(asn1tools.parse_string, new)
        print('same result' if a == b else 'DIFFERENT: %r' % (b[1:] if b[0] == 'err' else 'other dict',))
    elif kind == 'pt-errline':
        rr = lib.attempt(asn1tools.parse_string, r['text'])
        print('expected line', r['line'], 'got', rr[1:] if rr[0] == 'err' else 'parsed')
    else:
        print(json.dumps(r, indent=1)[:2000])


def run(ctx):
    if ctx.replay:
        return replay(ctx)
    ctx.rule = ('scanner cases: every string of length <= L over {- / * LF " a SP} (distinct by length) and seeded '
                'pseudo-random strings of length 8..120 over two alphabets (distinct by alphabet, length, outcome '
                'class); PT cases: (fixture file or generated module) x layout mode (strip = comments removed, dense = '
                'white space and all three comment kinds at every token boundary incl. inside multi-word keywords, '
                'sparse); error-line cases: (text, injected token, position); non-trivial = contains a comment '
                'delimiter, a literal or a changed layout')
    ctx.assumptions += [
        'C14_layout_invariance is relative to the hypothesis grammar_lexical (pyparsing is not modelled: the grammar '
        'depends only on the tokens that a comment-unaware scanner with pyparsing white space finds in the blanked '
        'text); the hypothesis is what the relayout property test exercises on /repo',
        'Lex/Lexical.v: end of line = LINE FEED only; VT/FF/bare CR are outside the proved statement (hypothesis '
        'vtff_free / known finding x680-vt-ff-cr)',
        'the model is of the REPAIRED scanner and keyword construction (proposed_fixes/C14-*.diff)',
    ]
    ctx.trusted_base += [
        'translator/keywords.py (Python ast -> coq/gen/Keywords.v, fail-closed)',
        'harness/c14.py independent X.680 scanner (scan/spec_blank) used as oracle for large texts',
        'pyparsing grammar of asn1tools/parser.py as an oracle (section hypothesis grammar_lexical)',
    ]
    # 1. regenerate the keyword table
    try:
        kwtrans.regenerate(common.REPO, common.COQ)
        info = kwtrans.extract(common.REPO)
        ctx.obligation('translator:keywords', True, '%d single-word, %d multi-word keywords, %d scanner events' % (
            len(info['single']), len(info['multi']), len(info['alternatives'])))
        ctx.extra['multi_word_keywords'] = [[t, f] for t, f in info['multi']]
    except kwtrans.TranslationError as e:
        ctx.obligation('translator:keywords', False, str(e))
        ctx.violation('translator/keywords.py cannot translate asn1tools/parser.py: %s' % e,
                      {'translator': 'keywords', 'error': str(e)}, no_input=True)
        info = None
    # 2. theorems
    ok = ctx.coq_props()
    # 3. witnesses, known findings
    ctx.log('theorems %s' % ('checked' if ok else 'NOT checked'))
    witnesses(ctx)
    known_findings(ctx)
    # 4. correspondence
    corr_exhaustive(ctx, 6 if ctx.quick else 7)
    corr_random(ctx, 500 if ctx.quick else 5000)
    # 5. property tests
    corpus = corpus_files(ctx)
    corpus_pt = [(n, t) for n, t in corpus if len(t) < 60000] if ctx.quick else corpus
    gen = [('generated-%d' % i, gen_module(ctx.rng)) for i in range(30 if ctx.quick else 400)]
    pt_relayout(ctx, corpus_pt, ['strip', 'dense'] if ctx.quick else ['strip', 'dense', 'dense', 'sparse', 'dense'])
    ctx.log('relayout of %d fixture files done' % len(corpus_pt))
    pt_relayout(ctx, gen, ['strip', 'dense', 'dense'] if ctx.quick else ['strip', 'dense', 'dense', 'dense', 'sparse'])
    ctx.log('relayout of %d generated modules done' % len(gen))
    small = [(n, t) for n, t in corpus if len(t) < 6000]
    pt_error_lines(ctx, gen[:12 if ctx.quick else 150] + small[:6 if ctx.quick else 40], 2 if ctx.quick else 4)
    ctx.log('error lines done')
    if _pool is not None:
        _pool.close()
    if not ok:
        common.proof_broken(ctx)
