"""C20 — GSER output is well-formed value notation that determines the value.

  proofs   coq/theories/Props/C20.v (read-back and injectivity over the shared universe)
  corr     asn1tools/codecs/gser.py text == Gser/GserImpl.v text on generated (type, value, indent);
           on the same cases: the Coq RFC 3641 reader on /repo's text, Coq norm == Python abstract
           value, every generated case inside in_scope; error classes on ill-shaped values
  PT       /repo text through the independent Python reader (c20_reader.py): whole text consumed,
           same abstract value; REAL (special and finite) covered here only
  probe    injectivity: different abstract values of one type must give different text
"""
import json
import os

import common
from common import C, Nat, to_coq
import lib
import gen_asn1
import c20_reader as rdr

INDENTS = (None, 0, 2, 4)
CASE_TAG = os.environ.get('C20_CASE_TAG', '')      # scratch runs side by side use different case files
FUEL = 60
IMPORTS = ['Base.Prelude', 'Base.Corr', 'Syntax.Asn1', 'Gser.Chars', 'Gser.GserImpl', 'Gser.Gser3641',
           'Gser.GserSpec']

ODD_STRINGS = ['"', '""', 'x" y', 'a""b', '"\n"', '', ' ', ' "', '" ', 'a", "b', 'a",\n  "b', '\x00"\x7f',
               'é"€', '"\U0001f600"', '}', ', x 1 }', "'00'H", 'TRUE', '߿ࠀ￿\U00010000\U0010ffff',
               'tab\there', '{ "', '""""""']

COQ_CHECK = '''
Definition dial (i : option nat) : dialect := match i with None => rfc3641_colon | Some _ => x680_ws end.
Definition errcode (er : err) : Z :=
  match er with EEncode => -1 | EForeign _ => -2 | EFuel => -3 | _ => -4 end.
Definition check (e : env) (c : (string * value * option nat) * (list Z * value)) : Z :=
  let '((n, v, i), (exp, pv)) := c in
  match encode %d e n (TRef n) v i with
  | Ok t =>
    if negb (zlist_eqb (map zc t) exp) then 1
    else if negb (in_scope %d e (TRef n) v) then 2
    else match read_top (dial i) %d e n (TRef n) (map ch exp) with
         | Some v' => if negb (value_eqb v' (norm %d e (TRef n) v)) then 4
                      else if negb (value_eqb v' pv) then 5 else 0
         | None => 3
         end
  | Err er => if zlist_eqb [errcode er] exp then (if in_scope %d e (TRef n) v then 6 else 0) else 7
  end.
Definition show (e : env) (c : string * value * option nat) : list Z :=
  let '(n, v, i) := c in
  match encode %d e n (TRef n) v i with Ok t => map zc t | Err er => [errcode er] end.
''' % ((FUEL,) * 6)

CODES = {1: 'model text differs from gser.py text', 2: 'generated case outside in_scope (scope gap)',
         3: 'Coq RFC 3641 reader rejects gser.py text', 4: 'Coq reader result differs from Coq norm',
         5: 'Coq abstract value differs from the Python abstract value',
         6: 'encoder error on a value the model considers in scope', 7: 'error class differs'}


MAX_PER_KIND = 3
_reported = {}


def report(ctx, kind, what, replay):
    """At most MAX_PER_KIND violations of one kind are written out (one defect
    usually fails many generated cases); the rest are only counted."""
    _reported[kind] = _reported.get(kind, 0) + 1
    ctx.count('violations:' + kind)
    if _reported[kind] <= MAX_PER_KIND:
        ctx.violation(what, replay)


# ---------------------------------------------------------------------------
# generator layer

def members_of(t):
    return gen_asn1.all_members(t)


def complete(g, rt, t, v, depth=0):
    """GSER (a text codec) requires mandatory members of extension additions
    to be present; the shared generator leaves whole additions out."""
    t = rt(t)
    k = t['k']
    if k in ('SEQUENCE', 'SET'):
        out = {}
        for m in members_of(t):
            if m['name'] in v:
                out[m['name']] = complete(g, rt, m['t'], v[m['name']], depth + 1)
            elif m['opt'] is None:
                out[m['name']] = complete(g, rt, m['t'], g.gen_value(m['t'], depth=depth + 2), depth + 1)
        return out
    if k in ('SEQUENCE OF', 'SET OF'):
        return [complete(g, rt, t['elem'], x, depth + 1) for x in v]
    if k == 'CHOICE':
        by = {m['name']: m for m in t['root'] + (t['ext'] or [])}
        return (v[0], complete(g, rt, by[v[0]]['t'], v[1], depth + 1))
    return v


def spice(rng, rt, t, v, p=.35):
    """Adversarial leaves: strings with quotes, separators and non-ASCII
    characters (GSER does not look at the alphabet), BIT STRINGs with junk in
    the unused bits, empty strings."""
    t = rt(t)
    k = t['k']
    if k == 'STRING' and rng.random() < p:
        return rng.choice(ODD_STRINGS)
    if k == 'BIT STRING' and rng.random() < p:
        data, n = v
        if rng.random() < .3:
            return (b'', 0)
        if n % 8 and data:
            junk = rng.randrange(1 << (8 - n % 8))
            return (data[:-1] + bytes([data[-1] | junk]), n)
        return v
    if k == 'OCTET STRING' and rng.random() < p / 3:
        return b''
    if k in ('SEQUENCE', 'SET'):
        by = {m['name']: m for m in members_of(t)}
        return {n: spice(rng, rt, by[n]['t'], x, p) for n, x in v.items()}
    if k in ('SEQUENCE OF', 'SET OF'):
        return [spice(rng, rt, t['elem'], x, p) for x in v]
    if k == 'CHOICE':
        by = {m['name']: m for m in t['root'] + (t['ext'] or [])}
        return (v[0], spice(rng, rt, by[v[0]]['t'], v[1], p))
    return v


def py_norm(rt, t, v):
    """The abstract value (independent of the Coq [norm]): members in type
    order, DEFAULTs filled in, BIT STRING cut to its bits with the unused bits
    cleared."""
    t = rt(t)
    k = t['k']
    if k == 'BIT STRING':
        return gen_asn1.clean_bits(v, False)
    if k == 'OCTET STRING':
        return bytes(v)
    if k in ('SEQUENCE', 'SET'):
        out = {}
        for m in members_of(t):
            if m['name'] in v:
                out[m['name']] = py_norm(rt, m['t'], v[m['name']])
            elif m['opt'] not in (None, 'optional'):
                out[m['name']] = m['opt'][1]
        return out
    if k in ('SEQUENCE OF', 'SET OF'):
        return [py_norm(rt, t['elem'], x) for x in v]
    if k == 'CHOICE':
        by = {m['name']: m for m in t['root'] + (t['ext'] or [])}
        return (v[0], py_norm(rt, by[v[0]]['t'], v[1]))
    return v


def abstract_eq(rt, t, a, b):
    """Abstract equality; a named-bit BIT STRING is compared modulo trailing
    zero bits, a REAL by float equality (so -0.0 = 0.0)."""
    t = rt(t)
    k = t['k']
    if k == 'BIT STRING':
        named = bool(t.get('named'))
        return gen_asn1.clean_bits(a, named) == gen_asn1.clean_bits(b, named)
    if k in ('SEQUENCE', 'SET'):
        if not isinstance(a, dict) or not isinstance(b, dict) or set(a) != set(b):
            return False
        by = {m['name']: m for m in members_of(t)}
        return all(abstract_eq(rt, by[n]['t'], a[n], b[n]) for n in a)
    if k in ('SEQUENCE OF', 'SET OF'):
        return len(a) == len(b) and all(abstract_eq(rt, t['elem'], x, y) for x, y in zip(a, b))
    if k == 'CHOICE':
        by = {m['name']: m for m in t['root'] + (t['ext'] or [])}
        return a[0] == b[0] and abstract_eq(rt, by[a[0]]['t'], a[1], b[1])
    return type(a) == type(b) and a == b


def has_kind(rt, t, kind, seen=()):
    k = t['k']
    if k == kind:
        return True
    if k == 'REF':
        return t['name'] not in seen and has_kind(rt, rt(t), kind, seen + (t['name'],))
    if k in ('SEQUENCE', 'SET'):
        return any(has_kind(rt, m['t'], kind, seen) for m in members_of(t))
    if k == 'CHOICE':
        return any(has_kind(rt, m['t'], kind, seen) for m in t['root'] + (t['ext'] or []))
    if k in ('SEQUENCE OF', 'SET OF'):
        return has_kind(rt, t['elem'], kind, seen)
    return False


def value_has_choice(rt, t, v):
    t = rt(t)
    k = t['k']
    if k == 'CHOICE':
        return True
    if k in ('SEQUENCE', 'SET'):
        by = {m['name']: m for m in members_of(t)}
        return any(value_has_choice(rt, by[n]['t'], x) for n, x in v.items())
    if k in ('SEQUENCE OF', 'SET OF'):
        return any(value_has_choice(rt, t['elem'], x) for x in v)
    return False


def opts(rng):
    return gen_asn1.Opts(str_kinds=list(gen_asn1.STR_KINDS), tag_modes=['AUTOMATIC'],
                         max_depth=rng.choice([2, 3, 3, 4]), n_types=rng.choice([2, 4, 5]))


def gen_module(rng):
    mod, text, g = gen_asn1.generate(rng, opts(rng))
    return mod, text, g, gen_asn1.make_resolver(mod)


def gen_case_value(rng, g, rt, t):
    v = complete(g, rt, t, g.gen_value(t))
    return spice(rng, rt, t, v)


def vkey(v):
    return hash(repr(v)) & 0xffff


# ---------------------------------------------------------------------------
# REAL (not in the shared universe): hand-written module, PT only

REAL_TEXT = '''R DEFINITIONS AUTOMATIC TAGS ::= BEGIN
R0 ::= REAL
R1 ::= SEQUENCE { a REAL, b SEQUENCE OF REAL, c CHOICE { x REAL, s UTF8String } OPTIONAL, d REAL OPTIONAL }
R2 ::= SEQUENCE OF CHOICE { r REAL, i INTEGER, n NULL }
END
'''
_real = {'k': 'REAL'}
REAL_TYPES = {
    'R0': _real,
    'R1': {'k': 'SEQUENCE', 'root': [
        {'name': 'a', 't': _real, 'opt': None},
        {'name': 'b', 't': {'k': 'SEQUENCE OF', 'elem': _real, 'size': None}, 'opt': None},
        {'name': 'c', 't': {'k': 'CHOICE', 'root': [
            {'name': 'x', 't': _real, 'opt': None},
            {'name': 's', 't': {'k': 'STRING', 'sk': 'UTF8String', 'size': None, 'alpha': None}, 'opt': None}],
            'ext': None}, 'opt': 'optional'},
        {'name': 'd', 't': _real, 'opt': 'optional'}], 'ext': None},
    'R2': {'k': 'SEQUENCE OF', 'size': None, 'elem': {'k': 'CHOICE', 'root': [
        {'name': 'r', 't': _real, 'opt': None},
        {'name': 'i', 't': {'k': 'INTEGER', 'c': None, 'named': None}, 'opt': None},
        {'name': 'n', 't': {'k': 'NULL'}, 'opt': None}], 'ext': None}},
}


def real_in_finding_region(x):
    """Finite REALs whose repr(float) uses an exponent are written as
    malformed realnumber tokens (known finding real-repr-exponent); the
    generator keeps finite values to the positional repr range."""
    return x == x and abs(x) != float('inf') and 'e' in repr(x)


def gen_real(rng):
    p = rng.random()
    if p < .12:
        return float('inf')
    if p < .24:
        return float('-inf')
    if p < .34:
        return rng.choice([0.0, -0.0])
    while True:
        x = rng.choice([rng.uniform(-1000, 1000), rng.randrange(-10 ** 9, 10 ** 9) / 8.0,
                        rng.choice([1.5, 0.5, 0.1, 100.0, 0.25, 123456789.125, 1e15, 0.0001, 1.0, -2.0,
                                    0.30000000000000004, 9007199254740993.0])])
        if not real_in_finding_region(x):
            return x


def gen_real_value(rng, t):
    k = t['k']
    if k == 'REAL':
        return gen_real(rng)
    if k == 'SEQUENCE':
        return {m['name']: gen_real_value(rng, m['t']) for m in t['root']
                if m['opt'] is None or rng.random() < .5}
    if k == 'SEQUENCE OF':
        return [gen_real_value(rng, t['elem']) for _ in range(rng.choice([0, 1, 2, 4]))]
    if k == 'CHOICE':
        m = rng.choice(t['root'])
        return (m['name'], gen_real_value(rng, m['t']))
    if k == 'STRING':
        return rng.choice(ODD_STRINGS)
    if k == 'INTEGER':
        return rng.randrange(-10 ** 20, 10 ** 20)
    if k == 'NULL':
        return None
    raise AssertionError(k)


# ---------------------------------------------------------------------------
# the property on /repo through the independent reader

def read_back(data, tn, t, rt, ind, strict_colon=False):
    return lib.attempt(rdr.read_assignment, data, tn, t, rt, nl=ind is not None, colon_sp=not strict_colon)


def replay_dict(kind, text, tn, v, ind, **kw):
    d = dict(kind=kind, spec=text, type=tn, value=repr(v), indent=ind)
    d.update(kw)
    return d


def pt_one(ctx, text, spec, tn, t, rt, v, expected, tag):
    """Encode with every indent; the reader must consume the whole text and
    return the abstract value."""
    ok = True
    for ind in INDENTS:
        r = lib.attempt(spec.encode, tn, v, indent=ind)
        ctx.evaluations += 1
        if r[0] != 'ok':
            report(ctx, 'pt-raises', 'gser encode raises %s on a well-formed value: %s' % (r[1], r[2][:120]),
                   replay_dict('pt', text, tn, v, ind, error=r[1]))
            return False
        data = r[1]
        rb = read_back(data, tn, t, rt, ind)
        if rb[0] != 'ok':
            report(ctx, 'pt-rejected',
                   'independent RFC 3641 reader rejects gser output %r: %s' % (data[:200], rb[2][:160]),
                   replay_dict('pt', text, tn, v, ind, output=data.decode('utf-8', 'replace')[:400]))
            ok = False
        elif not abstract_eq(rt, t, rb[1], expected):
            report(ctx, 'pt-different', 'gser output %r reads back as a different value: %r' % (data[:200], rb[1]),
                   replay_dict('pt', text, tn, v, ind, output=data.decode('utf-8', 'replace')[:400],
                               read=repr(rb[1])[:300]))
            ok = False
        elif ind is None and not value_has_choice(rt, t, v):
            # CHOICE-free compact text must satisfy the RFC to the letter
            rs = read_back(data, tn, t, rt, None, strict_colon=True)
            if rs[0] != 'ok' or not abstract_eq(rt, t, rs[1], expected):
                report(ctx, 'pt-strict', 'strict RFC 3641 reader rejects CHOICE-free compact output %r' % (data[:200],),
                       replay_dict('pt-strict', text, tn, v, ind))
                ok = False
        if not ok:
            return False
    ctx.count('pt:' + tag)
    return True


def pt_generated(ctx, rounds, per_type):
    rng = ctx.rng
    for _ in range(rounds):
        mod, text, g, rt = gen_module(rng)
        spec = lib.compile_string(text, 'gser')
        for tn, t in mod['types']:
            for _ in range(per_type):
                v = gen_case_value(rng, g, rt, t)
                ctx.case(('pt', gen_asn1.shape(rt, t), vkey(v)),
                         dict(kind='pt', type=gen_asn1.shape(rt, t), value=repr(v)[:160]))
                pt_one(ctx, text, spec, tn, {'k': 'REF', 'name': tn}, rt, v, py_norm(rt, t, v),
                       rt(t)['k'])


def pt_real(ctx, n):
    rng = ctx.rng
    spec = lib.compile_string(REAL_TEXT, 'gser')
    rt = lambda t: t
    for _ in range(n):
        tn = rng.choice(sorted(REAL_TYPES))
        t = REAL_TYPES[tn]
        v = gen_real_value(rng, t)
        ctx.case(('real', tn, vkey(v)), dict(kind='pt-real', type=tn, value=repr(v)[:160]))
        pt_one(ctx, REAL_TEXT, spec, tn, t, rt, v, py_norm(rt, t, v), 'REAL')
    r = lib.attempt(spec.encode, 'R0', float('nan'))
    ctx.evaluations += 1
    if r[:2] != ('err', 'encode'):
        ctx.violation('REAL NaN is not refused with an EncodeError: %r' % (r,),
                      replay_dict('pt', REAL_TEXT, 'R0', float('nan'), None))


# ---------------------------------------------------------------------------
# injectivity probe

def injectivity_pairs(rng):
    """(module text, type name, abstract type, resolver, v1, v2) with different
    abstract values.  The fixed families put text that looks like value
    notation inside character strings of every kind."""
    kinds = sorted(gen_asn1.STR_KINDS)
    for sk in kinds:
        text = ('M DEFINITIONS AUTOMATIC TAGS ::= BEGIN\n'
                'L ::= SEQUENCE OF %s\n'
                'S ::= SEQUENCE { s %s, t %s OPTIONAL }\n'
                'C ::= CHOICE { a %s, b SEQUENCE OF %s }\nEND\n' % ((sk,) * 5))
        st = {'k': 'STRING', 'sk': sk, 'size': None, 'alpha': None}
        types = {
            'L': {'k': 'SEQUENCE OF', 'elem': st, 'size': None},
            'S': {'k': 'SEQUENCE', 'root': [{'name': 's', 't': st, 'opt': None},
                                            {'name': 't', 't': st, 'opt': 'optional'}], 'ext': None},
            'C': {'k': 'CHOICE', 'root': [{'name': 'a', 't': st, 'opt': None},
                                          {'name': 'b', 't': {'k': 'SEQUENCE OF', 'elem': st, 'size': None},
                                           'opt': None}], 'ext': None},
        }
        rt = lambda t: t
        for ind in INDENTS:
            sep = ' ' if ind is None else '\n' + ' ' * ind
            yield text, 'L', types['L'], rt, ['a"', '"b'], ['a",%s"b' % sep], ind
            yield text, 'L', types['L'], rt, ['x', 'y'], ['x",%s"y' % sep], ind
            yield text, 'S', types['S'], rt, {'s': 'a', 't': 'b'}, {'s': 'a",%st "b' % sep}, ind
            yield text, 'S', types['S'], rt, {'s': 'x" y'}, {'s': 'x"" y'}, ind
            yield text, 'S', types['S'], rt, {'s': '"'}, {'s': '""'}, ind
            yield text, 'C', types['C'], rt, ('a', 'q'), ('a', 'q"'), ind
    # BIT STRING and OCTET STRING of every length up to 72 bits / 12 octets (bstring vs hstring forms, the digit
    # count of a hex form), at top level, as a component and as an alternative
    text = ('M DEFINITIONS AUTOMATIC TAGS ::= BEGIN\nB ::= BIT STRING\n'
            'S2 ::= SEQUENCE { b BIT STRING, o OCTET STRING }\nC2 ::= CHOICE { b BIT STRING, n NULL }\nEND\n')
    bt = {'k': 'BIT STRING', 'size': None, 'named': None}
    ot = {'k': 'OCTET STRING', 'size': None}
    types = {'B': bt,
             'S2': {'k': 'SEQUENCE', 'root': [{'name': 'b', 't': bt, 'opt': None}, {'name': 'o', 't': ot, 'opt': None}], 'ext': None},
             'C2': {'k': 'CHOICE', 'root': [{'name': 'b', 't': bt, 'opt': None}, {'name': 'n', 't': {'k': 'NULL'}, 'opt': None}],
                    'ext': None}}
    rt = lambda t: t

    def bits(n, extra=0):
        data = bytearray((37 * i + 0x12) % 256 for i in range((n + 7) // 8))
        if n % 8:
            data[-1] &= (0xff << (8 - n % 8)) & 0xff
        m = n + extra
        data += bytes((m + 7) // 8 - len(data))
        return (bytes(data), m)
    for n in range(0, 73):
        ind = INDENTS[n % len(INDENTS)]
        yield text, 'B', types['B'], rt, bits(n), bits(n, 4), ind
        yield text, 'S2', types['S2'], rt, {'b': bits(n), 'o': bytes(range(n % 13))}, {'b': bits(n, 1), 'o': bytes(range(n % 13))}, ind
        yield text, 'C2', types['C2'], rt, ('b', bits(n)), ('b', bits(n, 8)), ind


def probe_injectivity(ctx, rounds):
    rng = ctx.rng
    n = 0
    for text, tn, t, rt, v1, v2, ind in injectivity_pairs(rng):
        spec = lib.compile_string(text, 'gser')
        n += 1
        check_pair(ctx, text, spec, tn, t, rt, v1, v2, (ind,), 'fixed')
    # random pairs and one-leaf mutations on generated types
    for _ in range(rounds):
        mod, text, g, rt = gen_module(rng)
        spec = lib.compile_string(text, 'gser')
        for tn, t in mod['types']:
            v1 = gen_case_value(rng, g, rt, t)
            v2 = gen_case_value(rng, g, rt, t)
            check_pair(ctx, text, spec, tn, {'k': 'REF', 'name': tn}, rt, v1, v2, INDENTS, 'random')


def check_pair(ctx, text, spec, tn, t, rt, v1, v2, indents, tag):
    if abstract_eq(rt, t, py_norm(rt, t, v1), py_norm(rt, t, v2)):
        return
    for ind in indents:
        a = lib.attempt(spec.encode, tn, v1, indent=ind)
        b = lib.attempt(spec.encode, tn, v2, indent=ind)
        ctx.case(('inj', tag, gen_asn1.shape(rt, t), vkey((v1, v2)), ind))
        ctx.count('inj:' + tag)
        if a[0] == 'ok' and b[0] == 'ok' and a[1] == b[1]:
            report(ctx, 'inj', 'two different values of one type give the same GSER text %r: %r and %r'
                   % (a[1][:200], v1, v2),
                   replay_dict('inj', text, tn, v1, ind, value2=repr(v2)))
            return


# ---------------------------------------------------------------------------
# correspondence with the Coq model

def ill_shaped(rng, g, rt, t, v):
    """Values gser.py refuses (with check_types=False): missing mandatory
    member, unknown enumeration item / alternative, lone surrogate, bits
    without octets.  Returns None when the value offers no such spot."""
    rt_t = rt(t)
    k = rt_t['k']
    if k in ('SEQUENCE', 'SET'):
        mand = [m for m in members_of(rt_t) if m['opt'] is None]
        if mand and rng.random() < .6:
            m = rng.choice(mand)
            return {n: x for n, x in v.items() if n != m['name']}
        names = [n for n in v]
        rng.shuffle(names)
        by = {m['name']: m for m in members_of(rt_t)}
        for n in names:
            w = ill_shaped(rng, g, rt, by[n]['t'], v[n])
            if w is not None:
                out = dict(v)
                out[n] = w
                return out
        return None
    if k == 'ENUMERATED':
        return 'nosuchitem'
    if k == 'CHOICE':
        return ('nosuchalt', None)
    if k == 'STRING':
        return 'a\ud800'
    if k == 'BIT STRING':
        return (b'', 3)
    if k in ('SEQUENCE OF', 'SET OF') and v:
        w = ill_shaped(rng, g, rt, rt_t['elem'], v[0])
        return None if w is None else [w] + list(v[1:])
    return None


def coq_value_x(rt, t, v):
    """coq_value with the unknown-alternative tuple mapped to a CHOICE the
    model does not know either."""
    rt_t = rt(t)
    if rt_t['k'] == 'CHOICE' and v[0] == 'nosuchalt':
        return C('VChoice', 'nosuchalt', C('VNone'))
    if rt_t['k'] in ('SEQUENCE', 'SET'):
        by = {m['name']: m for m in members_of(rt_t)}
        return C('VSeq', [(n, coq_value_x(rt, by[n]['t'], x)) for n, x in v.items() if n in by])
    if rt_t['k'] in ('SEQUENCE OF', 'SET OF'):
        return C('VList', [coq_value_x(rt, rt_t['elem'], x) for x in v])
    if rt_t['k'] == 'CHOICE':
        by = {m['name']: m for m in rt_t['root'] + (rt_t['ext'] or [])}
        return C('VChoice', v[0], coq_value_x(rt, by[v[0]]['t'], v[1]))
    return gen_asn1.coq_value(rt, t, v)


def corr(ctx, n_modules, per_type, chunk=12):
    """Model vs gser.py, in chunks of [chunk] modules per Coq file."""
    total = 0
    for k, start in enumerate(range(0, n_modules, chunk)):
        total += corr_chunk(ctx, min(chunk, n_modules - start), per_type, 'corr%d%s' % (k, CASE_TAG))
    return total


def corr_chunk(ctx, n_modules, per_type, name):
    rng = ctx.rng
    body = [COQ_CHECK]
    meta = []
    for mi in range(n_modules):
        mod, text, g, rt = gen_module(rng)
        spec = lib.compile_string(text, 'gser')
        cases = []
        for tn, t in mod['types']:
            for j in range(per_type):
                v = gen_case_value(rng, g, rt, t)
                bad = j == per_type - 1 and rng.random() < .6
                if bad:
                    w = ill_shaped(rng, g, rt, t, v)
                    if w is None:
                        bad = False
                    else:
                        v = w
                for ind in INDENTS if not bad else (rng.choice(INDENTS),):
                    r = lib.attempt(spec.encode, tn, v, indent=ind, check_types=False)
                    if r[0] == 'ok':
                        exp = list(r[1])
                        pv = coq_value_x(rt, t, py_norm(rt, t, v))
                        ctx.count('corr:text')
                    else:
                        exp = [-1 if r[1] == 'encode' else -2 if r[1].startswith('foreign') else -9]
                        pv = C('VNone')
                        ctx.count('corr:' + r[1])
                    cv = coq_value_x(rt, t, v)
                    cases.append(((tn, cv, None if ind is None else C('Some', Nat(ind))), (exp, pv)))
                    meta.append((mi, text, tn, v, ind, r, to_coq(gen_asn1.coq_env(mod)), to_coq(cases[-1][0])))
                    ctx.case(('corr', gen_asn1.shape(rt, t), vkey(v), ind),
                             dict(kind='corr', type=gen_asn1.shape(rt, t), value=repr(v)[:120], indent=ind,
                                  impl=(r[1][:120].decode('utf-8', 'replace') if r[0] == 'ok' else r[1])))
        body.append('Definition env%d : env := %s.' % (mi, to_coq(gen_asn1.coq_env(mod))))
        body.append('Definition cases%d : list ((string * value * option nat) * (list Z * value)) := %s.'
                    % (mi, to_coq(cases)))
        body.append('Eval vm_compute in map (check env%d) cases%d.' % (mi, mi))
    res = ctx.coq_eval(name, IMPORTS, '\n'.join(body) + '\n')
    codes = [c for per in res for c in per]
    assert len(codes) == len(meta), (len(codes), len(meta))
    for code, (mi, text, tn, v, ind, r, cenv, ccase) in zip(codes, meta):
        if code == 0:
            continue
        report(ctx, 'corr-%d' % code, 'correspondence: %s; type %s value %r indent %r; gser.py gives %r'
               % (CODES.get(code, code), tn, v, ind, r[1][:200] if r[0] == 'ok' else r[1:]),
               replay_dict('corr', text, tn, v, ind, code=code, coq_env=cenv, coq_case=ccase))
    return len(codes)


# ---------------------------------------------------------------------------
# known findings and replay

def eval_value(s):
    return eval(s, {'__builtins__': {}}, {'inf': float('inf'), 'nan': float('nan')})


def run_findings(ctx):
    for f in common.load_findings('C20'):
        w = f['witness']
        spec = lib.compile_string(w['spec'], 'gser')
        t = w['abstract_type']
        rt = lambda x: x
        v = eval_value(w['value'])
        r = lib.attempt(spec.encode, w['type'], v, indent=w.get('indent'))
        still = False
        if r[0] == 'ok':
            rb = lib.attempt(rdr.read_assignment, r[1], w['type'], t, rt, nl=w.get('indent') is not None,
                             colon_sp=w.get('colon_sp', True))
            still = rb[0] != 'ok' or not abstract_eq(rt, t, rb[1], py_norm(rt, t, v))
        else:
            still = True
        ctx.evaluations += 1
        if still:
            ctx.known_finding(f['id'], f['what'])


def replay(ctx):
    doc = json.load(open(ctx.replay))
    r = doc['replay']
    print('replaying', r.get('kind'), 'type', r.get('type'), 'indent', r.get('indent'))
    spec = lib.compile_string(r['spec'], 'gser')
    v = eval_value(r['value'])
    out = lib.attempt(spec.encode, r['type'], v, indent=r.get('indent'), check_types=r.get('kind') != 'corr')
    print('value :', repr(v)[:300])
    print('output:', out[1] if out[0] == 'ok' else out[1:])
    if r.get('kind') == 'corr' and 'coq_env' in r:
        (m,) = ctx.coq_eval('replay' + CASE_TAG, IMPORTS, COQ_CHECK + 'Eval vm_compute in show %s %s.\n'
                            % (r['coq_env'], r['coq_case']))
        print('model :', bytes(m) if all(0 <= x < 256 for x in m) else 'error code %r' % (m,))
        print('(correspondence code %s: %s)' % (r.get('code'), CODES.get(r.get('code'))))
    if r.get('kind') == 'inj':
        v2 = eval_value(r['value2'])
        print('value2:', repr(v2)[:300])
        print('output:', lib.attempt(spec.encode, r['type'], v2, indent=r.get('indent'))[1])


def run(ctx):
    if ctx.replay:
        return replay(ctx)
    ctx.rule = ('cases: (generated module, type, value with adversarial string/bit-string leaves, indent in '
                '{None,0,2,4}); distinct by (type shape, value hash, indent); non-trivial = every case (each is a '
                'full encode + independent read-back); REAL cases from a fixed module; injectivity pairs = fixed '
                'quote-injection families for the 11 string kinds x 4 indents + random pairs on generated types')
    ctx.level = 'proof'
    ctx.trusted_base += [
        'abstract types/values exported by harness/gen_asn1.py to Syntax/Asn1.v terms (the model never sees the '
        "library's parser output)",
        'harness/c20_reader.py: my reading of the RFC 3641 ABNF (text not available offline), used for the property '
        'test; Gser/Gser3641.v: the same grammar in Coq, pinned by Gser/Vectors.v',
        'REAL, time types, ANY/EXTERNAL and numeric_enums=True are outside the Coq universe: REAL is covered by the '
        'property test only (CPython repr(float)/float() as oracle), the others not at all',
        "CPython's UTF-8 codec (the model emits UTF-8 itself; agreement is checked by the correspondence)",
    ]
    ctx.extra['open_partial'] = ['C20_gser_readback_partial, C20_gser_readback_value_partial, '
                                 'C20_gser_injective_partial: universe without REAL/time/ANY types']
    ok = ctx.coq_props()
    if not ok and 'No rule to make target' in getattr(ctx, 'broken_detail', ''):
        # another builder's temporary file vanished between coq_makefile and make: build again
        ctx.obligations = []
        ok = ctx.coq_props()
    q = ctx.quick
    n = corr(ctx, 14 if q else 220, 3 if q else 5)
    ctx.log('correspondence: %d cases' % n)
    pt_generated(ctx, 25 if q else 1000, 3 if q else 6)
    pt_real(ctx, 80 if q else 5000)
    probe_injectivity(ctx, 15 if q else 800)
    run_findings(ctx)
    if not ok:
        common.proof_broken(ctx)
