"""UPER: binding of the Coq model Per/UperImpl.v for the generic drivers."""
import gen_asn1 as G

GENERIC = True      # usable by the generic drivers of codec_common
CODEC = 'uper'
COQ_IMPORTS = ['Base.Bits', 'Base.Utf8', 'Per.UperImpl']

# Known-finding regions of the unchanged tree the generator stays out of (each is recorded with a
# specific witness in known_findings/C05.json and re-run there):
AVOID = {'int_ext_open',      # INTEGER (MIN..x, ...) -> TypeError in Integer.encode
         'str_ext_outside',   # known-multiplier string length outside an extensible SIZE: silent corruption
         'bits_ext_outside',  # BIT STRING length outside an extensible SIZE: NotImplementedError
         'alpha1',            # single-character permitted alphabet: zero-bit characters decode to ''
         'group_zero_width'}  # addition group whose only content is zero-width: treated as absent
# ('size_ext_over_16k' is no longer avoided: since the repair C01-per-size-extension-fragmentation a length
#  outside an extensible SIZE is encoded with the fragmenting procedure, as the models do)

OPTS = dict(avoid=AVOID, str_kinds=G.KM_KINDS + ['UTF8String'])


def in_scope(mod, t, v):
    return True


def model_encode_expr(env, ty, val, numeric, fuel=40):
    return '(uper_encode %s %d %s %s %s)' % ('true' if numeric else 'false', fuel, env, ty, val)


def model_decode_expr(env, ty, data, numeric, fuel=40):
    return '(uper_decode %s %d %s %s %s)' % ('true' if numeric else 'false', fuel, env, ty, data)
