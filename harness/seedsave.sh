#!/bin/bash
# usage: harness/seedsave.sh <worktree> <name> <Cnn> <caught|missed> "<note>"
D=$1; N=$2; P=$3; R=$4; NOTE=$5
mkdir -p /verif/seeded/$N
cp $D/seed/patch.diff $D/seed/demo.py /verif/seeded/$N/
/venv/bin/python - "$D" "$N" "$P" "$R" "$NOTE" <<'PY' 2>&1 | grep -v conda
import json, sys, re
d, n, p, r, note = sys.argv[1:6]
m = json.load(open(d + '/seed/meta.json'))
log = open('/tmp/seedtest_%s.log' % p).read() if r else ''
m['property'] = p
m['verif'] = {'result': r, 'note': note, 'check': './check %s --tier quick (VERIF_REPO=<tree with patch.diff applied>)' % p,
              'violations_reported': len(re.findall(r'^VIOLATION', log, flags=re.M)),
              'first_violation': (re.findall(r'what: (.*)', log) or [''])[0][:300],
              'confirmed': 'demo.py exits 1 with the change and 0 without; pinned suite: 486 stable tests pass with the change (harness/baseline.sh)'}
json.dump(m, open('/verif/seeded/%s/meta.json' % n, 'w'), indent=1)
print('saved', n, r)
PY
