"""C10 — Generated OER C code is equivalent to the Python OER codec and memory-safe.

Built on the C09 infrastructure (see notes/C09.md, notes/C10.md):
  spine A  c09_spine_a.prepare(..., 'oer', ...): random modules of the OER C subset
           (C09 subset + REAL binary32/64 + SEQUENCE extension additions), compiled
           with gcc and clang ASan/UBSan, against the Python OER codec;
  V1/V2    for modules with extensible SEQUENCEs a second version with more
           additions is derived; the V1 C decoder has to return the V1 projection
           on the V2 bytes (the V2 module is itself a unit, so its C bytes are
           checked to be the Python bytes);
  spine B  Coq model of oer_functions.py (CGen/OerHelpers.v), theorems in
           Props/C10.v, textual + IR ties regenerated on every run, compiled
           helpers vs model, parsed helpers (IR) vs model;
  logic    static encoded-length arithmetic of the generator (c10_logic.py);
  IR       generated functions executed as Coq IR terms (c09_ir.run_units).
"""
import json
import random

import common
import lib
import c09_cc
import c09_ir
import c09_driver
import c09_spine_a as A
import c09_types as T
import c10_regions

CODEC = 'oer'

UNSUPPORTED = [
    ('int-unbounded', 'INTEGER'), ('int-semi', 'INTEGER (0..MAX)'), ('int-min', 'INTEGER (MIN..5)'),
    ('int-65-unsigned', 'INTEGER (0..18446744073709551616)'), ('int-65-signed', 'INTEGER (-1..9223372036854775808)'),
    ('int-below-int64', 'INTEGER (-9223372036854775809..0)'), ('int-ext', 'INTEGER (0..7, ...)'),
    ('octets-unbounded', 'OCTET STRING'), ('octets-ext', 'OCTET STRING (SIZE(1..4, ...))'),
    ('bits-variable', 'BIT STRING (SIZE(1..4))'), ('bits-65', 'BIT STRING (SIZE(65))'), ('bits-unbounded', 'BIT STRING'),
    ('seqof-unbounded', 'SEQUENCE OF BOOLEAN'), ('seqof-ext', 'SEQUENCE (SIZE(1..4, ...)) OF BOOLEAN'),
    ('set', 'SET { a BOOLEAN }'), ('setof', 'SET (SIZE(1..2)) OF BOOLEAN'), ('oid', 'OBJECT IDENTIFIER'),
    ('ia5', 'IA5String (SIZE(3))'), ('utf8', 'UTF8String'), ('visible', 'VisibleString (SIZE(1..2))'),
    ('real-unconstrained', 'REAL'), ('real-base10', 'REAL (WITH COMPONENTS { mantissa (-9..9), base (10), exponent (-3..3) })'),
    ('utctime', 'UTCTime'), ('any', 'ANY'), ('recursive', 'SEQUENCE { a A OPTIONAL }'),
]
UNSUPPORTED_REGION = {'recursive': 'recursive-type-recursion-error'}


def unsupported_specs(rng):
    out = []
    for name, text in UNSUPPORTED:
        raw = T.TRaw(text)
        where = rng.choice(['top', 'member', 'element', 'alt'])
        if name == 'recursive':
            where = 'top'
        if where == 'top':
            ty = raw
        elif where == 'member':
            ty = T.TSeq([T.Member('a', T.TBool()), T.Member('b', raw, optional=rng.random() < .5)])
        elif where == 'element':
            ty = T.TSeqOf(1, 3, raw)
        else:
            ty = T.TChoice([('a', T.TBool()), ('b', raw)])
        out.append((name, T.Spec([('M', [('A', ty), ('B', T.TInt(0, 7))])])))
    return out


def run_findings(ctx, findings, rng):
    preps = []
    findings = [f for f in findings if 'logic' not in f['witness'].get('classes', [])]     # those are replayed by c10_logic
    for f in findings:
        w = f['witness']
        spec = T.Spec.from_json(w['spec'])
        cases = None
        if w.get('cases') is not None:
            cases = [(m, n, T.value_from_json(v)) for m, n, v in w['cases']]
        extra = [(tn, bytes.fromhex(hx), want) for tn, hx, want in w.get('newer', [])]
        p = A.prepare(ctx, 'k%d' % len(preps), spec, CODEC, 3, 20 if w.get('fuzz') else 0, rng, fixed_cases=cases,
                      extra_inputs=extra)
        if w.get('inputs') and p.unit is not None:
            names = [n for _, n in p.types]
            for tn, hx in w['inputs']:
                p.fuzz.append((names.index(tn), bytes.fromhex(hx)))
            p.unit.fuzz = ''.join('%d %s\n' % (ti, b.hex()) for ti, b in p.fuzz)
        preps.append(p)
    saved = A.ACTIVE
    A.ACTIVE = set()            # witnesses are judged without any relaxation
    c09_cc.run_units([p.unit for p in preps if p.unit is not None])
    active = []
    for f, p in zip(findings, preps):
        seen = []
        A.judge(ctx, p, lambda what, rep, cls: seen.append((cls, what)))
        want = set(f['witness'].get('classes', []))
        hit = [s for s in seen if not want or s[0] in want]
        if hit:
            ctx.known_finding(f['id'], '%s [%s]' % (f['what'], hit[0][1][:160]))
            active.append(f['id'])
        else:
            ctx.log('finding %s no longer reproduces on this tree (its region is generated again)' % f['id'])
            ctx.count('finding-fixed:' + f['id'])
    A.ACTIVE = saved
    return active


# --------------------------------------------------------------------------
# V1 / V2

def addition_candidates(active):
    """Types a newer version adds after the marker."""
    c = [T.TBool(), T.TInt(0, 255), T.TInt(-70000, 5), T.TInt(0, 2 ** 64 - 1), T.TNull(), T.TOctets(0, 5), T.TOctets(3, 3),
         T.TOctets(0, 300), T.TReal(32), T.TReal(64), T.TEnum([('va', 0), ('vb', 1), ('vc', 300)]),
         T.TSeqOf(0, 3, T.TInt(0, 7))]
    if 'oer-addition-static-length' not in active:
        c += [T.TChoice([('cp', T.TBool()), ('cq', T.TInt(0, 70000))]),T.TSeq([T.Member('sx', T.TBool()), T.Member('sy', T.TOctets(0, 3))]), T.TSeqOf(2, 2, T.TBool()),
              T.TSeqOf(0, 2, T.TOctets(0, 3))]
    return c


def derive_v2(spec, rng, active):
    """A copy of the spec in which extensible SEQUENCEs got 1-3 more additions.
    Returns (spec2, changed) or None when nothing could be extended."""
    j = spec.to_json()
    spec2 = T.Spec.from_json(j)
    cands = addition_candidates(active)
    changed = []
    for m, ts in spec2.modules:
        for n, t in ts:
            for x in T.subtypes(t):
                if x.kind == 'seq' and x.ext and rng.random() < .8:
                    if 'oer-unknown-additions-not-skipped' in active and not x.additions:
                        continue        # the V1 decoder of an EMPTY extension does not skip (open finding)
                    if 'oer-additions-multiple-of-8' in active and x.additions and len(x.additions) % 8 == 0:
                        continue
                    used = set(mm.name for mm in x.members + x.additions)
                    for k in range(rng.choice([1, 1, 2, 3, 9])):
                        name = 'v2x%d' % k
                        if name not in used:
                            x.additions.append(T.Member(name, T.ty_from_json(rng.choice(cands).to_json())))
                    changed.append((m, n))
    if not changed:
        return None
    return spec2, sorted(set(changed))


def project(spec1, ty1, spec2, ty2, v):
    """The value a V1 decoder has to produce for the V2 value v."""
    t1, t2 = spec1.resolve(ty1), spec2.resolve(ty2)
    k = t1.kind
    if k == 'seq':
        out = {}
        m2 = dict((m.name, m) for m in t2.members + t2.additions)
        for m in t1.members + t1.additions:
            if m.name in v:
                out[m.name] = project(spec1, m.ty, spec2, m2[m.name].ty, v[m.name])
        return out
    if k == 'seqof':
        return [project(spec1, t1.elem, spec2, t2.elem, e) for e in v]
    if k == 'choice':
        a1, a2 = dict(t1.alts), dict(t2.alts)
        return (v[0], project(spec1, a1[v[0]], spec2, a2[v[0]], v[1]))
    return v


def shape_key(spec, ty, depth=0):
    t = spec.resolve(ty)
    k = t.kind
    if k == 'int':
        return 'int%d%s' % ((t.hi - t.lo).bit_length(), 's' if t.lo < 0 else 'u')
    if k == 'octets':
        return 'oct%s' % ('f' if t.lo == t.hi else 'v')
    if k == 'bits':
        return 'bits%d' % t.n
    if k == 'enum':
        return 'enum%d' % len(t.items)
    if k == 'real':
        return 'real%d' % t.bits
    if depth > 1:
        return k
    if k == 'seq':
        return 'seq(%s%s)' % (','.join(('?' if m.optional else '=' if m.has_default else '') + shape_key(spec, m.ty, depth + 1)
                                       for m in t.members),
                              ';...' + ','.join(shape_key(spec, m.ty, depth + 1) for m in t.additions) if t.ext else '')
    if k == 'seqof':
        return 'seqof%s(%s)' % ('f' if t.lo == t.hi else 'v', shape_key(spec, t.elem, depth + 1))
    if k == 'choice':
        return 'choice(%s)' % ','.join(shape_key(spec, a, depth + 1) for _, a in t.alts)
    return k


def spine_a(ctx, active, n_units, n_values, n_fuzz):
    rng = ctx.rng
    avoid = c10_regions.make_avoid(active)
    feats = dict(seq_ext=.6, choice_ext=.2, enum_ext=.2, real=.08, additions=.9)
    preps = []
    pairs = 0
    for i in range(n_units):
        g = T.Gen(rng, avoid=avoid, big=(i % 9 == 4), features=feats)
        spec = g.spec()
        extra = []
        v2 = derive_v2(spec, rng, active) if rng.random() < .8 else None
        p2 = None
        if v2 is not None:
            spec2, changed = v2
            p2 = A.prepare(ctx, '%dv2' % i, spec2, CODEC, n_values, max(2, n_fuzz // 3), rng)
            if p2.unit is not None:
                for (m, n, v), b in zip(p2.cases, p2.pybytes):
                    if (m, n) in changed and len(b) < 60000:
                        want = c09_driver.expected_tokens(spec, spec.index[(m, n)],
                                                          project(spec, spec.index[(m, n)], spec2, spec2.index[(m, n)], v),
                                                          codec=CODEC)
                        extra.append((n, b, want))
                pairs += 1
        preps.append(A.prepare(ctx, i, spec, CODEC, n_values, n_fuzz, rng, extra_inputs=extra))
        if p2 is not None:
            preps.append(p2)
    # structured corner: same-named DEFAULT members in sibling inline SEQUENCEs / CHOICE alternatives
    preps.append(A.prepare(ctx, 'tw', T.Gen(rng, avoid=avoid, features=feats).twins_spec(), CODEC, n_values + 3, n_fuzz, rng))
    rej = []
    for name, spec in unsupported_specs(rng):
        if UNSUPPORTED_REGION.get(name) in active:
            continue
        rej.append((name, A.prepare(ctx, 'r' + name, spec, CODEC, 0, 0, rng)))
    ctx.log('spine A: %d random modules (%d with a derived newer version, +%d rejection cases), gcc and clang+ASan/UBSan' % (
        n_units, pairs, len(rej)))
    c09_cc.run_units([p.unit for p in preps if p.unit is not None])

    def report(what, rep, cls):
        c09_cc.limited_violation(ctx, cls, what, rep)
    for p in preps:
        ctx.evaluations += A.judge(ctx, p, report)
        for m, ts in p.spec.modules:
            for tn, ty in ts:
                for x in T.subtypes(ty):
                    ctx.count('type:' + x.kind)
                    if x.kind == 'seq' and x.additions:
                        ctx.count('type:seq-with-additions')
        if p.unit is not None:
            for (m, tn, v), b in zip(p.cases, p.pybytes):
                ctx.case((shape_key(p.spec, p.spec.index[(m, tn)]), len(b)),
                         dict(kind='case', type=p.spec.render(p.spec.index[(m, tn)])[:200], value=repr(v)[:120],
                              python_bytes=b.hex()[:64]), n=0)
        for tn, v, err in getattr(p, 'py_encode_failures', []):
            ctx.count('python-encode-failed:' + str(err[0]))
    for name, p in rej:
        ctx.evaluations += 1
        ctx.count('reject:' + p.gen[0])
        A.judge(ctx, p, report)
    return preps


def replay(ctx):
    doc = json.load(open(ctx.replay))
    r = doc['replay']
    print('replaying', r.get('kind'), '-', doc.get('what', '')[:200])
    if 'spec' not in r:
        print('nothing to re-run for this record')
        return
    import c10_sizes
    c10_sizes.install_walker()
    if str(r.get('kind', '')).startswith('sizes-') or (r.get('kind') == 'dialect' and 'size' in r):
        return c10_sizes.replay(ctx, r)
    spec = T.Spec.from_json(r['spec'])
    cases = None
    if 'value' in r:
        cases = [(r['module'], r['type'], T.value_from_json(r['value']))]
    extra = []
    if 'input' in r and 'expected' in r:
        extra = [(r['type'], bytes.fromhex(r['input']), r['expected'])]
    p = A.prepare(ctx, 'replay', spec, CODEC, 2, 0, ctx.rng, fixed_cases=cases, extra_inputs=extra)
    if 'input' in r and not extra and p.unit is not None:
        names = [n for _, n in p.types]
        p.fuzz.append((names.index(r['type']), bytes.fromhex(r['input'])))
        p.unit.fuzz = ''.join('%d %s\n' % (ti, b.hex()) for ti, b in p.fuzz)
    if p.unit is not None:
        c09_cc.run_units([p.unit])
    seen = []
    A.judge(ctx, p, lambda what, rep, cls: seen.append((cls, what)))
    print(spec.text())
    if str(r.get('kind', '')).startswith('ir-') and p.unit is not None:
        ctx.quick = False
        before = len(ctx.violations)
        c09_ir.run_units(ctx, [p], 1)
        for v in ctx.violations[before:]:
            seen.append(('ir', v['what']))
    for cls, what in seen:
        print('STILL FAILS [%s]: %s' % (cls, what[:500]))
    if not seen:
        print('no failure on this tree')


def run(ctx):
    if ctx.replay:
        return replay(ctx)
    ctx.rule = ('Spine A cases: (module of the OER C subset incl. REAL and extension additions) x (type) x (value: all-minimum, '
                'all-maximum, random with boundary bias) compiled with gcc and clang+ASan/UBSan: encode bytes, every smaller '
                'destination size (canaries), decode of the Python bytes (every field, presence flag incl. addition flags, length, '
                'selector), every truncation, mutated / hostile-length inputs (accept => re-encode/re-decode stable), bytes of a '
                'derived newer version on the older decoder; distinct by (type shape to depth 2, encoded length); non-trivial = '
                'every case (each is a compiled-code execution compared with the Python codec)')
    ctx.level = 'proof'
    ctx.trusted_base += [
        'translator/cparse.py + ctoir.py (as C09); five functions that move object representations (float/double memcpy, byte '
        'pointer in encoder_append_long_uint) are replaced by hand-written IR equivalents, textually pinned (ctoir.OVERRIDES), '
        'little-endian target assumed',
        'CGen/Ir.v semantics (as C09); gcc / clang 14 sanitizers: the binary is explored, not proved',
        'the Python OER codec of /repo as the oracle; REAL compared through the IEEE bit pattern (NaN excluded)',
    ]
    ctx.assumptions += [
        'LP64 little-endian target; conversion to a signed type wraps (gcc/clang)',
        'helper theorems: cursor live (size = capacity < 2^62 bytes) or latched; arguments as the generated code passes them',
    ]
    ctx.extra['open_theorems'] = [
        'validate_sound (generated per-type functions = codec model for all values): open as for C09; they are executed as IR '
        'terms on sampled values only',
        'static_length_sound for the whole type universe: proved for the length-determinant arithmetic and refuted for the '
        'generator\'s get_length_determinant_length (GenLogicOer); the recursive length expressions over struct paths are only tested',
    ]
    try:
        from concurrent.futures import ThreadPoolExecutor
        import c10_helpers
        import c10_ir
        import c10_logic
        import c10_sizes
        c10_sizes.install_walker()
        parsed = c10_helpers.regenerate(ctx)
        ex = ThreadPoolExecutor(max_workers=5)
        f_props = ex.submit(ctx.coq_props)
        f_help = ex.submit(c10_helpers.run, ctx, parsed, random.Random(ctx.seed * 7919 + 1)) if parsed is not None else None
        f_hir = ex.submit(c10_ir.helpers_vs_model, ctx, 60 if ctx.quick else 600, random.Random(ctx.seed * 7919 + 2))
        f_logic = ex.submit(c10_logic.run, ctx, random.Random(ctx.seed * 7919 + 3))
        findings = common.load_findings('C10')
        active = run_findings(ctx, findings, ctx.rng)
        ctx.log('known findings replayed: %d of %d still reproduce' % (len(active), len(findings)))
        ctx.extra['regions_excluded'] = active
        A.ACTIVE = set(active)
        # sizes at and above 2^16 / 2^24 (quantity fields, length forms): static vs the Coq model + one compiled module
        f_sizes = ex.submit(c10_sizes.run, ctx, random.Random(ctx.seed * 7919 + 4), active)
        if ctx.quick:
            preps = spine_a(ctx, active, 24, 3, 12)
        else:
            preps = spine_a(ctx, active, 220, 6, 50)
        ctx.log('spine A judged')
        c09_ir.run_units(ctx, preps, 4 if ctx.quick else 80)
        ctx.log('IR: generated functions vs Python codec and binary done')
        for f, what in ((f_help, 'helpers: compiled OER helper block vs Coq model'), (f_hir, 'IR: parsed OER helper block vs Coq model'),
                        (f_logic, 'logic: static length arithmetic vs Coq model'),
                        (f_sizes, 'sizes: quantity fields / length forms up to 2^32-1 vs Coq model, 2^16.. elements compiled')):
            if f is not None:
                f.result()
                ctx.log(what + ' done')
        ok = f_props.result()
        ctx.log('Coq: Props/C10.v built and audited (%s)' % ('ok' if ok else 'BROKEN'))
        ex.shutdown()
        if not ok:
            common.proof_broken(ctx)
    finally:
        A.ACTIVE = set()
        c09_cc.cleanup()
