"""C18 — a compiled specification is stateless across calls and threads.

  1. translator/writesets.py regenerates coq/gen/WriteSets.v from /repo (fail-closed ast analysis);
  2. Coq: no_shared_writes over that table (vm_compute), stateless / result_independent /
     interleaving_independent over the abstract heap model (Stateless/*.v, Props/C18.v);
  3. correspondence + property test on /repo: histories of <= 50 mixed operations on ONE compiled
     specification, run sequentially (structural fingerprint of the whole compiled object graph,
     module globals and class attributes, and a deep copy of every input compared after each call;
     every returned object is scribbled on afterwards to expose aliasing) and with 2..8 threads
     under switch-interval jitter; every result is compared with the same call made alone on a
     freshly compiled specification;
  4. the structured-DEFAULT aliasing channel (decoders hand out member.default itself), through
     compile_dict: known finding / proposed fix.
"""
import copy
import hashlib
import json
import os
import re
import signal
import sys
import threading
import time
import types

import common
import lib
import asn1tools
import c18_gen as gen

sys.path.insert(0, os.path.join(common.VERIF, 'translator'))

CODECS = ['ber', 'der', 'per', 'uper', 'oer', 'jer', 'xer', 'gser']


# --------------------------------------------------------------------------------------
# canonical observables

def canon(v):
    if isinstance(v, (bytes, bytearray)):
        return (type(v).__name__, bytes(v).hex())
    if isinstance(v, dict):
        return ('dict', tuple((canon(k), canon(x)) for k, x in v.items()))
    if isinstance(v, list):
        return ('list', tuple(canon(x) for x in v))
    if isinstance(v, tuple):
        return ('tuple', tuple(canon(x) for x in v))
    if isinstance(v, (set, frozenset)):
        return ('set', tuple(sorted(repr(canon(x)) for x in v)))
    if v is None or isinstance(v, (bool, int, float, str)):
        return (type(v).__name__, repr(v))
    return ('obj', type(v).__name__, repr(v))


_ADDR = re.compile(r' at 0x[0-9a-fA-F]+')


def outcome(f, *a, **kw):
    try:
        return ('ok', canon(f(*a, **kw)))
    except RecursionError:
        return ('err', 'RecursionError', '')
    except Exception as e:  # noqa
        return ('err', type(e).__name__, _ADDR.sub(' at 0x?', str(e)))


def outcome_raw(f, *a, **kw):
    """outcome + the raw returned object (to scribble on)"""
    try:
        r = f(*a, **kw)
        return ('ok', canon(r)), r
    except RecursionError:
        return ('err', 'RecursionError', ''), None
    except Exception as e:  # noqa
        return ('err', type(e).__name__, _ADDR.sub(' at 0x?', str(e))), None


def scribble(v, depth=0):
    """mutate every mutable container reachable from a returned value"""
    if depth > 20:
        return
    if isinstance(v, list):
        for x in v:
            scribble(x, depth + 1)
        v.append('scribble')
        v.reverse()
    elif isinstance(v, dict):
        for x in list(v.values()):
            scribble(x, depth + 1)
        for k in list(v)[:1]:
            v[k] = 'scribble'
        v['scribble'] = 1
    elif isinstance(v, bytearray):
        v.extend(b'\xde\xad')
    elif isinstance(v, tuple):
        for x in v:
            scribble(x, depth + 1)


# --------------------------------------------------------------------------------------
# structural fingerprint of the compiled object graph + module / class level state

_PRIM = (type(None), bool, int, float, str, bytes, complex)
_CALLABLE = (types.FunctionType, types.BuiltinFunctionType, types.MethodType, type, types.ModuleType,
             types.MethodDescriptorType, types.WrapperDescriptorType, staticmethod, classmethod, property)


def walk(roots):
    """[(path, token)] for everything reachable from the named roots through __dict__, __slots__,
    lists, tuples, dicts and sets; cycles and sharing are recorded as references to the first path."""
    out = []
    seen = {}
    stack = [(p, o) for p, o in reversed(roots)]
    while stack:
        path, o = stack.pop()
        if isinstance(o, _PRIM):
            out.append((path, type(o).__name__ + ':' + repr(o)))
            continue
        if isinstance(o, bytearray):
            out.append((path, 'bytearray:' + bytes(o).hex()))
            continue
        if isinstance(o, _CALLABLE):
            out.append((path, 'callable:' + getattr(o, '__qualname__', getattr(o, '__name__', type(o).__name__))))
            continue
        i = id(o)
        if i in seen:
            out.append((path, 'ref:' + seen[i]))
            continue
        seen[i] = path
        if isinstance(o, (list, tuple, dict)) and len(o) > 256 and _all_prim(o):
            # big tables of primitives (65536-entry permitted-alphabet maps): one token
            out.append((path, 'bulk:%s[%d]:%s' % (type(o).__name__, len(o), hashlib.sha1(repr(o).encode('utf-8', 'replace')).hexdigest())))
            continue
        if isinstance(o, (list, tuple)):
            out.append((path, '%s[%d]' % (type(o).__name__, len(o))))
            stack.extend(('%s[%d]' % (path, k), x) for k, x in reversed(list(enumerate(o))))
        elif isinstance(o, dict):
            out.append((path, '%s{%d}' % (type(o).__name__, len(o))))
            items = list(o.items())
            for k, (key, x) in reversed(list(enumerate(items))):
                if isinstance(key, _PRIM):
                    stack.append(('%s[%r]' % (path, key), x))
                else:
                    stack.append(('%s{value#%d}' % (path, k), x))
                    stack.append(('%s{key#%d}' % (path, k), key))
        elif isinstance(o, (set, frozenset)):
            out.append((path, '%s:%s' % (type(o).__name__, sorted(repr(canon(x)) for x in o))))
        else:
            d = getattr(o, '__dict__', None)
            slots = []
            for c in type(o).__mro__:
                slots += list(getattr(c, '__slots__', ()) or ())
            if d is None and not slots:
                out.append((path, 'opaque:' + type(o).__name__))
                continue
            out.append((path, 'object:%s.%s' % (type(o).__module__, type(o).__qualname__)))
            ch = []
            if d is not None:
                ch += [(path + '.' + str(k), x) for k, x in d.items()]
            for s in slots:
                if hasattr(o, s):
                    ch.append((path + '.' + s, getattr(o, s)))
            stack.extend(reversed(ch))
    return out


def _all_prim(o):
    if isinstance(o, dict):
        return all(isinstance(k, _PRIM) and isinstance(v, _PRIM) for k, v in o.items())
    return all(isinstance(x, _PRIM) for x in o)


def global_roots():
    """module-level and class-level state of every loaded asn1tools module"""
    roots = []
    for mname in sorted(sys.modules):
        if mname != 'asn1tools' and not mname.startswith('asn1tools.'):
            continue
        m = sys.modules[mname]
        if m is None:
            continue
        for k, v in sorted(vars(m).items()):
            if k.startswith('__') or isinstance(v, types.ModuleType):
                continue
            if isinstance(v, type):
                if getattr(v, '__module__', '') == mname:
                    for ck, cv in sorted(vars(v).items()):
                        if ck.startswith('__') or isinstance(cv, _CALLABLE):
                            continue
                        roots.append(('%s.%s.%s' % (mname, k, ck), cv))
                continue
            if isinstance(v, _CALLABLE):
                continue
            if mname.startswith('asn1tools.parser') or mname.startswith('asn1tools.source'):
                continue          # not run-time code of the codecs
            roots.append(('%s.%s' % (mname, k), v))
    return roots


def fingerprint(spec, with_globals=True):
    items = walk([('spec', spec)] + (global_roots() if with_globals else []))
    h = hashlib.sha1()
    for p, t in items:
        h.update(p.encode('utf-8', 'replace'))
        h.update(b'\0')
        h.update(t.encode('utf-8', 'replace'))
        h.update(b'\n')
    return h.hexdigest(), items


def fp_diff(a, b, limit=6):
    da, db = dict(a), dict(b)
    out = []
    for p in list(db):
        if p not in da:
            out.append('+ %s = %s' % (p, db[p][:60]))
        elif da[p] != db[p]:
            out.append('~ %s: %s -> %s' % (p, da[p][:50], db[p][:50]))
    for p in da:
        if p not in db:
            out.append('- %s' % p)
    return out[:limit]


# --------------------------------------------------------------------------------------
# operations

class Op(object):
    def __init__(self, kind, tname, arg, kw=None, tag=''):
        self.kind, self.tname, self.arg, self.kw, self.tag = kind, tname, arg, kw or {}, tag
        self.alone = None

    def apply(self, spec, arg=None):
        arg = self.arg if arg is None else arg
        if self.kind == 'encode':
            return spec.encode, (self.tname, arg), self.kw
        if self.kind == 'decode':
            return spec.decode, (self.tname, arg), self.kw
        if self.kind == 'decode_with_length':
            return spec.decode_with_length, (self.tname, arg), self.kw
        if self.kind == 'decode_length':
            return spec.decode_length, (arg,), {}
        if self.kind == 'type.encode':      # the public CompiledType objects, bypassing Specification
            return spec.types[self.tname].encode, (arg,), {}
        if self.kind == 'type.decode':
            return spec.types[self.tname].decode, (arg,), {}
        raise ValueError(self.kind)

    def run(self, spec, arg=None):
        f, a, kw = self.apply(spec, arg)
        return outcome(f, *a, **kw)

    def to_json(self):
        return dict(kind=self.kind, type=self.tname, arg=jenc(self.arg), kw=self.kw, tag=self.tag)

    @staticmethod
    def from_json(d):
        return Op(d['kind'], d['type'], jdec(d['arg']), d.get('kw') or {}, d.get('tag', ''))


def jenc(v):
    if isinstance(v, bytes):
        return {'__bytes__': v.hex()}
    if isinstance(v, bytearray):
        return {'__bytearray__': bytes(v).hex()}
    if isinstance(v, tuple):
        return {'__tuple__': [jenc(x) for x in v]}
    if isinstance(v, list):
        return [jenc(x) for x in v]
    if isinstance(v, dict):
        return {'__dict__': [[jenc(k), jenc(x)] for k, x in v.items()]}
    if isinstance(v, float):
        return {'__float__': repr(v)}
    return v


def jdec(v):
    if isinstance(v, list):
        return [jdec(x) for x in v]
    if isinstance(v, dict):
        if '__bytes__' in v:
            return bytes.fromhex(v['__bytes__'])
        if '__bytearray__' in v:
            return bytearray.fromhex(v['__bytearray__'])
        if '__tuple__' in v:
            return tuple(jdec(x) for x in v['__tuple__'])
        if '__dict__' in v:
            return {jdec(k): jdec(x) for k, x in v['__dict__']}
        if '__float__' in v:
            return float(v['__float__'])
    return v


class Timeout(Exception):
    pass


def _alarm(signum, frame):
    raise Timeout()


def guarded(f, seconds=2.0):
    """run f() in the main thread under an interval timer (hangs of the library on malformed input
    are C08's subject: such operations are dropped from the histories)"""
    old = signal.signal(signal.SIGALRM, _alarm)
    signal.setitimer(signal.ITIMER_REAL, seconds)
    try:
        return f()
    except Timeout:
        return None
    finally:
        signal.setitimer(signal.ITIMER_REAL, 0)
        signal.signal(signal.SIGALRM, old)


class Subject(object):
    """one module x codec: parsed dictionary, factory of fresh specifications, the shared one"""

    def __init__(self, mod, codec, parsed, via_text):
        self.mod, self.codec, self.parsed = mod, codec, parsed
        self.shared = asn1tools.compile_string(mod.text, codec) if via_text else self.fresh()

    def fresh(self):
        return asn1tools.compile_dict(copy.deepcopy(self.parsed), self.codec)


def make_history(ctx, sub, n):
    """<= n operations: encode / decode of valid, invalid, ill-typed and truncated data"""
    rng = ctx.rng
    mod, codec = sub.mod, sub.codec
    enc_spec = sub.fresh()
    pool = []
    for tname in mod.order:
        for _ in range(2):
            v = gen.gen_value(rng, mod, mod.types[tname])
            r = guarded(lambda: lib.attempt(enc_spec.encode, tname, v))
            if r is not None and r[0] == 'ok':
                pool.append((tname, v, bytes(r[1])))
    ops = []
    tries = 0
    while len(ops) < n and tries < 4 * n:
        tries += 1
        r = rng.random()
        if codec == 'gser' and r >= .48 and rng.random() < .9:
            r = rng.random() * .48          # GSER has no decoder: mostly encode operations
        tname = rng.choice(mod.order)
        if r < .30:
            v = gen.gen_value(rng, mod, mod.types[tname])
            op = Op('encode' if rng.random() < .85 else 'type.encode', tname, v,
                    {} if rng.random() < .6 else {'check_constraints': True}, 'valid')
            if op.kind == 'type.encode':
                op.kw = {}
        elif r < .48:
            v = gen.break_value(rng, mod, mod.types[tname], gen.gen_value(rng, mod, mod.types[tname]))
            kw = rng.choice([{}, {'check_types': False}, {'check_constraints': True},
                             {'check_types': False, 'check_constraints': True}])
            op = Op('encode', tname, v, kw, 'invalid')
        elif r < .75 and pool:
            tname, v, data = rng.choice(pool)
            kind = 'decode'
            if codec in ('ber', 'der') and rng.random() < .25:
                kind = rng.choice(['decode_with_length', 'decode_length'])
            elif rng.random() < .1:
                kind = 'type.decode'
            kw = {'check_constraints': True} if (kind in ('decode', 'decode_with_length') and rng.random() < .2) else {}
            op = Op(kind, tname, data, kw, 'valid')
        elif pool:
            t0, v, data = rng.choice(pool)
            if rng.random() < .3:
                tname = t0 if rng.random() < .5 else tname        # also: valid bytes of ANOTHER type
            else:
                tname, data = t0, gen.break_bytes(rng, data)
            kind = 'decode'
            if codec in ('ber', 'der') and rng.random() < .2:
                kind = rng.choice(['decode_with_length', 'decode_length'])
            op = Op(kind, tname, data, {}, 'broken')
        else:
            continue
        # the same call made alone on a freshly compiled specification (with a private copy of the input)
        alone = guarded(lambda: op.run(sub.fresh(), copy.deepcopy(op.arg)))
        if alone is None:
            ctx.count('dropped:hang-alone:%s' % codec)
            continue
        op.alone = alone
        ops.append(op)
    return ops


def describe(op):
    return '%s(%s, %s%s)' % (op.kind, op.tname, repr(op.arg)[:80], ''.join(', %s=%s' % kv for kv in op.kw.items()))


def replay_doc(sub, ops, nthreads, what, extra=None):
    d = dict(kind='history', codec=sub.codec, spec=sub.mod.text, ops=[o.to_json() for o in ops],
             alone=[list(o.alone) if o.alone else None for o in ops], nthreads=nthreads, what=what)
    d.update(extra or {})
    return d


def run_sequential(ctx, sub, ops, table_attrs, do_scribble=True, full=False, baseline=None):
    """one thread: after EVERY call compare result, input value and the fingerprint of all shared state"""
    spec = sub.shared
    fp0, items0 = fingerprint(spec, with_globals=full)
    # module / class level state: the baseline is taken BEFORE the history is built (building it runs
    # every operation alone, so "state after the last call" would coincide before and after the run)
    gfp0, gitems0 = (fp0, items0) if full else (baseline or fingerprint(spec))
    for i, op in enumerate(ops):
        before = copy.deepcopy(op.arg)
        f, a, kw = op.apply(spec)
        got, raw = outcome_raw(f, *a, **kw)
        ctx.case((sub.codec, op.kind, op.tag, got[0], got[1] if got[0] == 'err' else '', 1),
                 dict(codec=sub.codec, op=describe(op), outcome=got[0]))
        ctx.count('op:%s:%s:%s' % (sub.codec, op.kind, got[0] if got[0] == 'ok' else 'err:' + got[1]))
        if got != op.alone:
            culprit = find_culprit(sub, ops[:i], op)
            ctx.violation('caught-by=history(1 thread): %s on the shared %s specification returned %r, alone on a fresh '
                          'specification %r%s' % (describe(op), sub.codec, short(got), short(op.alone),
                                                  '; after ' + describe(culprit) if culprit else ''),
                          replay_doc(sub, ops[:i + 1], 1, 'result differs', dict(index=i)))
            return False
        if canon(op.arg) != canon(before):
            ctx.violation('caught-by=input-copy: %s modified its input value: %r -> %r' % (
                describe(Op(op.kind, op.tname, before, op.kw)), short(canon(before)), short(canon(op.arg))),
                replay_doc(sub, [Op(op.kind, op.tname, before, op.kw, op.tag)], 1, 'input modified', dict(index=0)))
            return False
        fp, items = fingerprint(spec, with_globals=full)
        if fp != fp0:
            diff = fp_diff(items0, items)
            attrs = set(re.findall(r'\.([A-Za-z_]\w*)(?:\[[^\]]*\])*(?= |:|$)', ' '.join(d.split(' = ')[0].split(': ')[0] for d in diff)))
            listed = sorted(a for a in attrs if a in table_attrs)
            ctx.violation('caught-by=fingerprint: shared state changed by %s on %s: %s [%s]' % (
                describe(op), sub.codec, '; '.join(diff),
                'write-set table lists a shared write of ' + ','.join(listed) if listed else
                'write-set table has unclassified (Unknown) rows' if 'UNKNOWN' in table_attrs else
                'NOT in the write-set table: the translator missed this write'),
                replay_doc(sub, ops[:i + 1], 1, 'fingerprint changed', dict(index=i, diff=diff)))
            return False
        if do_scribble and raw is not None:
            scribble(raw)          # the caller owns what it was given back
    if not full:
        # module-level and class-level state: compared once per history; on a difference the history
        # is re-run with the full fingerprint after every call to name the operation
        gfp, gitems = fingerprint(spec)
        if gfp != gfp0:
            diff = fp_diff(gitems0, gitems)
            sub2 = Subject(sub.mod, sub.codec, sub.parsed, via_text=False)
            if run_sequential(ctx, sub2, ops, table_attrs, do_scribble, full=True):
                ctx.violation('caught-by=fingerprint: module / class level state changed during a history on %s: %s' % (
                    sub.codec, '; '.join(diff)), replay_doc(sub, ops, 1, 'fingerprint changed', dict(diff=diff)))
            return False
    return True


def short(x):
    s = repr(x)
    return s if len(s) < 160 else s[:157] + '...'


def find_culprit(sub, prefix, op):
    """the earliest single earlier operation after which op misbehaves on a fresh specification"""
    for p in prefix:
        spec = sub.fresh()
        guarded(lambda: p.run(spec, copy.deepcopy(p.arg)))
        r = guarded(lambda: op.run(spec, copy.deepcopy(op.arg)))
        if r is not None and r != op.alone:
            return p
    return None


def run_threads(ctx, sub, ops, k, interval):
    """k threads share ONE specification; each op has its own input object"""
    spec = sub.shared
    fp0, items0 = fingerprint(spec)
    rng = ctx.rng
    lanes = [[] for _ in range(k)]
    for i, op in enumerate(ops):
        lanes[rng.randrange(k)].append(i)
    args = [copy.deepcopy(op.arg) for op in ops]
    results = [None] * len(ops)
    barrier = threading.Barrier(k)

    def work(lane):
        try:
            barrier.wait(10)
        except threading.BrokenBarrierError:
            pass
        for i in lane:
            results[i] = ops[i].run(spec, args[i])

    old = sys.getswitchinterval()
    sys.setswitchinterval(interval)
    ths = [threading.Thread(target=work, args=(lane,), daemon=True) for lane in lanes]
    try:
        for t in ths:
            t.start()
        deadline = time.time() + 60
        for t in ths:
            t.join(max(0.1, deadline - time.time()))
    finally:
        sys.setswitchinterval(old)
    if any(t.is_alive() for t in ths):
        ctx.violation('caught-by=threads: history of %d operations on %s did not finish with %d threads (every '
                      'operation finishes when made alone)' % (len(ops), sub.codec, k),
                      replay_doc(sub, ops, k, 'hang', dict(interval=interval)))
        return False
    for i, op in enumerate(ops):
        ctx.case((sub.codec, op.kind, op.tag, results[i][0], results[i][1] if results[i][0] == 'err' else '', k))
        if results[i] != op.alone:
            ctx.violation('caught-by=threads(%d, switch interval %g): %s on the shared %s specification returned %r, alone '
                          'on a fresh specification %r' % (k, interval, describe(op), sub.codec, short(results[i]),
                                                           short(op.alone)),
                          replay_doc(sub, ops, k, 'result differs', dict(index=i, interval=interval)))
            return False
        if canon(args[i]) != canon(op.arg):
            ctx.violation('caught-by=input-copy(threads): %s modified its input value' % describe(op),
                          replay_doc(sub, [op], 1, 'input modified', dict(index=0)))
            return False
    fp, items = fingerprint(spec)
    if fp != fp0:
        diff = fp_diff(items0, items)
        ctx.violation('caught-by=fingerprint(threads): shared state changed by a history on %s: %s' % (sub.codec, '; '.join(diff)),
                      replay_doc(sub, ops, k, 'fingerprint changed', dict(diff=diff, interval=interval)))
        return False
    ctx.count('threads:%d' % k)
    return True


# --------------------------------------------------------------------------------------
# the structured-DEFAULT aliasing channel

ALIAS_SPEC = '''M DEFINITIONS AUTOMATIC TAGS ::= BEGIN
T ::= SEQUENCE { a INTEGER, l SEQUENCE OF INTEGER DEFAULT {1, 2}, s S DEFAULT {x 5}, o OCTET STRING DEFAULT '0102'H }
S ::= SEQUENCE { x INTEGER }
END'''
ALIAS_PATCH = {'l': [1, 2], 's': {'x': 5}}


def alias_subject(codec, spec_text=ALIAS_SPEC, patch=None):
    """A specification dictionary with structured DEFAULT values, as a correct front end would
    produce them (the text parser of /repo turns `DEFAULT {1, 2}` into the string '{')."""
    patch = ALIAS_PATCH if patch is None else patch
    d = asn1tools.parse_string(spec_text)
    for m in d['M']['types']['T']['members']:
        if m['name'] in patch:
            m['default'] = copy.deepcopy(patch[m['name']])
    return asn1tools.compile_dict(d, codec)


def alias_probe(codec, spec_text=ALIAS_SPEC, patch=None, value=None):
    """decode a value with absent structured defaults, mutate what came back, decode again"""
    value = {'a': 1} if value is None else value
    spec = alias_subject(codec, spec_text, patch)
    data = spec.encode('T', value)
    first = spec.decode('T', data)
    scribble(first)
    second = outcome(spec.decode, 'T', data)
    fresh = outcome(alias_subject(codec, spec_text, patch).decode, 'T', data)
    third = outcome(spec.encode, 'T', value)
    fresh_enc = outcome(alias_subject(codec, spec_text, patch).encode, 'T', value)
    return second == fresh and third == fresh_enc, second, fresh


def text_defaults_immutable(ctx):
    """The text front end never yields a mutable DEFAULT (so the aliasing channel is closed for
    modules given as text): checked on every compiled member of a module with every kind of default."""
    text = '''M DEFINITIONS AUTOMATIC TAGS ::= BEGIN
T ::= SEQUENCE { b BOOLEAN DEFAULT TRUE, i INTEGER DEFAULT 5, e ENUMERATED {x, y} DEFAULT y,
  o OCTET STRING DEFAULT '0102'H, s IA5String DEFAULT "ab", bs BIT STRING DEFAULT '101'B,
  l SEQUENCE OF INTEGER DEFAULT {1, 2}, q S DEFAULT {x 5}, c CHOICE { p INTEGER } DEFAULT p:3 }
S ::= SEQUENCE { x INTEGER }
END'''
    bad = []
    for codec in CODECS:
        spec = asn1tools.compile_string(text, codec)
        for path, tok in walk([('spec', spec)]):
            pass
        stack = [spec.types['T'].type]
        seen = set()
        while stack:
            o = stack.pop()
            if id(o) in seen:
                continue
            seen.add(id(o))
            d = getattr(o, 'default', None)
            if isinstance(d, (list, dict, bytearray, set)) or (isinstance(d, tuple) and any(
                    isinstance(x, (list, dict, bytearray)) for x in d)):
                bad.append((codec, getattr(o, 'name', '?'), repr(d)))
            for v in getattr(o, '__dict__', {}).values():
                if isinstance(v, list):
                    stack.extend(x for x in v if hasattr(x, '__dict__'))
                elif hasattr(v, '__dict__') and not isinstance(v, _CALLABLE):
                    stack.append(v)
    ctx.obligation('text-front-end-yields-no-mutable-default', not bad, repr(bad[:3]))
    for codec, name, d in bad:
        ctx.violation('a DEFAULT compiled from text is a mutable object shared with every decode result: %s member %s = %s'
                      % (codec, name, d), dict(kind='text-default', codec=codec, spec=text, member=name))


def aliasing(ctx, findings):
    recorded = {f['id']: f for f in findings}
    f = recorded.get('decoded-default-aliased')
    for codec in CODECS:
        if codec == 'gser':
            continue
        ok, second, fresh = alias_probe(codec)
        ctx.case(('alias', codec, ok), dict(kind='alias', codec=codec, same_as_fresh=ok))
        ctx.count('alias:%s:%s' % (codec, 'independent' if ok else 'aliased'))
        if ok:
            continue
        what = ('%s: after mutating the object returned for an absent structured DEFAULT, the next decode of the same '
                'bytes returns %s instead of %s' % (codec, short(second), short(fresh)))
        if f is not None and codec in f['witness']['codecs']:
            if not ctx.__dict__.setdefault('_alias_reported', False):
                ctx._alias_reported = True
                ctx.known_finding(f['id'], f['what'])
        else:
            ctx.violation('caught-by=alias-probe: ' + what,
                          dict(kind='alias', codec=codec, spec=ALIAS_SPEC, patch=jenc(ALIAS_PATCH), value=jenc({'a': 1})))


# --------------------------------------------------------------------------------------

def regen(ctx):
    import writesets
    out_json = os.path.join(common.COQ, 'cases', 'C18_writesets.json')
    os.makedirs(os.path.dirname(out_json), exist_ok=True)
    try:
        doc = writesets.emit(common.REPO, os.path.join(common.COQ, 'gen', 'WriteSets.v'), out_json)
    except (Exception, SystemExit) as e:  # noqa
        ctx.obligation('translator:writesets', False, '%s: %s' % (type(e).__name__, e))
        return None
    ctx.obligation('translator:writesets', True, '%d rows, %d reachable classes' % (len(doc['table']), len(doc['methods'])))
    ctx.obligation('table:no-shared-or-unknown-write', not doc['shared'],
                   '; '.join('%(module)s %(cls)s.%(method)s:%(line)s %(kind)s %(detail)s -> %(recv)s %(arg)s' % r
                             for r in doc['shared'][:4]))
    ctx.obligation('table:root-allocations', all(r[4] for r in doc['root_allocations']),
                   repr([r for r in doc['root_allocations'] if not r[4]]))
    if doc['benign_stale']:
        ctx.log('note: audited augmented assignments no longer in the source: %r' % doc['benign_stale'])
    ctx.extra['write_table_rows'] = len(doc['table'])
    ctx.extra['reachable_functions_per_codec_family'] = doc['reachable_per_family']
    ctx.extra['fresh_classes'] = ['%s.%s' % (m, c) for m, c, _ in doc['fresh_classes']]
    return doc


def replay(ctx):
    doc = json.load(open(ctx.replay))
    r = doc['replay']
    print('replaying', r.get('kind'), r.get('what', ''))
    if r.get('kind') == 'history':
        mod = types.SimpleNamespace(text=r['spec'])
        parsed = asn1tools.parse_string(r['spec'])
        sub = Subject.__new__(Subject)
        sub.mod, sub.codec, sub.parsed = mod, r['codec'], parsed
        sub.shared = asn1tools.compile_string(r['spec'], r['codec'])
        ops = [Op.from_json(o) for o in r['ops']]
        for op in ops:
            op.alone = op.run(sub.fresh(), copy.deepcopy(op.arg))
        fp0, items0 = fingerprint(sub.shared)
        for i, op in enumerate(ops):
            before = copy.deepcopy(op.arg)
            got = op.run(sub.shared)
            fp, items = fingerprint(sub.shared)
            print('%2d %s\n     shared: %s\n     alone : %s%s%s' % (
                i, describe(op), short(got), short(op.alone), '' if got == op.alone else '   <-- DIFFERENT',
                '' if canon(before) == canon(op.arg) else '   <-- INPUT MODIFIED'))
            if fp != fp0:
                print('     shared state changed:', '; '.join(fp_diff(items0, items)))
                fp0, items0 = fp, items
        if r.get('nthreads', 1) > 1:
            for attempt in range(20):
                ok = run_threads(ctx, sub, ops, r['nthreads'], r.get('interval', 1e-5))
                if not ok:
                    break
            print('threaded re-run (%d threads): %s' % (r['nthreads'], 'reproduced' if not ok else 'not reproduced in 20 runs'))
    elif r.get('kind') == 'alias':
        ok, second, fresh = alias_probe(r['codec'], r['spec'], jdec(r['patch']), jdec(r['value']))
        print('second decode:', second, '\nfresh        :', fresh, '\n->', 'independent' if ok else 'ALIASED')
    else:
        print(json.dumps(r, indent=1)[:3000])


def run(ctx):
    if ctx.replay:
        return replay(ctx)
    ctx.rule = ('histories: (module x codec) x <=50 operations drawn from {encode, decode, decode_with_length, decode_length, '
                'CompiledType.encode/decode} x {valid, invalid/ill-typed value, truncated/corrupted/foreign bytes} x '
                '{check_types, check_constraints}; each history run with 1 thread (fingerprint + input copy + result after '
                'every call, returned objects scribbled on) and with 2..8 threads under 4 switch intervals; distinct by '
                '(codec, operation, input class, outcome class / exception type, threads); non-trivial = failing '
                'operation, or recursive / shared-sub-type type, or > 1 thread')
    ctx.checker_cmd = ('translator/writesets.py -> coq/gen/WriteSets.v; coq/build.sh theories/Props/C18.vo; '
                       'coqc Props/C18.v (Print Assumptions audit)')
    ctx.trusted_base += [
        'translator/writesets.py: the write-set table is complete for the Python statements that run at encode/decode/check '
        'time (fail-closed ast analysis; name-based dispatch; documented assumptions: ** arguments fill optional parameters '
        'only, asn1tools/compiler.py objects are not handed to codec code, 4 audited augmented assignments on immutable '
        'values, input values are plain data) -- validated on every run by the fingerprint of all shared state after every '
        'call of the sequential histories',
        'heap model Stateless/Heap.v: an atomic step reads shared + own-call-local locations and writes one location; '
        'a shared location only through a table entry (wf_stmt); CPython executes each such step atomically (GIL)',
        'thread schedules are sampled (2..8 threads, switch intervals 1e-6..5e-3), not enumerated',
    ]
    ctx.assumptions += [
        'a freshly compiled specification has the same shared heap as the one in use (compile determinism: C13/C17)',
        'callers do not mutate objects returned by decode that alias a structured DEFAULT given through compile_dict '
        '(known finding decoded-default-aliased; closed for text modules, checked)',
    ]
    doc = regen(ctx)
    ctx.log('write-set table regenerated')
    ok = ctx.coq_props()
    ctx.log('Coq development checked: %s' % ok)
    table_attrs = set()
    if doc:
        for r in doc['shared']:
            if r['recv'] == 'Unknown':
                table_attrs.add('UNKNOWN')
            else:
                table_attrs.add(r['arg'].split('.')[-1])
                if r['detail']:
                    table_attrs.add(r['detail'])
    findings = common.load_findings('C18')
    text_defaults_immutable(ctx)
    aliasing(ctx, findings)

    rng = ctx.rng
    nmod = 6 if ctx.quick else 40
    nhist = 1 if ctx.quick else 2
    budget = time.time() + (80 if ctx.quick else 1000)
    intervals = [1e-6, 1e-5, 1e-4, 5e-3]
    # when the table proof is broken, look where the table points first
    suspects = []
    if doc:
        for r in doc['shared']:
            c = r['module'].split('.')[-1]
            suspects += [x for x in CODECS if x == c or (c == 'ber' and x == 'der') or (c == 'per' and x == 'uper')]
    done = 0
    for mi in range(nmod):
        mod = gen.gen_module(rng)
        parsed = asn1tools.parse_string(mod.text)
        order = sorted(CODECS, key=lambda c: (c not in suspects, rng.random()))
        for ci, codec in enumerate(order):
            if time.time() > budget or len(ctx.violations) >= 6:
                break
            try:
                sub = Subject(mod, codec, parsed, via_text=(ci == 0 or not ctx.quick))
            except Exception as e:  # noqa
                ctx.count('compile-fail:%s:%s' % (codec, type(e).__name__))
                ctx.violation('generated module does not compile with %s: %s: %s' % (codec, type(e).__name__, e),
                              dict(kind='compile', codec=codec, spec=mod.text))
                continue
            for _ in range(nhist):
                baseline = fingerprint(sub.shared)
                ops = make_history(ctx, sub, rng.randrange(20, 51))
                if not run_sequential(ctx, sub, ops, table_attrs, baseline=baseline):
                    break
                good = True
                for k in rng.sample(range(2, 9), 2 if ctx.quick else 4):
                    if not run_threads(ctx, sub, ops, k, rng.choice(intervals)):
                        good = False
                        break
                if not good:
                    break
                done += 1
        if time.time() > budget:
            break
    ctx.extra['histories_completed'] = done
    ctx.log('histories completed: %d' % done)
    ctx.obligation('histories:some-completed-or-violation', done > 0 or bool(ctx.violations), 'none ran')
    if (not ok or (doc and doc['shared']) or doc is None) and not ctx.violations:
        rows = doc['shared'] if doc else []
        if rows:
            ctx.violation('caught-by=table: write-set table of /repo has shared / unclassified writes: ' + '; '.join(
                '%(module)s %(cls)s.%(method)s:%(line)s %(kind)s %(detail)s -> %(recv)s %(arg)s [%(text)s]' % r for r in rows[:5]),
                dict(kind='table', rows=rows[:20]), no_input=True)
        else:
            common.proof_broken(ctx)
