#!/bin/bash
# Runs every claimed check (quick tier by default) on /repo and prints one summary line per property.
cd "$(dirname "$0")/.."
T=${1:-quick}; S=${2:-1}
for p in $(/venv/bin/python -c "import json; print(' '.join(c['property_id'] for c in json.load(open('MANIFEST.json'))['checks']))" 2>/dev/null); do
  start=$(date +%s)
  VERIF_SEED=$S timeout 5400 ./check $p --tier $T > /tmp/runall_$p.log 2>&1; rc=$?
  echo "$p exit=$rc $(( $(date +%s) - start ))s viol=$(grep -c '^VIOLATION' /tmp/runall_$p.log) known=$(grep -c '^KNOWN-FINDING' /tmp/runall_$p.log) :: $(tail -1 /tmp/runall_$p.log | cut -c1-120)"
done
