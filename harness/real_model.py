"""Correspondence glue for the REAL model (coq/theories/Ber/Real.v).

run_real(ctx) evaluates the Coq [encode_real] / [decode_real] with vm_compute on a deterministic list of
doubles / content octets and compares with asn1tools.codecs.ber.encode_real / decode_real of the tree under test.
Everything about a double is computed exactly (float.as_integer_ratio); no float ever reaches Coq.

Called from C01 / C03 (run_real(ctx)); stand-alone:  VERIF_SEED=1 python harness/real_model.py
"""
import math
import struct

import common
from common import to_coq
import lib  # noqa: F401  (puts the tree under test on sys.path and checks it is the one imported)
from asn1tools.codecs import ber
import asn1tools

IMPORTS = ['Base.Prelude', 'Base.Corr', 'Ber.Real']
MANTS = [1, 3, 2 ** 52 + 1, 2 ** 53 - 1]
MAX_REPORT = 4          # violations reported per direction (each costs one more coqc run); all are counted


def exact(x):
    """(kind, neg, m, e) of a Python float; kind 1 inf, 2 -inf, 3 nan, 4 zero, 6 finite = (-1)^neg * m * 2^e, m odd."""
    if math.isnan(x):
        return (3, False, 0, 0)
    if math.isinf(x):
        return (1 if x > 0 else 2, False, 0, 0)
    neg = math.copysign(1.0, x) < 0
    if x == 0:
        return (4, neg, 0, 0)
    num, den = abs(x).as_integer_ratio()
    tz = (num & -num).bit_length() - 1
    return (6, neg, num >> tz, tz - (den.bit_length() - 1))


def is_double(m, e):
    return m % 2 == 1 and 0 < m < 2 ** 53 and e >= -1074 and e + m.bit_length() - 1 <= 1023


def mk(neg, m, e):
    x = math.ldexp(float(m), e)
    assert exact(x) == (6, False, m, e), (m, e, x)
    return -x if neg else x


def doubles(rng, n_random):
    """Deterministic list first (every binary exponent, boundary exponents with every mantissa, subnormals,
    specials), then random bit patterns."""
    out = [float('inf'), float('-inf'), float('nan'), 0.0, -0.0]
    for e in range(-1074, 1024):
        ms = [m for m in MANTS if is_double(m, e)]
        m = ms[(e + 1074) % len(ms)]
        out.append(mk((e & 2) == 2, m, e))
    edges = [-1074, -1073, -1023, -1022, -1021, -971, -970, -257, -256, -255, -130, -129, -128, -127, -1, 0, 1, 126,
             127, 128, 129, 254, 255, 256, 257, 970, 971, 972, 1021, 1022, 1023]
    for e in edges:
        for m in MANTS + ([255, 257, 65535, 65537, 2 ** 24 - 1, 2 ** 32 - 1, 2 ** 40 + 1, 2 ** 48 - 1] if e == 0 else []):
            if is_double(m, e):
                out.append(mk((e + m) % 3 == 0, m, e))
    for k in range(0, 52, 3):                                      # subnormals: bit patterns below 2^52
        for pat in (1 << k, (1 << (k + 1)) - 1, (1 << k) | 1):
            out.append(struct.unpack('>d', struct.pack('>Q', pat))[0])
    out += [5e-324, 2.2250738585072014e-308, 2.225073858507201e-308, 1.7976931348623157e308, 0.1, 255.0, 256.0,
            -1.5, 1e100, 1e-100, 3.141592653589793]
    for _ in range(n_random):
        pat = rng.getrandbits(64)
        x = struct.unpack('>d', struct.pack('>Q', pat))[0]
        if rng.random() < .3:                                      # short mantissas are the interesting octet counts
            x = math.ldexp(float(rng.getrandbits(rng.randrange(1, 54)) | 1), rng.randrange(-1074, 960))
        if math.isnan(x) or math.isinf(x):
            continue
        out.append(x)
    return out


def impl_encode(x):
    r = lib.attempt(ber.encode_real, x)
    return [0] + list(r[1]) if r[0] == 'ok' else [-1]


def impl_decode(data):
    """Same coding as Real.decode_probe."""
    try:
        x = ber.decode_real(bytearray(data))
    except asn1tools.DecodeError:
        return (-1, 0, 0)
    except IndexError:
        return (-2, 0, 0)
    except ValueError:
        return (-3, 0, 0)
    except OverflowError:
        return (-4, 0, 0)
    except Exception:
        return (-5, 0, 0)
    if not isinstance(x, float):
        return (-6, 0, 0)
    kind, neg, m, e = exact(x)
    if kind == 4:
        return (5 if neg else 4, 0, 0)
    if kind == 6:
        return (7 if neg else 6, m, e)
    return (kind, 0, 0)


def hostile(rng, canon, n):
    """Non-canonical and malformed contents: every control octet with short rests, truncations, long mantissas
    (rounding), zero / even mantissas, leading zero octets, extreme exponents (overflow, underflow)."""
    out = []
    for c in range(256):
        out.append(bytes([c]))
        if c in (0, 3, 0x3f, 0x40, 0x41, 0x42, 0x43, 0x44, 0x7f, 0x80, 0x81, 0x82, 0x83, 0x84, 0x88, 0x90, 0xa0, 0xc0,
                 0xc1, 0xc2, 0xff):
            out.append(bytes([c, rng.randrange(256)]))
            out.append(bytes([c, rng.randrange(256), rng.randrange(256)]))
    out += [b'', b'\x80\x00\x00', b'\xc0\x00\x00', b'\xc0\xff\x00', b'\x81\x00\x00\x00', b'\xc1\xfb\xcd\x01',
            bytes.fromhex('81fbce01'), bytes.fromhex('81fbcd01'), bytes.fromhex('81fbcd03'), bytes.fromhex('81fbce03'),
            bytes.fromhex('81fbcd' + 'ff' * 128), bytes.fromhex('81fbcd' + 'ff' * 127), bytes.fromhex('817fff01'),
            bytes.fromhex('c17fff01'), bytes.fromhex('8103ff01'), bytes.fromhex('81040001'),
            bytes.fromhex('8000' + 'ff' * 128), bytes.fromhex('8000fffffffffffffbff' + 'ff' * 118),
            bytes.fromhex('8000fffffffffffffc00' + '00' * 118), bytes.fromhex('80ff3fffffffffffff'),
            bytes.fromhex('80ff20000000000001'), bytes.fromhex('80ff20000000000003'), bytes.fromhex('8000ff'),
            bytes.fromhex('800000ff'), bytes.fromhex('8100000001'), bytes.fromhex('81ff8001'), bytes.fromhex('81008001'),
            bytes.fromhex('81007f01'), bytes.fromhex('81ff7f01'), bytes.fromhex('0331452b30'), b'\x40\x00', b'\x43\x07']
    for s in (1, 2, 3, 8, 9, 52, 53, 54, 60):                      # rounding into the subnormal grid: ties, odd/even
        for mant in (1, 2, 3, 5, 6, 7, 1 << (s - 1), 3 << (s - 1), 5 << (s - 1), (1 << s) + 1, (3 << s) - 1,
                     2 ** 53 - 1, 2 ** 53 + 1, 2 ** 54 - 1, 3 << 51, (2 ** 52 + 1) << 1):
            ex = -1074 - s
            mo = mant.to_bytes((mant.bit_length() + 7) // 8, 'big')
            out.append(bytes([0x81]) + (ex & 0xffff).to_bytes(2, 'big') + mo)
    while len(out) < n:
        kind = rng.randrange(8)
        base = bytearray(rng.choice(canon)) if canon else bytearray(b'\x80\x00\x01')
        if kind == 0 and base:
            base[rng.randrange(len(base))] ^= 1 << rng.randrange(8)
        elif kind == 1:
            base = base[:rng.randrange(len(base) + 1)]
        elif kind == 2:                                            # long mantissa: float() has to round
            base = bytearray([rng.choice([0x80, 0xc0]), rng.randrange(256)]) + \
                bytearray(rng.randrange(256) for _ in range(rng.randrange(7, 12)))
        elif kind == 3:                                            # two-octet exponent anywhere, any mantissa length
            ex = rng.choice([rng.randrange(-32768, 32768), rng.randrange(-1140, -1000), rng.randrange(900, 1100)])
            base = bytearray([rng.choice([0x81, 0xc1])]) + bytearray((ex & 0xffff).to_bytes(2, 'big')) + \
                bytearray(rng.randrange(256) for _ in range(rng.choice([0, 1, 1, 2, 7, 8, 9, 20])))
        elif kind == 4:                                            # value close to the overflow threshold
            nbytes = rng.randrange(1, 12)
            mant = rng.getrandbits(8 * nbytes) | (rng.choice([0, 1]) << (8 * nbytes - 1))
            ex = 1024 - mant.bit_length() + rng.choice([-1, 0, 0, 1]) if mant else 0
            top = rng.choice([mant, (1 << max(mant.bit_length(), 1)) - 1])
            base = bytearray([0x81]) + bytearray((ex & 0xffff).to_bytes(2, 'big')) + \
                bytearray(top.to_bytes(nbytes, 'big'))
        elif kind == 5:                                            # leading / trailing zero octets in the mantissa
            base = base[:2] + bytearray([0] * rng.randrange(0, 3)) + base[2:] + bytearray([0] * rng.randrange(0, 3))
        elif kind == 6:                                            # around the underflow threshold, ties included
            mant = rng.choice([1, 2, 3, 4, 5, 6, 7, 12, 2 ** 52, 2 ** 53 - 1, 2 ** 53, 2 ** 53 + 1,
                               rng.getrandbits(rng.randrange(1, 70)) | 1])
            ex = -1074 - mant.bit_length() + rng.randrange(-3, 60)
            mo = mant.to_bytes((mant.bit_length() + 7) // 8, 'big')
            base = bytearray([rng.choice([0x81, 0xc1])]) + bytearray((ex & 0xffff).to_bytes(2, 'big')) + bytearray(mo)
        else:
            base = bytearray(rng.randrange(256) for _ in range(rng.randrange(0, 6)))
        out.append(bytes(base))
    return out


def run_real(ctx, n_random=120, n_hostile=620):
    """<= 3000 model evaluations.  Returns a small statistics dict; failures are ctx.violation()s."""
    rng = ctx.rng
    xs = doubles(rng, n_random)
    enc_cases, enc_n, canon = [], [], []
    for x in xs:
        kind, neg, m, e = exact(x)
        if kind == 6:
            assert is_double(m, e)
        want = impl_encode(x)
        enc_cases.append(((neg, kind, m, e), want))
        enc_n.append(((neg, kind, m, e), int.from_bytes(b'\x01' + bytes(want[1:]), 'big') if want[0] == 0 else 0))
        if want[0] == 0:
            canon.append(bytes(want[1:]))
        ctx.case(('real-enc', kind, neg, m.bit_length(), e if abs(e) < 300 or e < -1000 else e // 8))
        ctx.count('real:enc:' + ('special' if kind < 4 else 'zero' if kind == 4 else
                                 'exp1' if -128 <= e <= 127 else 'exp2'))
    body = '''
Definition cases : list ((bool * Z * Z * Z) * Z) := %s.
Eval vm_compute in mismatches Z.eqb encode_probe_n cases.
''' % to_coq(enc_n)
    (bad,) = ctx.coq_eval('real_enc', IMPORTS, body)
    ctx.count('real:enc:mismatches', len(bad))
    n_enc_bad = len(bad)
    for i in bad[:MAX_REPORT]:
        (mv,) = ctx.coq_eval('real_enc1', IMPORTS, 'Eval vm_compute in encode_probe %s.\n' % to_coq(enc_cases[i][0]))
        ctx.violation('model and ber.encode_real disagree on %r (neg, kind, m, e) = %r: impl %s model %s' % (
            xs[i], enc_cases[i][0], bytes(enc_cases[i][1][1:]).hex() if enc_cases[i][1][0] == 0 else 'exception',
            bytes(mv[1:]).hex() if mv and mv[0] == 0 else 'error'),
            dict(kind='real-corr-enc', x=repr(xs[i]), hex=xs[i].hex() if isinstance(xs[i], float) else None,
                 impl=enc_cases[i][1], model=repr(mv)))
    # decode direction: canonical contents (every one produced above) and hostile ones
    step = max(1, len(canon) // 120)
    datas = canon[::step] + hostile(rng, canon, n_hostile)
    dec_cases = []
    for d in datas:
        want = impl_decode(d)
        dec_cases.append((d, want))
        ctx.case(('real-dec', d[:1].hex(), min(len(d), 12), want[0]))
        ctx.count('real:dec:' + {-1: 'DecodeError', -2: 'IndexError', -3: 'ValueError', -4: 'OverflowError',
                                 -5: 'other-exception', -6: 'not-a-float'}.get(want[0], 'value'))
    body = '''
Definition cases : list (Z * (Z * Z * Z)) := %s.
Eval vm_compute in mismatches triple_eqb decode_probe_n cases.
Eval vm_compute in mismatches triple_eqb (fun n => let '(c, _, _) := decode_probe_n n in if c =? -9 then (0, 0, 0) else (1, 0, 0))
                              (map (fun c => (fst c, (1, 0, 0))) cases).
''' % to_coq([(int.from_bytes(b'\x01' + d, 'big'), w) for d, w in dec_cases])
    bad, unmodelled = ctx.coq_eval('real_dec', IMPORTS, body)
    unmodelled = set(unmodelled)
    ctx.count('real:dec:model-unmodelled(no verdict)', len(unmodelled))
    bad = [i for i in bad if i not in unmodelled]
    ctx.count('real:dec:mismatches', len(bad))
    for i in bad[:MAX_REPORT]:
        d = dec_cases[i][0]
        (mv,) = ctx.coq_eval('real_dec1', IMPORTS, 'Eval vm_compute in decode_probe %s.\n' % to_coq(d))
        ctx.violation('model and ber.decode_real disagree on %s: impl %r model %r' % (d.hex()[:80], dec_cases[i][1], mv),
                      dict(kind='real-corr-dec', data=d.hex(), impl=list(dec_cases[i][1]), model=repr(mv)))
    return dict(encode_cases=len(enc_cases), decode_cases=len(dec_cases), unmodelled=len(unmodelled),
                encode_mismatches=n_enc_bad, decode_mismatches=len(bad))


if __name__ == '__main__':
    import os
    import sys
    ctx = common.Ctx('REAL', 'quick', int(os.environ.get('VERIF_SEED', '1')))
    stats = run_real(ctx)
    print(stats, 'violations', len(ctx.violations), 'histogram', ctx.histogram)
    sys.exit(1 if ctx.violations else 0)
