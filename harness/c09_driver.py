"""Generated C test driver for the C source generator checks (C09; reusable by C10).

Given a Spec (c09_types), the header parsed by translator/cparse.py and a list
of test values, produce one C file that
  * fills a struct from each value (struct pre-filled with 0xA5 garbage),
  * encodes into an exact-size heap buffer, into every smaller size (with canary
    bytes on both sides), decodes from an exact-size heap copy (destination
    pre-filled with 0x5A garbage) and from every truncation, and prints
    everything as text,
  * in fuzz mode reads "type-index hex" lines, decodes, and for accepted inputs
    re-encodes, re-decodes and prints both struct dumps.
The expected text is computed here from the value alone (expected_tokens), so
the comparison does not depend on anything the generator under test emitted
except the struct field names of the documented API.

Layout conventions relied on (the documented public interface of the generated
header): struct per type named in the "Type X in module Y" comment, members
`value` / `dummy` for top-level scalars / NULL, `is_<m>_present`, `length`,
`buf`, `elements`, `choice`, `value.<alt>`; everything else (struct names,
enum constant names and numbers, C integer types, capacities) is read from the
parsed header and checked against the type (LayoutError).
"""
import re
import sys
import os

sys.path.insert(0, os.path.join(os.path.dirname(os.path.dirname(os.path.abspath(__file__))), 'translator'))
import cparse  # noqa: E402


class LayoutError(Exception):
    """The header does not provide what the type needs (a mis-translation that
    is visible without running anything)."""


def canonical(name):
    return re.sub(r'[^a-zA-Z0-9]', '_', name)


def c_int_literal(v):
    if v >= 0:
        return '%dULL' % v if v > 2 ** 63 - 1 else '%dLL' % v
    if v == -2 ** 63:
        return '(-9223372036854775807LL - 1)'
    return '(-%dLL)' % -v


def bits_to_int(v, codec='uper'):
    """C representation of a fixed-size BIT STRING value: UPER takes the bits
    right-aligned in SIZE bits; OER takes the octets of the encoding (bits
    left-aligned) as a big-endian number of value_length(2^SIZE-1) bytes."""
    data, n = v
    if codec == 'oer':
        width = oer_bits_width(n)
        return int.from_bytes(data, 'big') << (8 * (width - len(data))) if n else 0
    return int.from_bytes(data, 'big') >> (8 * len(data) - n) if n else 0


def oer_bits_width(n):
    """utils.Generator.value_length(2**n - 1): bytes of the C integer written."""
    return 1 if n <= 8 else 2 if n <= 16 else 3 if n <= 24 else 4 if n <= 32 else 8


def real_bits(v, bits):
    import struct
    return struct.pack('>f' if bits == 32 else '>d', v).hex()


class Slot(object):
    """Where a type occurrence lives in the C struct.
    kind 'scalar': expr is an lvalue, ctype its CType
    kind 'struct': prefix is 'p->' or 'p->a.' style, members the Member list
    kind 'none'  : no storage (NULL)"""

    def __init__(self, kind, expr=None, ctype=None, prefix=None, members=None):
        self.kind, self.expr, self.ctype, self.prefix, self.members = kind, expr, ctype, prefix, members


class Walker(object):
    def __init__(self, spec, header, codec='uper'):
        self.spec = spec
        self.h = header
        self.codec = codec
        self.struct_of = {}      # (module, type) -> struct name
        for sname, (tn, mn) in header.type_docs.items():
            self.struct_of[(mn, tn)] = sname
        for m, ts in spec.modules:
            for n, _ in ts:
                if (m, n) not in self.struct_of:
                    raise LayoutError('no struct documented as "Type %s in module %s"' % (n, m))
        self.tmp = 0

    # ---- slots
    def top_slot(self, module, name, ptr='p'):
        sname = self.struct_of[(module, name)]
        return self.named_slot(self.spec.index[(module, name)], sname, ptr + '->')

    def named_slot(self, ty, sname, prefix):
        members = self.h.structs.get(sname)
        if members is None:
            raise LayoutError('struct %s not defined' % sname)
        t = ty
        if t.kind == 'ref':
            # a type that is only a reference: the generator declares the struct of the target inline
            t = self.spec.resolve(t)
        if t.kind in ('bool', 'int', 'enum', 'bits', 'real'):
            m = self.member(members, 'value', sname)
            self.want_scalar(m, sname)
            return Slot('scalar', expr=prefix + 'value', ctype=m.ctype)
        if t.kind == 'null':
            return Slot('none')
        return Slot('struct', prefix=prefix, members=members)

    def member(self, members, name, where):
        for m in members:
            if m.name == name:
                return m
        raise LayoutError('member %r missing in %s' % (name, where))

    def want_scalar(self, m, where):
        if m.array is not None or m.ctype.ptr or not isinstance(m.ctype.base, str) or m.ctype.base.startswith('struct'):
            raise LayoutError('member %r of %s is not a scalar' % (m.name, where))

    def member_slot(self, ty, members, prefix, cname, index=None):
        """Slot of member [cname] (of declared type [ty]) inside [members];
        index: C index expression for `elements`."""
        if ty.kind == 'ref':
            # references to BOOLEAN / INTEGER / NULL types are declared inline (no struct of their own)
            rt = self.spec.resolve(ty)
            if rt.kind in ('bool', 'int', 'null', 'real'):
                ty = rt
        if ty.kind == 'null':
            if any(m.name == cname for m in members):
                raise LayoutError('NULL member %r has storage' % cname)
            return Slot('none')
        m = self.member(members, cname, prefix)
        expr = prefix + cname
        if index is not None:
            if m.array is None:
                raise LayoutError('%s is not an array' % expr)
            expr += '[%s]' % index
        elif m.array is not None:
            raise LayoutError('%s is an array' % expr)
        if ty.kind == 'ref':
            want = 'struct ' + self.struct_of[(ty.module, ty.name)]
            if m.ctype.base != want and isinstance(m.ctype.base, str) and m.ctype.base.startswith('struct '):
                # the compiler may hand out the struct of an alias (B ::= T1) for a member declared T1:
                # same definition, acceptable as long as it denotes the same type
                doc = self.h.type_docs.get(m.ctype.base[7:])
                if doc is not None and (doc[1], doc[0]) in self.spec.index and \
                        self.spec.resolve(self.spec.index[(doc[1], doc[0])]) is self.spec.resolve(ty):
                    want = m.ctype.base
            if m.ctype.base != want or m.ctype.ptr:
                raise LayoutError('%s has type %r, expected %s' % (expr, m.ctype, want))
            return self.named_slot(self.spec.index[(ty.module, ty.name)], want[7:], expr + '.')
        if ty.kind in ('bool', 'int', 'enum', 'bits', 'real'):
            if m.ctype.ptr or not isinstance(m.ctype.base, str) or m.ctype.base.startswith('struct'):
                raise LayoutError('%s is not a scalar' % expr)
            return Slot('scalar', expr=expr, ctype=m.ctype)
        if not (isinstance(m.ctype.base, tuple) and m.ctype.base[1] == 'struct') or m.ctype.ptr:
            raise LayoutError('%s is not an anonymous struct' % expr)
        return Slot('struct', prefix=expr + '.', members=m.ctype.base[2])

    # ---- static layout checks
    def check_scalar(self, t, slot):
        base = slot.ctype.base
        if t.kind == 'real':
            if base != ('float' if t.bits == 32 else 'double'):
                raise LayoutError('%s: REAL binary%d stored as %s' % (slot.expr, t.bits, base))
        elif t.kind == 'bool':
            if base != 'bool':
                raise LayoutError('%s: BOOLEAN stored as %s' % (slot.expr, base))
        elif t.kind == 'int':
            if base not in cparse.INT_TYPES or base == 'bool':
                raise LayoutError('%s: INTEGER stored as %s' % (slot.expr, base))
            sign, width = cparse.INT_TYPES[base]
            lo, hi = (0, 2 ** width - 1) if sign == 'u' else (-2 ** (width - 1), 2 ** (width - 1) - 1)
            if t.lo < lo or t.hi > hi:
                raise LayoutError('%s: INTEGER (%d..%d) does not fit in %s' % (slot.expr, t.lo, t.hi, base))
        elif t.kind == 'bits':
            if base not in cparse.INT_TYPES or cparse.INT_TYPES[base][0] != 'u' or cparse.INT_TYPES[base][1] < t.n:
                raise LayoutError('%s: BIT STRING (SIZE(%d)) stored as %s' % (slot.expr, t.n, base))
        elif t.kind == 'enum':
            if not base.startswith('enum '):
                raise LayoutError('%s: ENUMERATED stored as %s' % (slot.expr, base))
            consts = self.h.enums.get(base[5:])
            if consts is None:
                raise LayoutError('%s: %s not defined' % (slot.expr, base))
            if sorted(v for _, v in consts) != sorted(n for _, n in t.items):
                raise LayoutError('%s: constants of %s are %r, enumeration numbers are %r' % (
                    slot.expr, base, sorted(v for _, v in consts), sorted(n for _, n in t.items)))

    def length_member(self, slot, lo, hi):
        """C expression of the element count, and a layout check."""
        has = any(m.name == 'length' for m in slot.members)
        if lo == hi:
            if has:
                raise LayoutError('%slength exists for a fixed size' % slot.prefix)
            return None
        m = self.member(slot.members, 'length', slot.prefix)
        self.want_scalar(m, slot.prefix)
        base = m.ctype.base
        if base not in cparse.INT_TYPES or cparse.INT_TYPES[base][0] != 'u' or 2 ** cparse.INT_TYPES[base][1] - 1 < hi:
            raise LayoutError('%slength has type %s, maximum is %d' % (slot.prefix, base, hi))
        return slot.prefix + 'length'

    def enum_const(self, slot, number):
        for c, v in self.h.enums[slot.ctype.base[5:]]:
            if v == number:
                return c
        raise LayoutError('no constant with value %d in %s' % (number, slot.ctype.base))

    def choice_parts(self, t, slot):
        cm = self.member(slot.members, 'choice', slot.prefix)
        if not (isinstance(cm.ctype.base, str) and cm.ctype.base.startswith('enum ')):
            raise LayoutError('%schoice is not an enum' % slot.prefix)
        consts = self.h.enums.get(cm.ctype.base[5:])
        if consts is None or len(consts) != len(t.alts):
            raise LayoutError('%s: %d constants for %d alternatives' % (cm.ctype.base, len(consts or []), len(t.alts)))
        if len(set(v for _, v in consts)) != len(consts):
            raise LayoutError('%s: duplicate constant values' % cm.ctype.base)
        um = None
        for m in slot.members:
            if m.name == 'value':
                um = m
        if um is None:
            if any(self.spec.resolve(a).kind != 'null' for _, a in t.alts):
                raise LayoutError('%svalue missing' % slot.prefix)
            umembers = []
        else:
            if not (isinstance(um.ctype.base, tuple) and um.ctype.base[1] == 'union'):
                raise LayoutError('%svalue is not a union' % slot.prefix)
            umembers = um.ctype.base[2]
        return consts, umembers

    # ---- code generation: fill
    def emit_scalar(self, out, expr, literal, number):
        out.append('%s = %s;' % (expr, literal))

    def emit_bytes(self, out, expr, data):
        self.tmp += 1
        out.append('{ static const uint8_t t%d[] = {%s}; memcpy(%s, t%d, %d); }' % (
            self.tmp, ','.join(str(b) for b in data), expr, self.tmp, len(data)))

    def emit_real(self, out, expr, bits, v):
        # through the bit pattern: exact for every value incl. -0.0, infinities, denormals
        out.append('{ uint%d_t t_ = 0x%sULL; memcpy(&%s, &t_, %d); }' % (bits, real_bits(v, bits), expr, bits // 8))

    def fill(self, ty, slot, v, out, where):
        t = self.spec.resolve(ty)
        k = t.kind
        if k == 'null':
            return
        if k in ('bool', 'int', 'enum', 'bits', 'real'):
            if slot.kind != 'scalar':
                raise LayoutError('%s: scalar expected' % where)
            self.check_scalar(t, slot)
            if k == 'real':
                self.emit_real(out, slot.expr, t.bits, v)
            elif k == 'bool':
                self.emit_scalar(out, slot.expr, 'true' if v else 'false', 1 if v else 0)
            elif k == 'int':
                self.emit_scalar(out, slot.expr, c_int_literal(v), v)
            elif k == 'bits':
                self.emit_scalar(out, slot.expr, c_int_literal(bits_to_int(v, self.codec)), bits_to_int(v, self.codec))
            else:
                self.emit_scalar(out, slot.expr, self.enum_const(slot, dict(t.items)[v]), dict(t.items)[v])
            return
        if slot.kind != 'struct':
            raise LayoutError('%s: struct expected' % where)
        if k == 'octets':
            bm = self.member(slot.members, 'buf', slot.prefix)
            if bm.array != t.hi or bm.ctype.base != 'uint8_t':
                raise LayoutError('%sbuf is %s[%r], expected uint8_t[%d]' % (slot.prefix, bm.ctype.base, bm.array, t.hi))
            ln = self.length_member(slot, t.lo, t.hi)
            if ln:
                self.emit_scalar(out, ln, '%d' % len(v), len(v))
            if len(v):
                self.emit_bytes(out, slot.prefix + 'buf', v)
        elif k == 'seq':
            for m in t.members:
                cn = canonical(m.name)
                if m.optional:
                    pm = self.member(slot.members, 'is_%s_present' % cn, slot.prefix)
                    if pm.ctype.base != 'bool':
                        raise LayoutError('%sis_%s_present is not bool' % (slot.prefix, cn))
                    self.emit_scalar(out, '%sis_%s_present' % (slot.prefix, cn), 'true' if m.name in v else 'false',
                                     1 if m.name in v else 0)
                    if m.name not in v:
                        self.member_slot(m.ty, slot.members, slot.prefix, cn)   # layout check only
                        continue
                    mv = v[m.name]
                elif m.has_default:
                    mv = v.get(m.name, m.default)
                else:
                    mv = v[m.name]
                self.fill(m.ty, self.member_slot(m.ty, slot.members, slot.prefix, cn), mv, out, where + '.' + m.name)
            for m in getattr(t, 'additions', []):
                cn = canonical(m.name)
                pm = self.member(slot.members, 'is_%s_addition_present' % cn, slot.prefix)
                if pm.ctype.base != 'bool':
                    raise LayoutError('%sis_%s_addition_present is not bool' % (slot.prefix, cn))
                self.emit_scalar(out, '%sis_%s_addition_present' % (slot.prefix, cn), 'true' if m.name in v else 'false',
                                 1 if m.name in v else 0)
                ms = self.member_slot(m.ty, slot.members, slot.prefix, cn)
                if m.name in v:
                    self.fill(m.ty, ms, v[m.name], out, where + '.' + m.name)
        elif k == 'seqof':
            ln = self.length_member(slot, t.lo, t.hi)
            if ln:
                self.emit_scalar(out, ln, '%d' % len(v), len(v))
            et = self.spec.resolve(t.elem)
            if et.kind != 'null':
                em = self.member(slot.members, 'elements', slot.prefix)
                if em.array != t.hi:
                    raise LayoutError('%selements has capacity %r, expected %d' % (slot.prefix, em.array, t.hi))
            for i, ev in enumerate(v):
                self.fill(t.elem, self.member_slot(t.elem, slot.members, slot.prefix, 'elements', str(i)), ev, out,
                          where + '[%d]' % i)
        elif k == 'choice':
            consts, umembers = self.choice_parts(t, slot)
            idx = [n for n, _ in t.alts].index(v[0])
            self.emit_scalar(out, '%schoice' % slot.prefix, consts[idx][0], consts[idx][1])
            aty = t.alts[idx][1]
            self.fill(aty, self.member_slot(aty, umembers, slot.prefix + 'value.', canonical(v[0])), v[1], out,
                      where + '.' + v[0])
        else:
            raise ValueError(k)

    # ---- code generation: dump
    def dump(self, ty, slot, out, depth=0):
        t = self.spec.resolve(ty)
        k = t.kind
        if k == 'null':
            return
        if k in ('bool', 'int', 'enum', 'bits', 'real'):
            self.check_scalar(t, slot)
            if k == 'real':
                out.append('{ uint%d_t t_; memcpy(&t_, &%s, %d); printf("r%%0%dllx ", (unsigned long long)t_); }' % (
                    t.bits, slot.expr, t.bits // 8, t.bits // 4))
            elif k == 'bool':
                out.append('printf("b%%d ", (int)%s);' % slot.expr)
            elif k == 'enum':
                out.append('printf("e%%lld ", (long long)%s);' % slot.expr)
            elif k == 'bits':
                out.append('printf("s%%llu ", (unsigned long long)%s);' % slot.expr)
            elif cparse.INT_TYPES[slot.ctype.base][0] == 'u':
                out.append('printf("i%%llu ", (unsigned long long)%s);' % slot.expr)
            else:
                out.append('printf("i%%lld ", (long long)%s);' % slot.expr)
            return
        if k == 'octets':
            ln = self.length_member(slot, t.lo, t.hi)
            n = ln if ln else str(t.hi)
            iv = 'j%d' % depth
            out.append('{ unsigned long long %s, n_ = %s; printf("o%%llu:", n_); if (n_ > %d) { printf("!OVER "); n_ = %d; }'
                       % (iv, n, t.hi, t.hi))
            out.append('  for (%s = 0; %s < n_; %s++) printf("%%02x", (unsigned)%sbuf[%s]); printf(" "); }'
                       % (iv, iv, iv, slot.prefix, iv))
        elif k == 'seq':
            for m in t.members:
                cn = canonical(m.name)
                ms = self.member_slot(m.ty, slot.members, slot.prefix, cn)
                if m.optional:
                    out.append('printf("p%%d ", (int)%sis_%s_present);' % (slot.prefix, cn))
                    out.append('if (%sis_%s_present) {' % (slot.prefix, cn))
                    self.dump(m.ty, ms, out, depth)
                    out.append('}')
                else:
                    self.dump(m.ty, ms, out, depth)
            for m in getattr(t, 'additions', []):
                cn = canonical(m.name)
                ms = self.member_slot(m.ty, slot.members, slot.prefix, cn)
                out.append('printf("p%%d ", (int)%sis_%s_addition_present);' % (slot.prefix, cn))
                out.append('if (%sis_%s_addition_present) {' % (slot.prefix, cn))
                self.dump(m.ty, ms, out, depth)
                out.append('}')
        elif k == 'seqof':
            ln = self.length_member(slot, t.lo, t.hi)
            n = ln if ln else str(t.hi)
            iv = 'i%d' % depth
            out.append('{ unsigned long long %s, n_ = %s; printf("n%%llu ", n_); if (n_ > %d) { printf("!OVER "); n_ = %d; }'
                       % (iv, n, t.hi, t.hi))
            out.append('  for (%s = 0; %s < n_; %s++) {' % (iv, iv, iv))
            self.dump(t.elem, self.member_slot(t.elem, slot.members, slot.prefix, 'elements', iv), out, depth + 1)
            out.append('} }')
        elif k == 'choice':
            consts, umembers = self.choice_parts(t, slot)
            out.append('switch (%schoice) {' % slot.prefix)
            for idx, (an, aty) in enumerate(t.alts):
                out.append('case %s: printf("c%d ");' % (consts[idx][0], idx))
                self.dump(aty, self.member_slot(aty, umembers, slot.prefix + 'value.', canonical(an)), out, depth)
                out.append('break;')
            out.append('default: printf("c?%%lld ", (long long)%schoice); break; }' % slot.prefix)
        else:
            raise ValueError(k)


def check_named_bits(spec, header, walker):
    oer = walker.codec == 'oer'

    """The header declares one constant per named bit; with the right-aligned
    integer representation of a BIT STRING (SIZE(n)) bit k is 1 << (n-1-k)."""
    def rec(t, prefix, path):
        k = t.kind
        if k == 'bits' and t.named:
            for name, bit in t.named:
                cname = (prefix + ''.join('_' + p for p in path) + '_' + canonical(name)).upper()
                if cname not in header.consts:
                    raise LayoutError('constant %s for named bit %s(%d) missing' % (cname, name, bit))
                got = header.consts[cname][1]
                want = 1 << ((8 * oer_bits_width(t.n) - 1 - bit) if oer else (t.n - 1 - bit))
                if got != want:
                    raise LayoutError('named bit %s(%d) of BIT STRING (SIZE(%d)): constant %s = 0x%x, the encoder '
                                      'takes the value right-aligned (bit %d is 0x%x)' % (name, bit, t.n, cname, got, bit, want))
        elif k == 'seq':
            for m in t.members + getattr(t, 'additions', []):
                rec(m.ty, prefix, path + [canonical(m.name)])
        elif k == 'seqof':
            rec(t.elem, prefix, path)
        elif k == 'choice':
            for n, a in t.alts:
                rec(a, prefix, path + [canonical(n)])
    for m, ts in spec.modules:
        for n, t in ts:
            sname = walker.struct_of[(m, n)]
            rec(spec.resolve(t) if t.kind == 'ref' else t, sname[:-2], [])


def expected_tokens(spec, ty, v, out=None, codec='uper'):
    """The text dump() prints for value v (Python codec value form)."""
    top = out is None
    if top:
        out = []
    t = spec.resolve(ty)
    k = t.kind
    if k == 'bool':
        out.append('b%d' % (1 if v else 0))
    elif k == 'int':
        out.append('i%d' % v)
    elif k == 'enum':
        out.append('e%d' % dict(t.items)[v])
    elif k == 'bits':
        out.append('s%d' % bits_to_int(v, codec))
    elif k == 'real':
        out.append('r' + real_bits(v, t.bits))
    elif k == 'octets':
        out.append('o%d:%s' % (len(v), bytes(v).hex()))
    elif k == 'seq':
        for m in t.members:
            if m.optional:
                out.append('p%d' % (1 if m.name in v else 0))
                if m.name in v:
                    expected_tokens(spec, m.ty, v[m.name], out, codec)
            elif m.has_default:
                expected_tokens(spec, m.ty, v.get(m.name, m.default), out, codec)
            else:
                expected_tokens(spec, m.ty, v[m.name], out, codec)
        for m in getattr(t, 'additions', []):
            out.append('p%d' % (1 if m.name in v else 0))
            if m.name in v:
                expected_tokens(spec, m.ty, v[m.name], out, codec)
    elif k == 'seqof':
        out.append('n%d' % len(v))
        for e in v:
            expected_tokens(spec, t.elem, e, out, codec)
    elif k == 'choice':
        idx = [n for n, _ in t.alts].index(v[0])
        out.append('c%d' % idx)
        expected_tokens(spec, t.alts[idx][1], v[1], out, codec)
    elif k != 'null':
        raise ValueError(k)
    return ' '.join(out) if top else None


DRIVER_HEAD = r'''
#include <stdint.h>
#include <stdbool.h>
#include <stddef.h>
#include <string.h>
#include <stdio.h>
#include <stdlib.h>
#include "%(header)s"

static void hex(const uint8_t *p, long n) { long i; for (i = 0; i < n; i++) printf("%%02x", p[i]); }
static uint8_t *exact(const uint8_t *p, size_t n) { uint8_t *q = malloc(n ? n : 1); if (n) memcpy(q, p, n); return q; }
#define CAN 16
'''

TYPE_FUNCS = r'''
static void dump_%(i)d(const struct %(s)s *p) { (void)p;
%(dump)s
}
static long enc_%(i)d(uint8_t *b, size_t n, const void *p) { return (long)%(f)s_encode(b, n, (const struct %(s)s *)p); }
static long dec_%(i)d(void *p, const uint8_t *b, size_t n) { return (long)%(f)s_decode((struct %(s)s *)p, b, n); }
'''

DRIVER_TAIL = r'''
typedef long (*enc_f)(uint8_t *, size_t, const void *);
typedef long (*dec_f)(void *, const uint8_t *, size_t);
struct tinfo { size_t size; enc_f enc; dec_f dec; void (*dump)(const void *); };

static void run_case(int id, const struct tinfo *t, void (*fill)(void *), long want, const long *sizes, int nsizes)
{
    void *v = malloc(t->size), *w = malloc(t->size);
    uint8_t *b = malloc(want > 0 ? want : 1), *c;
    long r, i, k;
    printf("BEGIN %d\n", id); fflush(stdout);
    memset(v, 0xA5, t->size);
    fill(v);
    r = t->enc(b, (size_t)want, v);
    printf("E %ld ", r); if (r > 0 && r <= want) hex(b, r); printf("\n");
    printf("S");
    for (k = 0; k < nsizes; k++) {
        long sz = sizes[k], bad = 0;
        c = malloc(sz + 2 * CAN);
        memset(c, 0xC3, sz + 2 * CAN);
        r = t->enc(c + CAN, (size_t)sz, v);
        for (i = 0; i < CAN; i++) if (c[i] != 0xC3 || c[CAN + sz + i] != 0xC3) bad = 1;
        printf(" %ld:%ld%s", sz, r, bad ? "!CANARY" : "");
        free(c);
        c = malloc(sz ? sz : 1);               /* exact size: an overrun is an ASan report */
        r = t->enc(c, (size_t)sz, v);
        free(c);
    }
    printf("\n"); fflush(stdout);
    memset(w, 0x5A, t->size);
    r = t->dec(w, b, (size_t)want);
    printf("D %ld ", r); if (r >= 0) t->dump(w); printf("\n");
    printf("T");
    for (k = 0; k < nsizes; k++) {
        long sz = sizes[k];
        c = exact(b, sz);
        memset(w, 0x5A, t->size);
        r = t->dec(w, c, (size_t)sz);
        printf(" %ld:%ld", sz, r);
        free(c);
    }
    printf("\n"); fflush(stdout);
    free(v); free(w); free(b);
}

static int hexval(int c) { return c <= '9' ? c - '0' : (c | 32) - 'a' + 10; }

static void run_fuzz(const char *path, const struct tinfo *ts, int nt, size_t cap)
{
    FILE *f = fopen(path, "r");
    size_t lcap = 1 << 16;
    char *line = malloc(lcap);
    uint8_t *out = malloc(cap);
    if (!f) { printf("NOFILE\n"); exit(3); }
    for (;;) {
        size_t ll = 0; int ch;
        while ((ch = fgetc(f)) != EOF && ch != '\n') {
            if (ll + 2 > lcap) { lcap *= 2; line = realloc(line, lcap); }
            line[ll++] = (char)ch;
        }
        line[ll] = 0;
        if (ch == EOF && ll == 0) break;
        {
        int ti, off = 0; long n = 0, r, r2, r3; uint8_t *in, *raw; void *v, *w; const struct tinfo *t;
        if (sscanf(line, "%d %n", &ti, &off) < 1 || ti < 0 || ti >= nt) continue;
        t = &ts[ti];
        raw = malloc(strlen(line) / 2 + 1);
        while (line[off] && line[off] != '\n' && line[off + 1]) { raw[n++] = (uint8_t)(hexval(line[off]) * 16 + hexval(line[off + 1])); off += 2; }
        in = exact(raw, n); free(raw);
        v = malloc(t->size); w = malloc(t->size);
        memset(v, 0, t->size);
        printf("F %d %ld ", ti, n); fflush(stdout);
        r = t->dec(v, in, (size_t)n);
        printf("%ld", r);
        if (r >= 0) {
            printf(" | "); t->dump(v);
            r2 = t->enc(out, cap, v);
            printf("| %ld ", r2); if (r2 > 0) hex(out, r2);
            if (r2 >= 0) {
                uint8_t *in2 = exact(out, r2);
                memset(w, 0, t->size);
                r3 = t->dec(w, in2, (size_t)r2);
                printf(" | %ld ", r3); if (r3 >= 0) t->dump(w);
                free(in2);
            }
        }
        printf("\n"); fflush(stdout);
        free(in); free(v); free(w);
        }
    }
    free(out); free(line);
    fclose(f);
}
'''


def build_driver(spec, header, header_name, cases, fuzz_cap=1 << 23, codec='uper'):
    """cases: [(module, type, value)].  Returns (c_text, types, expected) where
    types is the list [(module, type)] in index order and expected the list of
    expected dump texts (None for the E/S/D/T protocol is computed by the
    caller from the Python codec)."""
    w = Walker(spec, header, codec)
    types = [(m, n) for m, ts in spec.modules for n, _ in ts]
    parts = [DRIVER_HEAD % dict(header=header_name)]
    for i, (m, n) in enumerate(types):
        sname = w.struct_of[(m, n)]
        if not sname.endswith('_t'):
            raise LayoutError('struct name %s does not end in _t' % sname)
        dump = []
        w.dump(spec.index[(m, n)], w.top_slot(m, n), dump)
        parts.append(TYPE_FUNCS % dict(i=i, s=sname, f=sname[:-2], dump='\n'.join('    ' + l for l in dump)))
    check_named_bits(spec, header, w)
    parts.append(DRIVER_TAIL)
    parts.append('static const struct tinfo TYPES[] = {')
    for i, (m, n) in enumerate(types):
        parts.append('    { sizeof(struct %s), enc_%d, dec_%d, (void (*)(const void *))dump_%d },' % (
            w.struct_of[(m, n)], i, i, i))
    parts.append('};')
    for ci, (m, n, v) in enumerate(cases):
        fill = []
        w.fill(spec.index[(m, n)], w.top_slot(m, n), v, fill, n)
        parts.append('static void fill_%d(void *q) { struct %s *p = q; (void)p;\n%s\n}' % (
            ci, w.struct_of[(m, n)], '\n'.join('    ' + l for l in fill)))
    return '\n'.join(parts), types, w


def driver_main(cases, types, lens, sizes, fuzz_cap=1 << 23):
    """main() once the expected encoded lengths are known."""
    out = ['int main(int argc, char **argv) {', '    setvbuf(stdout, NULL, _IOFBF, 1 << 16);',
           '    if (argc > 1) { run_fuzz(argv[1], TYPES, %d, %d); return 0; }' % (len(types), fuzz_cap)]
    for ci, (m, n, v) in enumerate(cases):
        ti = types.index((m, n))
        ss = sizes[ci]
        out.append('    { static const long sz[] = {%s}; run_case(%d, &TYPES[%d], fill_%d, %d, sz, %d); }' % (
            ','.join(str(s) for s in ss) or '0', ci, ti, ci, lens[ci], len(ss)))
    out += ['    return 0;', '}']
    return '\n'.join(out)


class TreeWalker(Walker):
    """Same walk as Walker.fill, but collects (C lvalue expression, number)
    pairs instead of C text (used to build values of the Coq IR)."""

    def emit_scalar(self, out, expr, literal, number):
        out.append((expr, number))

    def emit_bytes(self, out, expr, data):
        for i, b in enumerate(data):
            out.append(('%s[%d]' % (expr, i), b))

    def emit_real(self, out, expr, bits, v):
        out.append((expr, int(real_bits(v, bits), 16)))      # the IR holds a REAL as its IEEE bit pattern
