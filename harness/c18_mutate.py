#!/usr/bin/env python
"""C18 mutation helper (not part of the check): applies realistic state-leaking edits to a scratch
worktree of /repo and reports which part of ./check C18 catches each one.

    git -C /repo worktree add /tmp/c18/wt HEAD
    /venv/bin/python harness/c18_mutate.py /tmp/c18/wt [--only M3] [--table-only]
    git -C /repo worktree remove --force /tmp/c18/wt
"""
import json
import os
import subprocess
import sys

HERE = os.path.dirname(os.path.abspath(__file__))
VERIF = os.path.dirname(HERE)

MUTATIONS = [
    ('M1-memoise-on-type', 'asn1tools/codecs/per.py',
     "    def encode(self, data, encoder):\n        if self.has_extension_marker:\n            if self.minimum <= data <= self.maximum:",
     "    def encode(self, data, encoder):\n        self._memo = (data, encoder.number_of_bits)\n        if self.has_extension_marker:\n            if self.minimum <= data <= self.maximum:",
     'memoise the last (value, bit position) on the per.Integer type object during encode'),
    ('M2-class-level-scratch-buffer', 'asn1tools/codecs/ber.py',
     "    def encode_content(self, data, values=None):\n        encoded_members = bytearray()\n\n        for member in self.root_members:",
     "    _scratch = bytearray()\n\n    def encode_content(self, data, values=None):\n        encoded_members = self._scratch\n        del encoded_members[:]\n\n        for member in self.root_members:",
     'class-level bytearray reused as scratch buffer by ber.MembersType.encode_content'),
    ('M3-cache-last-decoded', 'asn1tools/codecs/oer.py',
     "    def decode_root(self, decoder):\n        values = {}",
     "    def decode_root(self, decoder):\n        if getattr(self, '_last', None) is not None and decoder.number_of_bits == self._last[0]:\n            return self._last[1]\n        values = {}\n        self._last = (decoder.number_of_bits, values)",
     'oer.MembersType caches the last decoded dict keyed by remaining length and returns it again'),
    ('M4-sort-callers-list', 'asn1tools/codecs/ber.py',
     "        encoded_elements = bytearray()\n\n        for entry in data:\n            self.element_type.encode(entry, encoded_elements)",
     "        encoded_elements = bytearray()\n        if self.type_name == 'SET OF':\n            data.sort(key=repr)\n\n        for entry in data:\n            self.element_type.encode(entry, encoded_elements)",
     'in-place sort() of the caller\'s SET OF list in ber/der ArrayType.encode_content'),
    ('M5-pop-input-dict', 'asn1tools/codecs/jer.py',
     "            if name in data:\n                try:\n                    value = member.encode(data[name])",
     "            if name in data:\n                try:\n                    value = member.encode(data.pop(name))",
     'jer.MembersType.encode pops the members out of the caller\'s dict'),
    ('M6-module-level-encoder', 'asn1tools/codecs/per.py',
     "    def encode(self, data):\n        encoder = Encoder()\n        try:\n            self._type.encode(data, encoder)",
     "    def encode(self, data):\n        encoder = _ENCODER\n        encoder.reset()\n        try:\n            self._type.encode(data, encoder)",
     'one module-level per.Encoder reused by every CompiledType.encode call',
     ("class CompiledType(compiler.CompiledType):\n\n    def encode(self, data):\n        encoder = _ENCODER",
      "_ENCODER = Encoder()\n\n\nclass CompiledType(compiler.CompiledType):\n\n    def encode(self, data):\n        encoder = _ENCODER")),
    ('M7-self-offset-scratch', 'asn1tools/codecs/oer.py',
     "        if self.additions is not None:\n            offset = encoder.number_of_bits\n            encoder.append_bit(0)\n            self.encode_root(data, encoder)\n\n            if len(self.additions) > 0:\n                if self.encode_additions(data, encoder):\n                    encoder.set_bit(offset)",
     "        if self.additions is not None:\n            self.offset = encoder.number_of_bits\n            encoder.append_bit(0)\n            self.encode_root(data, encoder)\n\n            if len(self.additions) > 0:\n                if self.encode_additions(data, encoder):\n                    encoder.set_bit(self.offset)",
     'oer.MembersType.encode keeps the extension-bit offset in self.offset (clobbered by nested / concurrent encodes)'),
    ('M8-setattr-dispatch', 'asn1tools/codecs/xer.py',
     "    def decode(self, element):\n        values = {}\n\n        for member in self.members:",
     "    def decode(self, element):\n        values = {}\n        setattr(self, 'seen_' + element.tag, True)\n\n        for member in self.members:",
     'xer.MembersType.decode records seen tags with setattr(self, <computed name>, ...)'),
    ('M9-global-statistics', 'asn1tools/codecs/uper.py',
     None, None,
     'uper: module-level dict counting decodes per type name, updated in CompiledType.decode'),
    ('M10-error-cache', 'asn1tools/codecs/ber.py',
     "        except ErrorWithLocation as e:\n            # Add member location\n            e.add_location(self._type)\n            raise e\n        return decoded, offset",
     "        except ErrorWithLocation as e:\n            # Add member location\n            e.add_location(self._type)\n            self._type.last_error = e\n            raise e\n        return decoded, offset",
     'ber.CompiledType.decode_with_length stores the last exception on the shared type object (alias store through self._type)'),
]


def apply(wt, mut):
    mid, rel, old, new = mut[:4]
    path = os.path.join(wt, rel)
    s = open(path).read()
    if mid.startswith('M9'):
        old = "    def decode(self, data):\n        decoder = Decoder(bytearray(data))\n"
        new = ("    def decode(self, data):\n        STATS[self._type.name] = STATS.get(self._type.name, 0) + 1\n"
               "        decoder = Decoder(bytearray(data))\n")
        s = s.replace("class CompiledType(per.CompiledType):", "STATS = {}\n\n\nclass CompiledType(per.CompiledType):", 1)
    assert s.count(old) >= 1, (mid, 'pattern not found')
    s = s.replace(old, new, 1)
    if len(mut) > 5:
        o2, n2 = mut[5]
        assert o2 in s, (mid, 'second pattern not found')
        s = s.replace(o2, n2, 1)
    open(path, 'w').write(s)


def main():
    wt = sys.argv[1]
    only = sys.argv[sys.argv.index('--only') + 1] if '--only' in sys.argv else None
    table_only = '--table-only' in sys.argv
    env = dict(os.environ, VERIF_REPO=wt, PYTHONPATH=wt + ':' + HERE, PYTHONHASHSEED='0',
               PYTHONDONTWRITEBYTECODE='1')
    results = []
    for mut in MUTATIONS:
        if only and not mut[0].startswith(only):
            continue
        subprocess.check_call(['git', '-C', wt, 'checkout', '-q', '--', '.'])
        apply(wt, mut)
        if table_only:
            p = subprocess.run(['/venv/bin/python', os.path.join(VERIF, 'translator', 'writesets.py'), '--repo', wt,
                                '--out', '/tmp/c18/WriteSets_mut.v'], stdout=subprocess.PIPE, stderr=subprocess.STDOUT,
                               text=True, env=env)
            shared = [l for l in p.stdout.splitlines() if 'SHARED' in l]
            print(mut[0], 'table rows flagged:', len(shared))
            for l in shared[:4]:
                print('   ', l.strip()[:170])
            results.append((mut[0], bool(shared)))
        else:
            p = subprocess.run(['/venv/bin/python', '-W', 'ignore', os.path.join(HERE, 'run.py'), 'C18', '--tier', 'quick'],
                               stdout=subprocess.PIPE, stderr=subprocess.STDOUT, text=True, env=env, cwd=VERIF)
            out = [l for l in p.stdout.splitlines() if 'conda' not in l]
            caught = [l for l in out if l.startswith('VIOLATION') or 'caught-by' in l]
            print(mut[0], 'exit', p.returncode)
            for l in out:
                if l.startswith('VIOLATION') or l.startswith('  what:') or 'caught-by' in l:
                    print('   ', l[:220])
            results.append((mut[0], p.returncode))
        subprocess.check_call(['git', '-C', wt, 'checkout', '-q', '--', '.'])
    print(json.dumps(results))


if __name__ == '__main__':
    main()
