"""OER side of the cross-codec properties: how to ask the Coq model
(coq/theories/Oer/OerImpl.v) and the X.696 specification model (Oer/X696.v)
about a generated case, and the documented region predicates.

Interface used by the lead's C01/C16/C07/C08 assemblies and by harness/c06.py:

  CODEC, COQ_IMPORTS, FUEL
  in_scope(mod, t, v)         -> bool     model region for round-trip style properties
  why_out_of_scope(mod, t, v) -> None | str  (the reason, for histograms)
  conforming(mod, t, v)       -> None | str  None when (t, v) lies in the region where the
                                             library is claimed to be byte-exact X.696
  model_encode_expr(env_term, ty_term, value_term, numeric) -> Coq text : result (list Z)
  model_decode_expr(env_term, ty_term, bytes, numeric)      -> Coq text : result (value * nat)
  spec_encode_expr(env_term, ty_term, value_term, numeric)  -> Coq text : option (list Z)
  oer_norm(rt_of, t, v, numeric) -> the value the OER decoder returns for an encoded v
  coq_type(rt_of, t, numeric), coq_env(mod, numeric) -> like gen_asn1.coq_type/coq_env but explicit
      tags on CHOICE alternatives and SET members are exported as TTag.  The model takes CHOICE
      alternatives without TTag as AUTOMATIC-tagged (context [index]); modules that use explicit
      tags (members carrying a 'tag' entry) MUST be exported with these two functions.

Region predicates (each exclusion is either "not modelled" or a recorded finding):

 in_scope excludes
  * DEFAULT on a member whose type is a type reference: the library keeps the
    default as unparsed text ('TRUE'), finding owned by C19 (DESIGN section 8 #8);
  * character string kinds other than IA5/Visible/Numeric/Printable/UTF8String
    (the model answers EUnmodelled);
  * UTF8String with a fixed OER-visible SIZE (known finding C06
    oer-utf8-fixed-size: encoded without length determinant by character
    count, so multi-byte text does not round-trip);
  * SET whose root members carry explicit tags (tag order not modelled).
 conforming additionally excludes (X.696 comparison only)
  * addition groups [[ ]] (known finding C06 oer-addition-groups-flattened);
  * CHOICE alternatives with a [UNIVERSAL n] tag (known finding C06
    oer-universal-class-tag);
  * an extension addition with DEFAULT whose value is supplied explicitly and
    equals the default (BASIC-OER sender's option: the library encodes it,
    the canonical form the specification model produces omits it);
  * values that are not values of the type (a mandatory root member absent, a
    number outside a non-extensible range...).
"""
from common import C, Nat, Raw, to_coq
import gen_asn1 as G

CODEC = 'oer'
COQ_IMPORTS = ['Base.Prelude', 'Base.Corr', 'Syntax.Asn1', 'Oer.OerPrim', 'Oer.OerImpl', 'Oer.X696', 'Oer.OerCorr']
FUEL = 64
MODEL_STR_KINDS = ('IA5String', 'VisibleString', 'NumericString', 'PrintableString', 'UTF8String')


def model_encode_expr(env_term, ty_term, value_term, numeric):
    return '(oer_encode %s %d%%nat %s %s %s)' % (to_coq(bool(numeric)), FUEL, env_term, ty_term, value_term)


def model_decode_expr(env_term, ty_term, data, numeric):
    return '(oer_decode %s %d%%nat %s %s %s)' % (to_coq(bool(numeric)), FUEL, env_term, ty_term,
                                                 to_coq(bytes(data)))


def spec_encode_expr(env_term, ty_term, value_term, numeric):
    return '(x696_encode %s %d%%nat %s %s %s)' % (to_coq(bool(numeric)), FUEL, env_term, ty_term, value_term)


def fixed_size(s):
    return s is not None and not s['ext'] and s['hi'] is not None and s['lo'] == s['hi']


def _walk_type(rt_of, t, f, seen=()):
    """f(node, resolved) for every type node reachable from t (references followed once)."""
    r = f(t)
    if r:
        return r
    k = t['k']
    if k == 'REF':
        if t['name'] in seen:
            return None
        return _walk_type(rt_of, rt_of(t), f, seen + (t['name'],))
    if k in ('SEQUENCE', 'SET'):
        for m in G.all_members(t):
            r = _walk_type(rt_of, m['t'], f, seen)
            if r:
                return r
    elif k == 'CHOICE':
        for m in t['root'] + (t['ext'] or []):
            r = _walk_type(rt_of, m['t'], f, seen)
            if r:
                return r
    elif k in ('SEQUENCE OF', 'SET OF'):
        return _walk_type(rt_of, t['elem'], f, seen)
    return None


def type_out_of_scope(mod, t):
    rt_of = G.make_resolver(mod)

    def f(n):
        k = n['k']
        if k == 'STRING':
            if n['sk'] not in MODEL_STR_KINDS:
                return 'string-kind-unmodelled'
            if n['sk'] == 'UTF8String' and fixed_size(n['size']):
                return 'finding:oer-utf8-fixed-size'
        if k in ('SEQUENCE', 'SET'):
            for m in G.all_members(n):
                if m['opt'] not in (None, 'optional') and m['t']['k'] == 'REF':
                    return 'default-through-reference'
            if k == 'SET' and any(m.get('tag') for m in n['root']):
                return 'set-explicit-tags'
        return None
    return _walk_type(rt_of, t, f)


def why_out_of_scope(mod, t, v=None):
    return type_out_of_scope(mod, t)


def in_scope(mod, t, v=None):
    return why_out_of_scope(mod, t, v) is None


def type_nonconforming(mod, t):
    rt_of = G.make_resolver(mod)

    def f(n):
        k = n['k']
        if k in ('SEQUENCE', 'SET') and any('group' in a for a in (n['ext'] or [])):
            return 'finding:oer-addition-groups-flattened'
        if k == 'CHOICE':
            for m in n['root'] + (n['ext'] or []):
                tg = m.get('tag')
                if tg and tg[0] == 'UNIVERSAL':
                    return 'finding:oer-universal-class-tag'
        return None
    return type_out_of_scope(mod, t) or _walk_type(rt_of, t, f)


def value_nonconforming(rt_of, t, v):
    """None when v is a value of t whose canonical encoding the library is expected to produce."""
    t = rt_of(t)
    k = t['k']
    if k == 'INTEGER':
        c = t['c']
        if c is not None and not c['ext']:
            if (c['lo'] is not None and v < c['lo']) or (c['hi'] is not None and v > c['hi']):
                return 'value-outside-range'
        return None
    if k in ('OCTET STRING', 'STRING', 'BIT STRING'):
        n = v[1] if k == 'BIT STRING' else len(v)
        if fixed_size(t['size']) and n != t['size']['lo']:
            return 'value-outside-size'
        return None
    if k in ('SEQUENCE', 'SET'):
        for m in t['root']:
            if m['name'] in v:
                r = value_nonconforming(rt_of, m['t'], v[m['name']])
                if r:
                    return r
            elif m['opt'] is None:
                return 'mandatory-member-absent'
        for a in (t['ext'] or []):
            for m in (a['group'] if 'group' in a else [a['member']]):
                if m['name'] in v:
                    if m['opt'] not in (None, 'optional') and v[m['name']] == m['opt'][1]:
                        return 'explicit-default-in-addition'
                    r = value_nonconforming(rt_of, m['t'], v[m['name']])
                    if r:
                        return r
        return None
    if k in ('SEQUENCE OF', 'SET OF'):
        for x in v:
            r = value_nonconforming(rt_of, t['elem'], x)
            if r:
                return r
        return None
    if k == 'CHOICE':
        by = {m['name']: m for m in t['root'] + (t['ext'] or [])}
        if v[0] not in by:
            return 'unknown-alternative'
        return value_nonconforming(rt_of, by[v[0]]['t'], v[1])
    return None


def conforming(mod, t, v):
    r = type_nonconforming(mod, t)
    if r:
        return r
    return value_nonconforming(G.make_resolver(mod), t, v)


# ---------------------------------------------------------------------------
# what the OER decoder returns for an encoded value

def _mask_bits(data, n):
    nb, rest = divmod(n, 8)
    b = bytearray(data[:nb + (1 if rest else 0)])
    if rest and len(b) > nb:
        b[nb] &= (0xff << (8 - rest)) & 0xff
    return bytes(b)


def oer_norm(rt_of, t, v, numeric=False):
    t = rt_of(t)
    k = t['k']
    if k == 'BIT STRING':
        n = t['size']['lo'] if fixed_size(t['size']) else v[1]
        return (_mask_bits(v[0], v[1]), n)
    if k == 'OCTET STRING':
        return bytes(v)
    if k in ('SEQUENCE', 'SET'):
        out = {}
        for m in t['root']:
            if m['name'] in v and not (m['opt'] not in (None, 'optional') and v[m['name']] == _default(rt_of, m, numeric)):
                out[m['name']] = oer_norm(rt_of, m['t'], v[m['name']], numeric)
            elif m['opt'] not in (None, 'optional'):
                out[m['name']] = _default(rt_of, m, numeric)
        for m in G.all_members(t)[len(t['root']):]:
            if m['name'] in v:                       # absent additions stay absent (no default filled in)
                out[m['name']] = oer_norm(rt_of, m['t'], v[m['name']], numeric)
        return out
    if k in ('SEQUENCE OF', 'SET OF'):
        return [oer_norm(rt_of, t['elem'], x, numeric) for x in v]
    if k == 'CHOICE':
        by = {m['name']: m for m in t['root'] + (t['ext'] or [])}
        return (v[0], oer_norm(rt_of, by[v[0]]['t'], v[1], numeric))
    return v


def _default(rt_of, m, numeric):
    dv = m['opt'][1]
    rt = rt_of(m['t'])
    if numeric and rt['k'] == 'ENUMERATED':
        dv = dict(rt['root'] + (rt['ext'] or []))[dv]
    return dv


# ---------------------------------------------------------------------------
# Coq export with tags on CHOICE alternatives (own layer; the shared exporter has none)

def coq_member(rt_of, m, numeric, tagged):
    if m['opt'] is None:
        o = C('Mandatory')
    elif m['opt'] == 'optional':
        o = C('Optional')
    else:
        o = C('Default', G.coq_value(rt_of, m['t'], _default(rt_of, m, numeric)))
    ty = coq_type(rt_of, m['t'], numeric)
    if tagged and m.get('tag'):
        cls, num, mode = m['tag']
        ty = C('TTag', C('mkTag', C({'': 'Ctx', 'UNIVERSAL': 'Univ', 'APPLICATION': 'Appl', 'PRIVATE': 'Priv'}[cls]),
                         num, mode == 'EXPLICIT'), ty)
    return ((m['name'], ty), o)


def coq_type(rt_of, t, numeric):
    k = t['k']
    if k in ('SEQUENCE', 'SET'):
        ext = None
        if t['ext'] is not None:
            ext = C('Some', [((True, [coq_member(rt_of, m, numeric, False) for m in a['group']]) if 'group' in a
                              else (False, [coq_member(rt_of, a['member'], numeric, False)])) for a in t['ext']])
        return C('TSeq', k == 'SET', [coq_member(rt_of, m, numeric, k == 'SET') for m in t['root']], ext)
    if k in ('SEQUENCE OF', 'SET OF'):
        return C('TSeqOf', k == 'SET OF', coq_type(rt_of, t['elem'], numeric), G.coq_size(t['size']))
    if k == 'CHOICE':
        return C('TChoice', [coq_member(rt_of, m, numeric, True) for m in t['root']],
                 None if t['ext'] is None else C('Some', [coq_member(rt_of, m, numeric, True) for m in t['ext']]))
    return G.coq_type(rt_of, t, numeric)


def coq_env(mod, numeric):
    rt_of = G.make_resolver(mod)
    return [(n, coq_type(rt_of, t, numeric)) for n, t in mod['types']]
