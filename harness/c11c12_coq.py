"""Sharded evaluation of generated Coq case files (type checking long list
literals dominates, so the batches are spread over parallel coqc runs)."""
import re
from concurrent.futures import ThreadPoolExecutor

HEADER = 'Open Scope string_scope.\nOpen Scope Z_scope.\n'


def slim(body):
    """(123)%Z -> 123 : shorter text, same term (Z_scope is open)."""
    body = re.sub(r'\((\d+)\)%Z', r'\1', body)
    return re.sub(r'\((-\d+)\)%Z', r'(\1)', body)


def eval_batches(ctx, name, imports, bodies, shards=12, timeout=1500):
    """bodies: list of Coq texts each containing exactly one Eval; returns the
    list of their results in order."""
    if not bodies:
        return []
    n = max(1, min(shards, len(bodies)))
    # balance by size
    order = sorted(range(len(bodies)), key=lambda i: -len(bodies[i]))
    groups = [[] for _ in range(n)]
    sizes = [0] * n
    for i in order:
        j = sizes.index(min(sizes))
        groups[j].append(i)
        sizes[j] += len(bodies[i])
    groups = [sorted(g) for g in groups if g]

    def run(k):
        text = HEADER + ''.join(slim(bodies[i]) for i in groups[k])
        return ctx.coq_eval('%s_%d' % (name, k), imports, text, timeout=timeout)
    ctx.coq_eval('%s_warm' % name, imports, '', timeout=timeout)      # builds the imports once (serialised)
    with ThreadPoolExecutor(max_workers=len(groups)) as ex:
        allres = list(ex.map(run, range(len(groups))))
    out = [None] * len(bodies)
    for g, res in zip(groups, allres):
        assert len(res) == len(g), (len(res), len(g))
        for i, r in zip(g, res):
            out[i] = r
    return out


def cq(v):
    """Coq text of a Python value (same conventions as common.to_coq) that
    avoids the tuple notation: nested "(a, b)" makes Coq's parser
    exponentially slow, "pair a b" does not."""
    from common import C, Nat, Raw
    if isinstance(v, Raw):
        return str(v)
    if isinstance(v, bool):
        return 'true' if v else 'false'
    if isinstance(v, Nat):
        return '%d%%nat' % int(v)
    if isinstance(v, int):
        return '%d' % v if v >= 0 else '(%d)' % v
    if isinstance(v, str):
        return '"%s"' % v.replace('"', '""')
    if isinstance(v, (bytes, bytearray)):
        return '(hex "%s")' % bytes(v).hex()
    if v is None:
        return 'None'
    if isinstance(v, list):
        return '[' + '; '.join(cq(x) for x in v) + ']'
    if isinstance(v, tuple):
        out = cq(v[0])
        for x in v[1:]:
            out = '(pair %s %s)' % (out, cq(x))
        return out
    if isinstance(v, C):
        if not v.args:
            return v.name
        return '(' + v.name + ' ' + ' '.join(cq(a) for a in v.args) + ')'
    raise TypeError('cq: %r' % (v,))
