"""C07 — extension additions keep old and new versions of a type interoperable."""
import copy
import json

import common
import codec_common as CC
import gen_asn1 as G
import lib
import xcodec as X
import codec_ber as CB

CODECS = X.BINARY + X.TEXT
UNKNOWN = ('<unknown>',)


def extend_module(rng, mod, g):
    """V2 = V1 plus a random sequence of legal extension steps at random extensible nodes."""
    m2 = copy.deepcopy(mod)
    steps = []
    helper = G.Gen(rng, G.Opts(max_depth=1, recursion=False, extensible=False, avoid=g.o.avoid,
                               kinds={'BOOLEAN', 'INTEGER', 'ENUMERATED', 'OCTET STRING', 'STRING', 'SEQUENCE',
                                      'SEQUENCE OF', 'NULL', 'BIT STRING'}, str_kinds=g.o.str_kinds))
    helper.counter = 1000 + g.counter

    def walk(t, path):
        k = t['k']
        if k in ('SEQUENCE', 'SET'):
            for m in G.all_members(t):
                walk(m['t'], path + [m['name']])
            if t['ext'] is not None and rng.random() < .7:
                for _ in range(rng.randrange(1, 3)):
                    if k == 'SEQUENCE' and rng.random() < .3:
                        grp = [helper.gen_member(1, 'zg') for _ in range(rng.randrange(1, 3))]
                        for gm in grp:
                            if gm['opt'] is None and helper.maybe_zero_width(gm['t']):
                                gm['t'] = {'k': 'BOOLEAN'}
                        t['ext'].append({'group': grp})
                        steps.append(('group', '.'.join(path)))
                    else:
                        t['ext'].append({'member': helper.gen_member(1, 'za', in_ext=True)})
                        steps.append(('member', '.'.join(path)))
        elif k == 'CHOICE':
            for m in t['root'] + (t['ext'] or []):
                walk(m['t'], path + [m['name']])
            if t['ext'] is not None and rng.random() < .7:
                t['ext'].append({'name': helper.fresh('zc'), 't': helper.gen_type(2), 'opt': None})
                steps.append(('alternative', '.'.join(path)))
        elif k in ('SEQUENCE OF', 'SET OF'):
            walk(t['elem'], path + ['[]'])
        elif k == 'ENUMERATED':
            if t['ext'] is not None and rng.random() < .7:
                used = {v for _, v in t['root'] + t['ext']}
                nv = max(used) + 1
                t['ext'].append((helper.fresh('zx'), nv))
                steps.append(('enum-item', '.'.join(path)))
    for tn, t in m2['types']:
        walk(t, [tn])
    return m2, steps


def close_open_choice_contexts(rng, mod):
    """Known-finding region ber_open_choice_context (known_findings/C07.json): an untagged CHOICE with an open tag set
    (extension marker, directly or through untagged alternatives) as an alternative of a CHOICE, or as an OPTIONAL /
    DEFAULT / extension-addition component of a SEQUENCE or SET.  The generator gives such a component a tag."""
    rt = CB.Resolver(mod)

    def open_tags(t, seen=()):
        n = 0
        while t['k'] == 'REF':
            if t['name'] in seen:
                return False
            seen = seen + (t['name'],)
            t = rt.named(t['name'])
            if t.get('tag'):
                return False
        if t['k'] != 'CHOICE':
            return False
        if t['ext'] is not None:
            return True
        if CB.automatic(mod, t):
            return False
        return any(not m.get('tag') and open_tags(m['t'], seen) for m in CB.members_of(t))

    def fix(t):
        k = t['k']
        if k not in ('SEQUENCE', 'SET', 'CHOICE') or CB.automatic(mod, t):
            return
        ms = CB.members_of(t)
        nroot = len(t['root'])
        used = {m['tag'][1] for m in ms if m.get('tag')}
        for i, m in enumerate(ms):
            exposed = k in ('CHOICE', 'SET') or m['opt'] is not None or i >= nroot
            if exposed and not m.get('tag') and open_tags(m['t']):
                num = rng.choice([n for n in range(50, 90) if n not in used])
                used.add(num)
                m['tag'] = ('', num, rng.choice(['', 'EXPLICIT']))
    for _, t in mod['types']:
        CB.walk_types(t, fix)
    return all(CB.legal_components(mod, rt, x) for _, t in mod['types'] for x in collect(t))


def collect(t):
    out = []
    CB.walk_types(t, lambda x: out.append(x) if x['k'] in ('SEQUENCE', 'SET', 'CHOICE') else None)
    return out


HIGH_TAGS = [30, 31, 32, 40, 127, 128, 200, 16383, 16384, 2 ** 21 + 5]


def tag_new_components(rng, mod1, mod2, codec='ber'):
    """BER/DER: where automatic tagging does not apply, the components V2 adds carry explicit tags, most of them
    with numbers that need a multi-octet identifier.  Returns False when the result is not legal ASN.1."""
    rt1, rt2 = CB.Resolver(mod1), CB.Resolver(mod2)
    ok = [True]

    def walk(t1, t2):
        k = t2['k']
        if k in ('SEQUENCE', 'SET', 'CHOICE'):
            ms1, ms2 = CB.members_of(t1), CB.members_of(t2)
            old = {m['name'] for m in ms1}
            by1 = {m['name']: m for m in ms1}
            if not CB.automatic(mod1, t1):
                used = {m['tag'][1] for m in ms2 if m.get('tag')}
                # known-finding region der_set_addition_tag_order: in a DER SET the new components sort last
                last = codec == 'der' and k == 'SET'
                floor = max([0] + [n for m in ms1 for _, n in CB.outer_tags(mod1, rt1, m['t'], m.get('tag'))]) if last else 0
                for m in ms2:
                    if m['name'] not in old and (k != 'SEQUENCE' or last or rng.random() < .8):
                        num = rng.choice([n for n in HIGH_TAGS if n not in used]) + floor
                        used.add(num)
                        m['tag'] = ('PRIVATE' if last else rng.choice(['', '', 'APPLICATION', 'PRIVATE']), num,
                                    rng.choice(['', 'EXPLICIT'] if CB.library_forces_explicit(rt2, m['t'])
                                               else ['', 'IMPLICIT', 'EXPLICIT']))
            for m in ms2:
                if m['name'] in old:
                    walk(by1[m['name']]['t'], m['t'])
            if not CB.legal_components(mod2, rt2, t2):
                ok[0] = False
        elif k in ('SEQUENCE OF', 'SET OF'):
            walk(t1['elem'], t2['elem'])
    for (_, t1), (_, t2) in zip(mod1['types'], mod2['types']):
        walk(t1, t2)
    return ok[0]


def project(rt1, t1, rt2, t2, v):
    """The version-1 view of a version-2 value."""
    t1, t2 = rt1(t1), rt2(t2)
    k = t1['k']
    if k in ('SEQUENCE', 'SET'):
        by2 = {m['name']: m for m in G.all_members(t2)}
        out = {}
        for m in G.all_members(t1):
            if m['name'] in v:
                out[m['name']] = project(rt1, m['t'], rt2, by2[m['name']]['t'], v[m['name']])
        return out
    if k == 'CHOICE':
        by1 = {m['name']: m for m in t1['root'] + (t1['ext'] or [])}
        by2 = {m['name']: m for m in t2['root'] + (t2['ext'] or [])}
        if v[0] not in by1:
            return UNKNOWN
        return (v[0], project(rt1, by1[v[0]]['t'], rt2, by2[v[0]]['t'], v[1]))
    if k in ('SEQUENCE OF', 'SET OF'):
        return [project(rt1, t1['elem'], rt2, t2['elem'], x) for x in v]
    if k == 'ENUMERATED':
        names = {n for n, _ in t1['root'] + (t1['ext'] or [])}
        return v if v in names else UNKNOWN
    return v


def has_unknown(x):
    if x is UNKNOWN:
        return True
    if isinstance(x, dict):
        return any(has_unknown(y) for y in x.values())
    if isinstance(x, (list, tuple)):
        return any(has_unknown(y) for y in x)
    return False


def matches(rt1, t1, exp, got):
    """got (decoded under V1) equals exp (projection), where UNKNOWN matches the library's 'absent'."""
    t1 = rt1(t1)
    if exp is UNKNOWN:
        return got is None or got == (None, None)
    k = t1['k']
    try:
        if k in ('SEQUENCE', 'SET'):
            if not isinstance(got, dict):
                return False
            for m in G.all_members(t1):
                n = m['name']
                if n in exp:
                    if n not in got:
                        # an unknown-valued optional/addition member may be dropped entirely
                        if exp[n] is UNKNOWN:
                            continue
                        # an absent DEFAULT component equals its default
                        if m['opt'] not in (None, 'optional') and \
                                G.norm(rt1, m['t'], exp[n]) == G.norm(rt1, m['t'], m['opt'][1]):
                            continue
                        return False
                    if not matches(rt1, m['t'], exp[n], got[n]):
                        return False
                else:
                    if n in got:
                        if m['opt'] in (None, 'optional'):
                            return False
                        rt = rt1(m['t'])
                        if G.norm(rt1, m['t'], got[n]) != G.norm(rt1, m['t'], m['opt'][1]):
                            return False
            return set(got) <= {m['name'] for m in G.all_members(t1)}
        if k == 'CHOICE':
            by1 = {m['name']: m for m in t1['root'] + (t1['ext'] or [])}
            return isinstance(got, tuple) and got[0] == exp[0] and matches(rt1, by1[exp[0]]['t'], exp[1], got[1])
        if k == 'SET OF' and not has_unknown(exp):
            return G.norm(rt1, t1, got) == G.norm(rt1, t1, exp)     # multiset
        if k == 'SET OF':
            # multiset with 'absent' elements: greedy matching
            if not isinstance(got, list) or len(got) != len(exp):
                return False
            rest = list(got)
            for a in exp:
                for i, b in enumerate(rest):
                    if matches(rt1, t1['elem'], a, b):
                        del rest[i]
                        break
                else:
                    return False
            return True
        if k in ('SEQUENCE OF', 'SET OF'):
            return isinstance(got, list) and len(got) == len(exp) and all(
                matches(rt1, t1['elem'], a, b) for a, b in zip(exp, got))
        return G.norm(rt1, t1, got) == G.norm(rt1, t1, exp)
    except Exception:
        return False


def complete_additions(rt, t, v):
    """Text codecs require every mandatory member of a known addition; fill what a version cut left out."""
    return v


def run(ctx):
    if ctx.replay:
        doc = json.load(open(ctx.replay))['replay']
        s1 = lib.compile_string(doc['v1'], doc['codec'])
        s2 = lib.compile_string(doc['v2'], doc['codec'])
        src, dst = (s2, s1) if doc['direction'] == 'forward' else (s1, s2)
        e = src.encode(doc['type'], eval(doc['value']))
        print('bytes', e.hex() if doc['codec'] not in ('jer', 'xer') else e)
        print('decoded', lib.attempt(dst.decode, doc['type'], e))
        return
    ctx.rule = ('pairs (V1, V2): V1 from gen_asn1, V2 = V1 + random legal extension steps (members/groups after the '
                'marker, CHOICE alternatives, ENUMERATED items at any nesting depth); forward: decode_V1(encode_V2(v2)) '
                '== projection of v2, backward: decode_V2(encode_V1(v1)) == v1; codecs uper, per, oer, der, ber, jer, xer; '
                'distinct by (codec, direction, type shape, steps); non-trivial = V2 differs from V1 at the type used')
    ok = ctx.coq_props()
    mods = X.models()
    n = 25 if ctx.quick else 300
    for codec in CODECS:
        base = [codec] if codec in X.BINARY + ['jer'] else []
        opts = X.union_opts(base, mods, extensible=True, xml_safe=(codec == 'xer'))
        if codec in ('ber', 'der'):
            opts.tag_modes = ['AUTOMATIC', 'IMPLICIT', 'EXPLICIT']
            opts.explicit_tags = True
        tried = 0
        while tried < n:
            if codec in ('ber', 'der'):
                mod1, text1, g1 = CB.generate(ctx.rng, opts)
                if not close_open_choice_contexts(ctx.rng, mod1):
                    ctx.count('c07:%s:v1-tags-not-distinct' % codec)
                    tried += 1
                    continue
                text1 = G.render_module(mod1, G.make_resolver(mod1))
            else:
                mod1, text1, g1 = G.generate(ctx.rng, opts)
            mod2, steps = extend_module(ctx.rng, mod1, g1)
            tried += 1
            if codec in ('ber', 'der') and steps and not tag_new_components(ctx.rng, mod1, mod2, codec):
                ctx.count('c07:%s:v2-tags-not-distinct' % codec)
                continue
            if codec in ('ber', 'der') and steps:
                # regions of the open BER findings recorded for C03/C04 (known_findings/C03.json, C04.json)
                probs = [p for m in (mod1, mod2) for p in CB.scope_problems(m, codec)
                         if p.startswith('finding') or p.startswith('IMPLICIT tag on a CHOICE')]
                if probs:
                    ctx.count('c07:%s:in-known-finding-region:%s' % (codec, probs[0]))
                    continue
            if not steps:
                ctx.count('c07:%s:no-extensible-node' % codec)
                continue
            rt1, rt2 = G.make_resolver(mod1), G.make_resolver(mod2)
            text2 = G.render_module(mod2, rt2)
            s1 = lib.attempt(lib.compile_string, text1, codec)
            s2 = lib.attempt(lib.compile_string, text2, codec)
            if s1[0] != 'ok' or s2[0] != 'ok':
                ctx.violation('%s: V1/V2 module does not compile: %s' % (codec, (s1 if s1[0] != 'ok' else s2)[1:3]),
                              dict(kind='compile', codec=codec, v1=text1, v2=text2))
                continue
            g2 = G.Gen(ctx.rng, opts)
            g2.types = mod2['types']
            g2.pending = {}
            for (tn, t1), (_, t2) in zip(mod1['types'], mod2['types']):
                reg = X.finding_region(codec, mod1, t1) or X.finding_region(codec, mod2, t2)
                if reg:
                    ctx.count('c07:%s:in-known-finding-region:%s' % (codec, reg))
                    continue
                for _ in range(2):
                    # forward: V2 value under V1
                    v2 = g2.gen_value(t2)
                    e = lib.attempt(s2[1].encode, tn, v2)
                    if e[0] != 'ok':
                        ctx.count('c07:%s:v2-not-encodable:%s' % (codec, e[1]))
                    else:
                        d = lib.attempt(s1[1].decode, tn, e[1])
                        exp = project(rt1, t1, rt2, t2, v2)
                        ctx.case(('fwd', codec, G.shape(rt2, t2), len(steps), repr(v2)[:30]),
                                 dict(kind='forward', codec=codec, v1=text1, v2=text2, type=tn, value=repr(v2)[:200]))
                        ctx.count('c07:%s:forward%s' % (codec, ':unknown-alt' if has_unknown(exp) else ''))
                        if d[0] != 'ok' or not matches(rt1, t1, exp, d[1]):
                            ctx.violation('%s forward: V2 encoding decoded under V1 gives %s, expected the projection %s'
                                          % (codec, repr(d[1:])[:160], repr(exp)[:160]),
                                          dict(kind='forward', direction='forward', codec=codec, v1=text1, v2=text2,
                                               type=tn, value=repr(v2), steps=steps))
                    # backward: V1 value under V2
                    v1 = g1.gen_value(t1)
                    e = lib.attempt(s1[1].encode, tn, v1)
                    if e[0] != 'ok':
                        ctx.count('c07:%s:v1-not-encodable:%s' % (codec, e[1]))
                        continue
                    d = lib.attempt(s2[1].decode, tn, e[1])
                    ctx.case(('bwd', codec, G.shape(rt1, t1), len(steps), repr(v1)[:30]), None)
                    ctx.count('c07:%s:backward' % codec)
                    okb = d[0] == 'ok'
                    if okb:
                        back = project(rt1, t1, rt2, t2, d[1]) if True else None
                        okb = matches(rt1, t1, G.norm(rt1, t1, v1), back) if not has_unknown(back) else False
                    if not okb:
                        ctx.violation('%s backward: V1 encoding decoded under V2 gives %s, expected %s'
                                      % (codec, repr(d[1:])[:160], repr(v1)[:160]),
                                      dict(kind='backward', direction='backward', codec=codec, v1=text1, v2=text2,
                                           type=tn, value=repr(v1), steps=steps))
    for f in common.load_findings(ctx.pid):
        w = f['witness']
        s1 = lib.compile_string(w['v1'], w['codec'])
        s2 = lib.compile_string(w['v2'], w['codec'])
        if 'data' in w:
            # a version-2 encoding given octet by octet (a form the library's own encoder does not produce)
            e = ('ok', bytes.fromhex(w['data']))
            if lib.attempt(s2.decode, w['type'], e[1]) != ('ok', eval(w['value'])):
                e = ('err', 'witness', 'version 2 does not read the witness octets as the stated value')
        else:
            e = lib.attempt(s2.encode, w['type'], eval(w['value']))
        d = lib.attempt(s1.decode, w['type'], e[1]) if e[0] == 'ok' else e
        if d[0] != 'ok' or d[1] != eval(w['expect']):
            ctx.known_finding(f['id'], f['what'])
    if not ok:
        common.proof_broken(ctx)
