#!/bin/bash
# Runs the pinned suite in a repo tree (default /repo) and compares with BASELINE.json stable_pass.
R=${1:-/repo}
cd $R && /venv/bin/python -m pytest -q -p no:cacheprovider --timeout=900 --continue-on-collection-errors --junitxml=/tmp/baseline_$$.xml >/dev/null 2>&1
/venv/bin/python - /tmp/baseline_$$.xml <<'PY' 2>&1 | grep -v conda
import json, sys, xml.etree.ElementTree as ET
b = json.load(open('/root/.vp/BASELINE.json'))
ok = set()
for tc in ET.parse(sys.argv[1]).getroot().iter('testcase'):
    if not any(c.tag in ('failure', 'error', 'skipped') for c in tc):
        ok.add('%s::%s' % (tc.get('classname'), tc.get('name')))
missing = [t for t in b['stable_pass'] if t not in ok]
print('stable_pass %d, passing now %d, regressions %d' % (len(b['stable_pass']), len(ok), len(missing)))
for m in missing[:20]: print('  REGRESSION', m)
PY
rm -f /tmp/baseline_$$.xml
