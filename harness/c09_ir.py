def run(ctx, active):
    pass
