"""Deepening of C09: the generated C as terms of the Coq IR (CGen/Ir.v).

 1. The helper block parsed from uper_functions.py is translated
    (translator/ctoir.py) to IR and executed by the Coq interpreter on the call
    histories of c09_helpers against the hand-written model CGen/Helpers.v
    (CGen/IrRun.v: enc_agree / dec_agree) - the semantic tie text <-> model,
    with out-of-bounds / undefined behaviour as distinct outcomes.
 2. For a sample of the random modules of Spine A the whole generated source
    (per-type functions + the helpers it contains) is translated to one IR
    program and evaluated under vm_compute:
      * encode of every value = the bytes of the Python codec,
      * encode into every smaller destination: negative result, no FOob/FUb,
      * decode of the Python bytes = the expected struct (don't-care for absent
        members), result = length,
      * decode of the mutated inputs: no FOob / FUb / FUninit, and the result
        code equals what the compiled binary returned for the same input (this
        validates the translator and the IR semantics against gcc/clang).
"""
import os
import re

import common
from common import C, Raw, to_coq
import c09_cc
import c09_driver
import c09_helpers
import c09_spine_a as A
from c09_driver import cparse

import sys
sys.path.insert(0, os.path.join(common.VERIF, 'translator'))
import ctoir  # noqa: E402

FUEL = 'Z.to_nat 30000'
CODES = {1: 'differs from the expectation', 2: 'out-of-bounds access (FOob)', 3: 'undefined behaviour (FUb)',
         4: 'read of an uninitialised object (FUninit)', 5: 'stuck (ill-formed IR)', 6: 'out of fuel'}


def helpers_program():
    su, funcs, structs, texts = c09_helpers.parse_helpers()
    u = cparse.parse_unit(structs + '\n'.join(t for _, t in texts))
    u.defines = {'ENOMEM': 12, 'EINVAL': 22, 'EOUTOFDATA': 500, 'EBADCHOICE': 501, 'EBADLENGTH': 502, 'EBADENUM': 503}
    return ctoir.Translator([u]).program()


def helpers_vs_model(ctx, n, rng=None):
    rng = rng or ctx.rng
    try:
        prog = helpers_program()
    except cparse.CParseError as e:
        ctx.violation('the helper block cannot be translated to the IR: %s' % e, dict(kind='helpers-ir', error=str(e)),
                      no_input=True)
        return
    hist = [('E',) + c09_helpers.gen_history(rng, True) for _ in range(n)] + \
           [('D',) + c09_helpers.gen_history(rng, False) for _ in range(n)]
    for pre in range(0, 17):
        for w in (0, 1, 7, 8, 9):
            hist.append(('E', 2, b'\xaa\xaa', [('n', 0, pre), ('n', (1 << w) - 1 if w else 0, w), ('b', 1)]))
            hist.append(('D', 2, b'\x5a\xc3', [('n', pre), ('n', w), ('b',)]))
        hist.append(('E', 3, b'\xff\xff\xff', [('n', 0, pre), ('y', b'\x81\x7e', 2), ('b', 1)]))
        hist.append(('D', 3, b'\x81\x7e\xc3', [('n', pre), ('y', 2, 2), ('u8',)]))
        hist.append(('E', 3, b'\xff\xff\xff', [('n', 0, pre), ('i16', -2), ('b', 1)]))
    ecases = [(list(init), size, [c09_helpers.op_coq(o, True) for o in ops]) for k, size, init, ops in hist if k == 'E']
    dcases = [(list(init), size, [c09_helpers.op_coq(o, False) for o in ops]) for k, size, init, ops in hist if k == 'D']
    body = '''
Open Scope string_scope.
Definition helpers_ir : program := %s.
Definition fuel := %s.
Definition ecases : list (list Z * Z * list eop) := %s.
Definition dcases : list (list Z * Z * list dop) := %s.
Eval vm_compute in nonzero (map (enc_agree helpers_ir fuel) ecases).
Eval vm_compute in nonzero (map (dec_agree helpers_ir fuel) dcases).
''' % (prog, FUEL, to_coq(ecases), to_coq(dcases))
    ebad, dbad = ctx.coq_eval('helpers_ir', ['Base.Prelude', 'CGen.Ir', 'CGen.Helpers', 'CGen.IrRun'], body)
    eh = [h for h in hist if h[0] == 'E']
    dh = [h for h in hist if h[0] == 'D']
    ctx.evaluations += len(hist)
    ctx.count('ir:helper-histories', len(hist))
    for bad, hs in ((ebad, eh), (dbad, dh)):
        for i, code in bad:
            k, size, init, ops = hs[i]
            c09_cc.limited_violation(
                ctx, 'helpers-ir',
                'the helper block as parsed from uper_functions.py and the model CGen/Helpers.v disagree on history %s '
                '(buffer of %d bytes): %s' % ([c09_helpers.op_text(o, k == 'E') for o in ops], size, CODES.get(code, code)),
                dict(kind='helpers-ir', side=k, size=size, init=init.hex(),
                     ops=[c09_helpers.op_text(o, k == 'E') for o in ops], code=code))


# --------------------------------------------------------------------------
# struct values

_SEL = re.compile(r'\.(\w+)|->(\w+)|\[(\d+)\]')


def parse_lvalue(expr):
    """'p->a.b[3].c' -> ['a', 'b', 3, 'c']"""
    assert expr.startswith('p'), expr
    out = []
    pos = 1
    while pos < len(expr):
        m = _SEL.match(expr, pos)
        if not m:
            raise ValueError('lvalue %r' % expr)
        if m.group(3) is not None:
            out.append(int(m.group(3)))
        else:
            out.append(m.group(1) or m.group(2))
        pos = m.end()
    return out


class Sk(object):
    """Mutable skeleton of a C object: leaf None (undefined) / int, list, dict."""


def skeleton(tr, t):
    k = t[0]
    if k == 'int':
        return None
    if k == 'arr':
        return [skeleton(tr, t[1]) for _ in range(t[2])]
    if k == 'struct':
        return dict((n, skeleton(tr, ft)) for n, ft in t[1])
    raise cparse.CParseError('skeleton of %r' % (k,))


def count_leaves(t):
    k = t[0]
    if k == 'int':
        return 1
    if k == 'arr':
        return t[2] * count_leaves(t[1])
    if k == 'struct':
        return sum(count_leaves(ft) for _, ft in t[1])
    return 1


def sk_set(sk, path, v):
    for s in path[:-1]:
        sk = sk[s]
    sk[path[-1]] = v


def sk_coq(sk):
    if sk is None:
        return 'VUndef'
    if isinstance(sk, int):
        return '(VInt (%d))' % sk
    if isinstance(sk, list):
        # run-length: long undefined tails are frequent
        return '(VArr [%s])' % '; '.join(sk_coq(x) for x in sk)
    return '(VRec [%s])' % '; '.join('("%s", %s)' % (n, sk_coq(v)) for n, v in sk.items())


def struct_value(tr, walker, spec, m, n, v):
    """(skeleton text, filled-value text) of the struct of type (m, n) for value v."""
    sname = walker.struct_of[(m, n)]
    t = tr.ty(cparse.CType('struct ' + sname))
    sk = skeleton(tr, t)
    empty = sk_coq(sk)
    sets = []
    walker.fill(spec.index[(m, n)], walker.top_slot(m, n), v, sets, n)
    for expr, num in sets:
        sk_set(sk, parse_lvalue(expr), num)
    want = sk_coq(sk)
    garbage_buffers(sk)
    return empty, sk_coq(sk), want, t


def garbage_buffers(sk):
    """The unused tail of an octet buffer holds arbitrary bytes (the C driver
    uses 0xA5): memcmp against a DEFAULT legitimately reads them."""
    if isinstance(sk, dict):
        for k, v in sk.items():
            if k == 'buf' and isinstance(v, list):
                sk[k] = [165 if x is None else x for x in v]
            else:
                garbage_buffers(v)
    elif isinstance(sk, list):
        for x in sk:
            garbage_buffers(x)


PUBLIC_ENC = re.compile(
    r'^\w+ \w+\(uint8_t\* p0, size_t p1, const struct (\w+)\* p2\) \{ struct encoder_t l0; '
    r'encoder_init\(\(&l0\), p0, p1\); (\w+)_encode_inner\(\(&l0\), p2\); return encoder_get_result\(\(&l0\)\); \}$')
PUBLIC_DEC = re.compile(
    r'^\w+ \w+\(struct (\w+)\* p0, const uint8_t\* p1, size_t p2\) \{ struct decoder_t l0; '
    r'decoder_init\(\(&l0\), p1, p2\); (\w+)_decode_inner\(\(&l0\), p0\); return decoder_get_result\(\(&l0\)\); \}$')


def check_public(src_unit, prefix):
    """The public functions have exactly the shape the Coq runners execute."""
    for suffix, rx in (('_encode', PUBLIC_ENC), ('_decode', PUBLIC_DEC)):
        f = src_unit.functions.get(prefix + suffix)
        if f is None:
            raise cparse.CParseError('public function %s%s missing' % (prefix, suffix))
        norm = re.sub(r'\s+', ' ', cparse.show_function(cparse.alpha_function(f)))
        mm = rx.match(norm)
        if not mm or mm.group(2) != prefix or mm.group(1) != prefix + '_t':
            raise cparse.CParseError('public function %s%s has an unexpected body: %s' % (prefix, suffix, norm[:300]))


def unit_cases(ctx, p, max_leaves=400, max_cases=4, max_fuzz=10):
    """Coq text evaluating one prepared Spine A unit in the IR, and the list of
    what each result position means."""
    tr = ctoir.Translator([p.header, p.source])
    prog = tr.program()
    walker = c09_driver.TreeWalker(p.spec, p.header, getattr(p, 'codec', 'uper'))
    meta = []
    lines = []
    for (m, n) in p.types:
        check_public(p.source, walker.struct_of[(m, n)][:-2])
    done = 0
    sk_defs = {}
    defs = []
    fuzz_results = getattr(p, 'fuzz_c_results', {})
    by_type_done = {}
    for ci, ((m, n, v), b) in enumerate(zip(p.cases, p.pybytes)):
        if done >= max_cases or len(b) > 400 or by_type_done.get((m, n), 0) >= 3:
            continue
        sname = walker.struct_of[(m, n)]
        t = tr.ty(cparse.CType('struct ' + sname))
        if count_leaves(t) > max_leaves:
            continue
        empty, full, want, _ = struct_value(tr, walker, p.spec, m, n, v)
        prefix = sname[:-2]
        if prefix not in sk_defs:
            sk_defs[prefix] = 'Definition sk_%s : val := %s.' % (prefix, empty)
        defs.append('Definition v_%d : val := %s.\nDefinition w_%d : val := %s.\nDefinition b_%d : list Z := %s.' % (
            ci, full, ci, want, ci, to_coq(list(b))))
        lines.append('check_encode prog fuel "%s_encode_inner" v_%d b_%d' % (prefix, ci, ci))
        meta.append(('encode', ci, None))
        for sz in sorted(set([0, len(b) - 1, len(b) // 2])):
            if 0 <= sz < len(b):
                lines.append('check_encode_small prog fuel "%s_encode_inner" v_%d %d' % (prefix, ci, sz))
                meta.append(('small', ci, sz))
        lines.append('check_decode prog fuel "%s_decode_inner" sk_%s w_%d b_%d' % (prefix, prefix, ci, ci))
        meta.append(('decode', ci, None))
        done += 1
        by_type_done[(m, n)] = by_type_done.get((m, n), 0) + 1
    nf = 0
    results_lines = []
    for fi, (ti, data) in enumerate(p.fuzz):
        if nf >= max_fuzz or len(data) > 300 or fi not in fuzz_results:
            continue
        m, n = p.types[ti]
        sname = walker.struct_of[(m, n)]
        t = tr.ty(cparse.CType('struct ' + sname))
        if count_leaves(t) > max_leaves:
            continue
        prefix = sname[:-2]
        if prefix not in sk_defs:
            sk_defs[prefix] = 'Definition sk_%s : val := %s.' % (prefix, sk_coq(skeleton(tr, t)))
        results_lines.append('decode_result prog fuel "%s_decode_inner" sk_%s %s' % (prefix, prefix, to_coq(list(data))))
        meta.append(('fuzz', fi, fuzz_results[fi]))
        nf += 1
    body = '''
Open Scope string_scope.
Definition prog : program := %s.
Definition fuel := %s.
Definition decode_result prog fuel inner sk src : Z :=
  match run_decode prog fuel inner sk src (Z.of_nat (length src)) with
  | ROk (r, _) => r
  | RFail f => 1000000 + fail_code f
  end.
%s
%s
Eval vm_compute in [%s].
''' % (prog, FUEL, '\n'.join(sk_defs.values()), '\n'.join(defs),
       ';\n  '.join(lines + results_lines) if (lines or results_lines) else '0')
    return body, meta


def run_units(ctx, preps, n_units):
    done = 0
    jobs = []
    for p in preps:
        if done >= n_units:
            break
        if p.unit is None or not getattr(p, 'cases', None) or p.unit.result is None:
            continue
        if p.unit.result.get('gcc_rc') != 0:
            continue
        # result codes of the compiled decoder per fuzz input
        res = {}
        if 'fuzz' in p.unit.result:
            rc, out, err = p.unit.result['fuzz']
            for idx, line in enumerate(l for l in out.splitlines() if l.startswith('F ')):
                head = line.split('|')[0].split()
                if len(head) >= 4:
                    res[idx] = int(head[3])
        p.fuzz_c_results = res
        try:
            body, meta = unit_cases(ctx, p) if ctx.quick else unit_cases(ctx, p, 1500, 10, 30)
        except cparse.CParseError as e:
            c09_cc.limited_violation(ctx, 'ir-dialect', 'generated C cannot be translated to the IR: %s' % e,
                                     dict(kind='ir-dialect', spec=p.spec.to_json(), text=p.text, error=str(e)))
            continue
        except c09_driver.LayoutError:
            continue
        if not meta:
            continue
        done += 1
        jobs.append((p, body, meta))
    if not jobs:
        return
    # the first evaluation builds CGen/Ir.vo if needed; the others run in parallel coqc processes
    from concurrent.futures import ThreadPoolExecutor

    def ev(i):
        p, body, meta = jobs[i]
        try:
            return ctx.coq_eval('ir_unit_%d' % i, ['Base.Prelude', 'CGen.Ir'], body, timeout=600)
        except RuntimeError as e:
            return e
    with ThreadPoolExecutor(max_workers=8) as ex:
        results = list(ex.map(ev, range(len(jobs))))
    for (p, body, meta), r in zip(jobs, results):
        if isinstance(r, RuntimeError):
            c09_cc.limited_violation(ctx, 'ir-coq', 'the IR program of a generated source is rejected by Coq: %s' % str(r)[-400:],
                                     dict(kind='ir-coq', spec=p.spec.to_json(), text=p.text))
            continue
        (codes,) = r
        for (kind, idx, extra), code in zip(meta, codes):
            ctx.evaluations += 1
            ctx.count('ir:' + kind)
            if kind == 'fuzz':
                ti, data = p.fuzz[idx]
                m, n = p.types[ti]
                if code >= 1000000:
                    c09_cc.limited_violation(
                        ctx, 'ir-fuzz', 'IR execution of the decoder of %s on input %s: %s' % (
                            n, data.hex()[:80], CODES.get(code - 1000000, code)),
                        dict(kind='ir-fuzz', spec=p.spec.to_json(), text=p.text, module=m, type=n, input=data.hex(), code=code))
                elif code != extra:
                    c09_cc.limited_violation(
                        ctx, 'ir-vs-binary', 'IR semantics and compiled decoder of %s disagree on input %s: IR returns %d, '
                        'binary %d' % (n, data.hex()[:80], code, extra),
                        dict(kind='ir-fuzz', spec=p.spec.to_json(), text=p.text, module=m, type=n, input=data.hex(),
                             ir=code, binary=extra))
                continue
            if code != 0:
                m, n, v = p.cases[idx]
                c09_cc.limited_violation(
                    ctx, 'ir-' + kind,
                    'IR execution of the generated %s of %s%s: %s' % (
                        'encoder' if kind != 'decode' else 'decoder', n,
                        ' into %d bytes' % extra if kind == 'small' else '', CODES.get(code, code)),
                    A._case_replay(p, idx, 'ir-' + kind, code=code))
    ctx.count('ir:units', done)


def run(ctx, active, preps=None):
    helpers_vs_model(ctx, 60 if ctx.quick else 600)
    if preps:
        run_units(ctx, preps, 8 if ctx.quick else 80)
