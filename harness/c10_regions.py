"""Regions of the type universe in which /repo's OER C generator has a recorded
defect (C10); same mechanism as c09_regions.py: a predicate is active only
while the witness of the finding with the same id still reproduces.

where: 'type' (type node), 'member' (SEQUENCE root member), 'addition'
(extension addition member of a SEQUENCE).
"""
import re
import c09_types as T


def canon(name):
    return re.sub(r'[^a-zA-Z0-9]', '_', name)


def bits_wider_than_32(t, where, resolve):
    """BIT STRING (SIZE(33..56)): the generated code always moves 8 bytes."""
    return where == 'type' and t.kind == 'bits' and 32 < t.n <= 56


def seqof_fixed_above_255(t, where, resolve):
    """SEQUENCE (SIZE(n)) OF with n >= 256: the decoder insists on a one-byte quantity field."""
    return where == 'type' and t.kind == 'seqof' and t.lo == t.hi and t.hi >= 256


def addition_name_not_identifier(m, where, resolve):
    """extension addition whose name is not a C identifier (pasted un-canonicalised)."""
    return where == 'addition' and canon(m.name) != m.name


SCALARS = ('bool', 'int', 'real', 'null', 'enum')


def addition_type_works(ty, resolve, depth=0):
    """Addition member types for which the static length code of the generator
    produces compilable and correct code (established by probing)."""
    t = resolve(ty)
    k = t.kind
    if k in SCALARS:
        return not (ty.kind == 'ref' and k == 'enum')      # a referenced ENUMERATED is a struct: "(int32_t)src_p->x" does not compile
    if k == 'octets':
        return True
    if k == 'seqof':
        return ty.kind != 'ref' and t.lo != t.hi and t.elem.kind in ('bool', 'int', 'real', 'null')
    # CHOICE: the generated get_choice_<name>_length helper takes a struct that only exists when the SEQUENCE is a
    # type assignment itself, and is keyed by the member name alone (two CHOICE additions called alike share one helper)
    return False


def addition_static_length(m, where, resolve):
    """extension addition of a type for which the generated length prefix code is wrong or does not compile
    (SEQUENCE, fixed-size SEQUENCE OF, SEQUENCE OF of non-scalars, referenced CHOICE, ...)."""
    return where == 'addition' and not addition_type_works(m.ty, resolve)


import c09_regions

def addition_loop_variable(t, where, resolve):
    """A type assignment with both a SEQUENCE OF and a SEQUENCE with known additions: the decoder's
    bit-counting loop uses the literal variable i, i.e. the SEQUENCE OF's loop variable."""
    if where != 'type':
        return False
    subs = list(T.subtypes(t))
    return any(x.kind == 'seqof' for x in subs) and any(x.kind == 'seq' and getattr(x, 'additions', None) for x in subs)


def additions_multiple_of_8(t, where, resolve):
    """SEQUENCE with 8, 16, ... known extension additions (cannot skip a newer version's additions)."""
    return where == 'type' and t.kind == 'seq' and bool(getattr(t, 'additions', None)) and len(t.additions) % 8 == 0


REGIONS = {
    'oer-additions-multiple-of-8': additions_multiple_of_8,
    'oer-addition-loop-variable': addition_loop_variable,
    'oer-octets-fixed-default': c09_regions.octets_fixed_default,
    'oer-octets-default-name-clash': c09_regions.octets_default_name_clash,
    'oer-bits-wider-than-32': bits_wider_than_32,
    'oer-seqof-fixed-above-255': seqof_fixed_above_255,
    'oer-addition-name-not-identifier': addition_name_not_identifier,
    'oer-addition-static-length': addition_static_length,
}
ALIAS = {}


def make_avoid(ids):
    ids = set(ALIAS.get(i, i) for i in ids)
    preds = [REGIONS[i] for i in ids if i in REGIONS]

    def avoid(node, where, resolve):
        return any(p(node, where, resolve) for p in preds)
    return avoid
