#!/bin/bash
# usage: harness/seedtest.sh <worktree-with-seeded-change> <Cnn> [quick|thorough] [seed]
# Confirms the seed (demo fails with the change, passes without; suite unchanged vs baseline) and runs the check on it.
D=$1; P=$2; T=${3:-quick}; S=${4:-1}
cd /verif
echo "== demo with change:"; PYTHONPATH=$D timeout 600 /venv/bin/python $D/seed/demo.py 2>&1 | grep -v conda | tail -3; echo "exit=${PIPESTATUS[0]}"
git -C $D apply -R $D/seed/patch.diff; echo "== demo without change:"; PYTHONPATH=$D timeout 600 /venv/bin/python $D/seed/demo.py 2>&1 | grep -v conda | tail -2; echo "exit=${PIPESTATUS[0]}"; git -C $D apply $D/seed/patch.diff
echo "== suite with change:"; harness/baseline.sh $D
echo "== check $P ($T) on the changed tree:"
VERIF_REPO=$D VERIF_SEED=$S timeout 3000 ./check $P --tier $T > /tmp/seedtest_$P.log 2>&1; echo "check exit=$?"
grep -c "^VIOLATION" /tmp/seedtest_$P.log; grep -A1 "^VIOLATION\|what:" /tmp/seedtest_$P.log | head -8 | cut -c1-300
