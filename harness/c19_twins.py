"""C19 (round 5) — "twin" components.

Region: the same identifier referring to the same named type from several
SEQUENCE / SET / CHOICE types (or twice at different depths of one type, or as
the element of several SEQUENCE OF), where every site carries its own
combination of {value constraint | SIZE, OPTIONAL | DEFAULT, tag} (including
none), under every tagging environment (EXPLICIT / IMPLICIT / AUTOMATIC module
default, with and without explicit [n]), for all 8 codecs.  The library compiles
a referenced type once per (defining module, type name, component identifier)
and shares the object between such sites (compiler.py compile_user_type /
get_compiled_type); whatever a codec or compile_member sets on it without
copying first leaks to the twin sites — and disappears as soon as the
definition is written inline at either site, which is what C19 forbids.

  property test   one abstract specification, arrangements: definition written
                  inline at ALL sites (the reference: no sharing possible),
                  references everywhere (canonical), inline at each single site,
                  assignment order permuted, split over modules with IMPORTS;
                  8 codecs; values of every holder directed at the attributes of
                  the OTHER sites (their DEFAULT values, the bounds of their
                  constraints +-1, component absent); bytes, decoded values, and
                  the decoding of every produced encoding as every holder type
                  are compared with the reference arrangement.
  model tie       Compile/MemberAttrs.v: [attrs (flatten ..)] (identifier and
                  OPTIONAL / DEFAULT status + value of every component, in depth)
                  is evaluated in Coq for every holder of every arrangement and
                  compared with the attributes of the objects each of the 8
                  codecs of /repo compiles; [flatten] of every holder agrees
                  between the arrangements (instances of C19_inline_ref_flatten
                  + unfold_components_as_written / twin_components_independent);
                  [compile_named crepaired] against the dump of the PER types.

All randomness from ctx.rng.
"""
import copy
import os
import re

import common
from common import to_coq, C
import lib
import c13c19_gen as G
import c13c19_flat as F

import asn1tools

IMPORTS = ['Base.Prelude', 'Compile.Descr', 'Compile.Preprocess', 'Compile.Resolve', 'Compile.Flatten',
           'Compile.MemberAttrs']
LF, KF, DEPTH = 30, 30, 5
THEOREMS = ['unfold_components_as_written', 'compile_components_as_written', 'twin_components_independent',
            'ex_twin_attrs']

ABSENT = ('<absent>',)


def ref(name):
    return {'k': 'REF', 'name': name, 'size': None, 'c': None}


def base_type(kind):
    if kind == 'int':
        return {'k': 'INTEGER', 'c': None, 'named': None}
    if kind == 'intc':
        return {'k': 'INTEGER', 'c': {'lo': -2, 'hi': 100, 'ext': False}, 'named': None}
    if kind == 'bool':
        return {'k': 'BOOLEAN'}
    if kind == 'enum':
        return {'k': 'ENUMERATED', 'root': [('red', 0), ('green', 1), ('blue', 5)], 'ext': None}
    if kind == 'octets':
        return {'k': 'OCTET STRING', 'size': None}
    if kind == 'bits':
        return {'k': 'BIT STRING', 'size': None, 'named': None}
    if kind == 'str':
        return {'k': 'STRING', 'sk': 'IA5String', 'size': None, 'alpha': None}
    if kind == 'seqof':
        return {'k': 'SEQUENCE OF', 'elem': {'k': 'BOOLEAN'}, 'size': None}
    if kind == 'seq':
        return {'k': 'SEQUENCE', 'ext': None,
                'root': [{'name': 'p', 't': {'k': 'INTEGER', 'c': None, 'named': None}, 'opt': None},
                         {'name': 'q', 't': {'k': 'BOOLEAN'}, 'opt': 'optional'}]}
    if kind == 'choice':
        return {'k': 'CHOICE', 'ext': None,
                'root': [{'name': 'c0', 't': {'k': 'BOOLEAN'}, 'opt': None},
                         {'name': 'c1', 't': {'k': 'INTEGER', 'c': None, 'named': None}, 'opt': None}]}
    raise AssertionError(kind)


BASES = ['int', 'intc', 'bool', 'enum', 'octets', 'bits', 'str', 'seqof', 'seq', 'choice']
RANGED = ('int',)
SIZED = ('octets', 'bits', 'str', 'seqof')
DEFAULTABLE = ('int', 'intc', 'bool', 'enum', 'octets', 'bits')


def sized_value(kind, n, rng):
    if kind == 'octets':
        return bytes((0xa0 + i) & 0xff for i in range(n))
    if kind == 'bits':
        if n == 0:
            return (b'', 0)
        b = bytearray((n + 7) // 8)
        for i in range(0, n, 2):
            b[i // 8] |= 0x80 >> (i % 8)
        b[(n - 1) // 8] |= 0x80 >> ((n - 1) % 8)        # last bit set: no trailing zero bits
        return (bytes(b), n)
    if kind == 'str':
        return 'abcdefghij'[:n] if n <= 10 else 'a' * n
    if kind == 'seqof':
        return [i % 2 == 0 for i in range(n)]
    raise AssertionError(kind)


class Deco(object):
    """What is written on one site: cons = a value range (INTEGER) or a SIZE, opt, tag."""

    def __init__(self, cons=None, opt=None, tag=None):
        self.cons = cons
        self.opt = opt
        self.tag = tag

    def key(self):
        return ('c' if self.cons else '-') + \
               ('o' if self.opt == 'optional' else 'd' if self.opt else '-') + ('t' if self.tag else '-')


def gen_deco(rng, base, holder, want):
    """[want]: subset of 'c', 'o', 'd', 't' asked for; what is not applicable at this site is dropped."""
    d = Deco()
    if 'c' in want and base in RANGED:
        lo = rng.choice([0, 0, -3, 1])
        d.cons = {'lo': lo, 'hi': lo + rng.choice([7, 7, 30, 300]), 'ext': rng.random() < .15}
    elif 'c' in want and base in SIZED:
        lo = rng.choice([1, 1, 2])
        d.cons = {'lo': lo, 'hi': lo + rng.choice([0, 2, 5]), 'ext': rng.random() < .15}
    if holder in ('SEQUENCE', 'SET'):
        if 'd' in want and base in DEFAULTABLE:
            if base in ('int', 'intc'):
                c = d.cons or {'lo': 0, 'hi': 7}
                v = rng.choice([c['lo'], min(c['lo'] + 3, c['hi']), c['hi']])
            elif base == 'bool':
                v = rng.random() < .5
            elif base == 'enum':
                v = rng.choice(['red', 'green', 'blue'])
            else:
                c = d.cons or {'lo': 1, 'hi': 3}
                v = sized_value(base, rng.choice([c['lo'], c['hi']]), rng)
            d.opt = ('default', v)
        elif 'o' in want or 'd' in want:
            d.opt = 'optional'
    if 't' in want:
        d.tag = ('', rng.choice([0, 1, 5, 30, 31]), rng.choice(['', '', 'IMPLICIT', 'EXPLICIT']))
    return d


WANTS = ['', 'c', 'o', 'd', 't', 'co', 'cd', 'ct', 'ot', 'dt', 'cot', 'cdt']


def site_ref(tname, base, deco):
    r = ref(tname)
    if deco.cons is not None:
        r['c' if base in RANGED else 'size'] = dict(deco.cons)
    return r


def holder_type(kind, mname, mtype, deco, extra=None):
    """kind { <mname> <mtype> <deco>, [extra,] zz NULL }"""
    ms = [{'name': mname, 't': mtype, 'opt': deco.opt if kind != 'CHOICE' else None}]
    if extra is not None:
        ms.append(extra)
    ms.append({'name': 'zz', 't': {'k': 'NULL'}, 'opt': None})
    if deco.tag is not None:
        cls, num, mode = deco.tag
        for i, m in enumerate(ms):
            m['tag'] = (cls, num + i, mode if i == 0 else '')
    return {'k': kind, 'root': ms, 'ext': None}


class TwinCase(object):
    pass


def gen_case(rng, idx, tags=None, base=None, wants=None, shape=None, holders=None):
    """One abstract specification with twin sites.  -> TwinCase"""
    tc = TwinCase()
    tc.tags = tags or ['EXPLICIT', 'IMPLICIT', 'AUTOMATIC'][idx % 3]
    tc.base = base or rng.choice(BASES)
    tc.shape = shape or rng.choice(['two', 'two', 'two', 'three', 'depth', 'elem'])
    if tc.shape == 'elem' and tc.base in SIZED:
        tc.shape = 'two'        # known finding size-on-element-reference
    alias = rng.random() < .2
    types = [('T', base_type(tc.base))]
    tname = 'T'
    if alias:
        types.append(('A', ref('T')))
        tname = 'A'
    tc.alias = alias
    n_sites = {'two': 2, 'three': 3, 'depth': 3, 'elem': 2}[tc.shape]
    if wants is None:
        first = rng.choice(WANTS[1:])
        wants = [first] + [rng.choice(['', '', ''] + WANTS) for _ in range(n_sites - 1)]
        rng.shuffle(wants)
    wants = (list(wants) + [''] * n_sites)[:n_sites]
    hk = lambda: rng.choice(['SEQUENCE', 'SEQUENCE', 'SEQUENCE', 'SET', 'CHOICE'])
    holders = list(holders or []) + [hk() for _ in range(n_sites)]
    tc.decos = []
    tc.sites = []           # (named type, path of member names to the holder of the site, slot) slot = 'm' | 'elem'
    if tc.shape in ('two', 'three'):
        for i in range(n_sites):
            d = gen_deco(rng, tc.base, holders[i], wants[i])
            tc.decos.append(d)
            types.append(('H%d' % (i + 1), holder_type(holders[i], 'm', site_ref(tname, tc.base, d), d)))
            tc.sites.append(('H%d' % (i + 1), (), 'm'))
    elif tc.shape == 'depth':
        # H1 { m <d1>, inner K { m <d2>, zz }, zz }   H2 { m <d3>, zz }
        if holders[0] == 'CHOICE':
            holders[0] = 'SEQUENCE'
        d1 = gen_deco(rng, tc.base, holders[0], wants[0])
        ik = rng.choice(['SEQUENCE', 'SEQUENCE', 'SET'])
        d2 = gen_deco(rng, tc.base, ik, wants[1])
        d3 = gen_deco(rng, tc.base, holders[2], wants[2])
        inner = {'name': 'inner', 't': holder_type(ik, 'm', site_ref(tname, tc.base, d2), d2), 'opt': None}
        h1 = holder_type(holders[0], 'm', site_ref(tname, tc.base, d1), d1, extra=inner)
        types.append(('H1', h1))
        types.append(('H2', holder_type(holders[2], 'm', site_ref(tname, tc.base, d3), d3)))
        tc.decos = [d1, d2, d3]
        tc.sites = [('H1', (), 'm'), ('H1', ('inner',), 'm'), ('H2', (), 'm')]
    else:
        # H1 { list SEQUENCE OF T <range>, zz }   H2 { list SEQUENCE OF T, zz }: the element is the site
        for i in range(2):
            d = gen_deco(rng, tc.base, 'CHOICE', wants[i].replace('t', ''))     # only the constraint applies
            d.tag = None
            lst = {'k': rng.choice(['SEQUENCE OF', 'SEQUENCE OF', 'SET OF']), 'elem': site_ref(tname, tc.base, d), 'size': None}
            hd = gen_deco(rng, 'seqof', holders[i], wants[i].replace('c', '').replace('d', 'o'))
            tc.decos.append(d)
            types.append(('H%d' % (i + 1), holder_type(holders[i] if holders[i] != 'CHOICE' else 'SEQUENCE', 'list', lst, hd)))
            tc.sites.append(('H%d' % (i + 1), ('list',), 'elem'))
    if rng.random() < .5:
        # the referenced type need not come first
        t0 = types.pop(0)
        types.insert(rng.randrange(len(types) + 1), t0)
    tc.spec = G.Spec(tc.tags, False, types, [])
    tc.holders = [n for n, _ in types if n.startswith('H')]
    tc.key = (tc.tags, tc.base, tc.shape, tuple(d.key() for d in tc.decos), alias)
    return tc


def find_site(spec_types, site):
    name, path, slot = site
    t = dict(spec_types)[name]
    for step in path:
        t = next(m for m in G.members_of(t) if m['name'] == step)['t']
    if slot == 'elem':
        return t, 'elem'
    m = next(m for m in G.members_of(t) if m['name'] == 'm')
    return m, 't'


def inline_sites(tc, which):
    """Deep copy of the specification with the definition of the referenced type written in place at
    the sites [which] (the constraint of the site applied to the copy)."""
    s = copy.deepcopy(tc.spec)
    td = s.tdict()
    for i in which:
        h, key = find_site(s.types, tc.sites[i])
        r = h[key]
        assert r['k'] == 'REF'
        d = td[r['name']]
        n = 0
        while d['k'] == 'REF':
            d = td[d['name']]
            n += 1
            assert n < 10
        d = copy.deepcopy(d)
        if r.get('size') is not None:
            assert d.get('size') is None
            d['size'] = r['size']
        if r.get('c') is not None:
            assert d.get('c') is None
            d['c'] = r['c']
        h[key] = d
    return s


def arrangements(rng, tc, serial):
    """[(label, text, mods)]; the first one is the reference (inline everywhere).  Module names are
    made unique with [serial] so that many arrangements can be parsed in one call of the parser."""
    n = len(tc.sites)
    out = []

    def add(label, spec, **kw):
        mods = G.arrange(rng, spec, **kw)
        for m in mods:
            m['name'] = '%s%dx%d' % (m['name'], serial, len(out))
        out.append((label, G.render_text(mods), mods))
    one = dict(reorganise=False, nmods=1)
    add('inline at every site', inline_sites(tc, range(n)), **one)
    add('references at every site', tc.spec, **one)
    for i in range(n):
        add('inline at site %d only' % (i + 1), inline_sites(tc, [i]), **one)
    add('references, assignments permuted, split over modules', tc.spec, reorganise=True,
        nmods=rng.choice([1, 2, 3]), kinds=('split', 'permute'))
    return out


def parse_batch(ctx, items):
    """items: list of (tc, arrs).  Sets tc.parsed = [dict per arrangement] (None when the text does not
    parse).  One call of the parser for the whole batch (building the grammar dominates otherwise)."""
    text = '\n'.join(t for _, arrs in items for _, t, _ in arrs)
    p = lib.attempt(asn1tools.parse_string, text)
    for tc, arrs in items:
        tc.parsed = []
        for label, t, mods in arrs:
            if p[0] == 'ok':
                tc.parsed.append({m['name']: p[1][m['name']] for m in mods})
            else:
                q = lib.attempt(asn1tools.parse_string, t)
                tc.parsed.append(q[1] if q[0] == 'ok' else None)
                if q[0] != 'ok':
                    ctx.violation('twin components: the arrangement "%s" does not parse: %s' % (label, q[1:]),
                                  dict(kind='twin', arrangement1=arrs[0][1], arrangement2=t, what=label))


# ---------------------------------------------------------------------------
# directed values

def member_candidates(rng, tc):
    base = tc.base
    out = []

    def add(v):
        if v not in out:
            out.append(v)
    for d in tc.decos:
        if isinstance(d.opt, tuple):
            add(d.opt[1])
    if base in ('int', 'intc'):
        for d in tc.decos:
            if d.cons:
                for v in (d.cons['lo'], d.cons['hi'], d.cons['lo'] - 1, d.cons['hi'] + 1):
                    add(v)
        add(0)
        add(rng.choice([2, 5, 100, -2, 1000, -70000]))
    elif base == 'bool':
        add(True)
        add(False)
    elif base == 'enum':
        for v in ('red', 'green', 'blue'):
            add(v)
    elif base in SIZED:
        for d in tc.decos:
            if d.cons:
                for n in (d.cons['lo'], d.cons['hi'], d.cons['lo'] - 1, d.cons['hi'] + 1):
                    add(sized_value(base, n, rng))
        add(sized_value(base, 0, rng))
        add(sized_value(base, rng.choice([1, 3, 9]), rng))
    elif base == 'seq':
        add({'p': 3, 'q': True})
        add({'p': 0})
    elif base == 'choice':
        add(('c0', True))
        add(('c1', 5))
    if len(out) > 9:
        keep = out[:5]
        rest = out[5:]
        rng.shuffle(rest)
        out = keep + rest[:4]
    return out


def holder_values(rng, tc, cands):
    """{holder name: [values]}"""
    td = tc.spec.tdict()
    vals = {}
    for h in tc.holders:
        t = td[h]
        vs = []
        if tc.shape == 'elem':
            for i, v in enumerate(cands):
                vs.append({'list': [v, cands[(i + 1) % len(cands)]], 'zz': None})
            vs.append({'list': [], 'zz': None})
            vs.append({'zz': None})
        elif t['k'] == 'CHOICE':
            vs = [('m', v) for v in cands] + [('zz', None)]
        elif any(m['name'] == 'inner' for m in t['root']):
            for i, v in enumerate(cands + [ABSENT]):
                for w in (v, (cands + [ABSENT])[(i + 1) % (len(cands) + 1)]):
                    x = {'zz': None, 'inner': {'zz': None}}
                    if v is not ABSENT:
                        x['m'] = v
                    if w is not ABSENT:
                        x['inner']['m'] = w
                    vs.append(x)
        else:
            for v in cands:
                vs.append({'m': v, 'zz': None})
            vs.append({'zz': None})
        vals[h] = vs
    return vals


# ---------------------------------------------------------------------------
# property test

def cls(r):
    return r if r[0] == 'ok' else r[:2]


def show(r):
    if r[0] == 'ok':
        v = r[1]
        return ('ok', v.hex() if isinstance(v, (bytes, bytearray)) else repr(v))
    return r[:2]


def check_case(ctx, tc, arrs, vals, codecs):
    """Compare every arrangement with the reference one.  Returns True when a violation was reported."""
    parsed = tc.parsed
    tc.comp = {}
    if any(d is None for d in parsed):
        return True
    for codec in codecs:
        comp = [lib.attempt(asn1tools.compile_dict, copy.deepcopy(d), codec) for d in parsed]
        tc.comp[codec] = comp
        c0 = comp[0]
        for i in range(1, len(arrs)):
            ci = comp[i]
            here = dict(kind='twin', id='twin-components', codec=codec, codecs=[codec], arrangement1=arrs[0][1],
                        arrangement2=arrs[i][1], what=arrs[i][0], case=repr(tc.key))
            ctx.evaluations += 1
            if c0[0] != ci[0] or (c0[0] == 'err' and c0[1] != ci[1]):
                ctx.violation('twin components, %s: "%s" %s, "%s" %s' % (
                    codec, arrs[0][0], 'compiles' if c0[0] == 'ok' else 'raises %s' % (c0[1:3],),
                    arrs[i][0], 'compiles' if ci[0] == 'ok' else 'raises %s' % (ci[1:3],)), here)
                return True
        if c0[0] != 'ok':
            ctx.count('twin:compile-error-everywhere:%s:%s' % (codec, c0[1]))
            continue
        # encodings of the reference arrangement
        enc0 = {}
        pool = []
        for h in tc.holders:
            for k, v in enumerate(vals[h]):
                e = lib.attempt(c0[1].encode, h, v)
                enc0[(h, k)] = e
                if e[0] == 'ok' and e[1] not in pool:
                    pool.append(e[1])
        pool = pool[:14]
        dec0 = {(h, j): lib.attempt(c0[1].decode, h, data) for h in tc.holders for j, data in enumerate(pool)}
        for i in range(1, len(arrs)):
            ci = comp[i]
            here = dict(kind='twin', id='twin-components', codec=codec, codecs=[codec], arrangement1=arrs[0][1],
                        arrangement2=arrs[i][1], what=arrs[i][0], case=repr(tc.key))
            for h in tc.holders:
                for k, v in enumerate(vals[h]):
                    ctx.evaluations += 1
                    e0 = enc0[(h, k)]
                    ei = lib.attempt(ci[1].encode, h, v)
                    if cls(e0) != cls(ei):
                        ctx.violation('twin components, %s: the encoding of %s differs between "%s" and "%s": %r vs %r'
                                      % (codec, h, arrs[0][0], arrs[i][0], show(e0), show(ei)),
                                      dict(here, type=h, value=repr(v)))
                        return True
                for j, data in enumerate(pool):
                    ctx.evaluations += 1
                    d0 = dec0[(h, j)]
                    di = lib.attempt(ci[1].decode, h, data)
                    if cls(d0) != cls(di):
                        ctx.violation('twin components, %s: %s decoded as %s differs between "%s" and "%s": %r vs %r'
                                      % (codec, data.hex(), h, arrs[0][0], arrs[i][0], show(d0), show(di)),
                                      dict(here, type=h, data=data.hex()))
                        return True
    return False


# ---------------------------------------------------------------------------
# attributes of the compiled objects (all codecs)

def unwrap(t):
    n = 0
    while True:
        n += 1
        assert n < 50
        cn = type(t).__name__
        if cn == 'Recursive':
            t = getattr(t, 'inner', None) if hasattr(t, 'inner') else getattr(t, '_inner', None)
        elif cn == 'ExplicitTag':
            t = t.inner
        else:
            return t


def compiled_members(t):
    if hasattr(t, 'root_members'):
        ms = list(t.root_members)
        for a in getattr(t, 'additions', None) or []:
            ms += a if isinstance(a, list) else [a]
        return ms
    if hasattr(t, 'root_index_to_member'):
        ms = [t.root_index_to_member[i] for i in sorted(t.root_index_to_member)]
        if getattr(t, 'additions_index_to_member', None):
            ms += [t.additions_index_to_member[i] for i in sorted(t.additions_index_to_member)]
        return ms
    if hasattr(t, 'members'):
        return list(t.members)
    return None


def status_of(m):
    if m.optional:
        return C('FOptional')
    dv = m.get_default() if hasattr(m, 'get_default') else m.default
    if dv is not None:
        return C('FDefault', F.d_default(dv))
    return C('FMandatory')


def lib_attrs(t, depth=0):
    """identifier and status of every component of a compiled type, in depth -> list"""
    assert depth < 20
    t = unwrap(t)
    if t is None:
        return []
    if hasattr(t, 'element_type'):
        return lib_attrs(t.element_type, depth + 1)
    ms = compiled_members(t)
    out = []
    for m in ms or []:
        out.append((m.name, status_of(m)))
        out += lib_attrs(m, depth + 1)
    return out


def norm_attrs(l):
    return sorted((n, to_coq(s)) for n, s in l)


# ---------------------------------------------------------------------------

def audit_theorems(ctx):
    """Compile/MemberAttrs.v is not a dependency of Props/C19.v (which this round may not edit): build
    it and audit Print Assumptions of its theorems here."""
    ok, detail = ctx.coq_build(['theories/Compile/MemberAttrs.vo'])
    if not ok:
        for t in THEOREMS:
            ctx.obligation(t, False, detail)
        return False
    d = os.path.join(common.COQ, 'cases')
    os.makedirs(d, exist_ok=True)
    path = os.path.join(d, 'C19_twins_audit.v')
    with open(path, 'w') as f:
        f.write('From Asn1V Require Import Compile.MemberAttrs.\n')
        for t in THEOREMS:
            f.write('Print Assumptions %s.\n' % t)
    rc, out = common.sh(['coqc'] + common.COQ_FLAGS + ['-Q', 'cases', 'Asn1Cases', 'cases/C19_twins_audit.v'],
                        cwd=common.COQ, timeout=600)
    for ext in ('.v', '.vo', '.glob', '.vok', '.vos'):
        for p in (path[:-2] + ext, os.path.join(d, '.C19_twins_audit.aux')):
            try:
                os.remove(p)
            except OSError:
                pass
    blocks = re.split(r'^(?=Closed under the global context|Axioms:)', out, flags=re.M)[1:]
    allok = rc == 0 and len(blocks) == len(THEOREMS)
    for i, t in enumerate(THEOREMS):
        good = rc == 0 and i < len(blocks) and blocks[i].startswith('Closed under the global context')
        ctx.obligation(t, good, 'closed' if good else (out[-300:] if rc else (blocks[i][:200] if i < len(blocks) else 'no output')))
        allok = allok and good
    return allok


def model_tie(ctx, batch):
    """[batch]: list of (tc, arrs).  One Coq evaluation for all of them."""
    cases = []
    for tc, arrs in batch:
        for ai, (label, text, mods) in enumerate(arrs):
            try:
                env = F.ex_env(mods)
            except F.Unsupported as e:
                ctx.count('twin:model-unsupported')
                continue
            where = {n: m['name'] for m in mods for n, _ in m['types']}
            cases.append(dict(tc=tc, ai=ai, label=label, text=text, env=env, where=where, ref=arrs[0][1]))
    if not cases:
        return
    body = 'Definition cases : list (senv * list (string * string)) := %s.\n' % to_coq(
        [(c['env'], [(c['where'][n], n) for n in c['tc'].holders]) for c in cases])
    body += ('Eval vm_compute in map (fun c => map (fun q => let f := flatten %d %d (fst c) %d (fst q) (snd q) in '
             '(f, attrs_of f, compile_named crepaired %d %d (fst c) %d (fst q) (snd q))) (snd c)) cases.\n'
             % (LF, KF, DEPTH, LF, KF, DEPTH))
    ctx.log('twin components: evaluating the model on %d arrangements (%d kB)' % (len(cases), len(body) // 1024))
    (res,) = ctx.coq_eval('twins', IMPORTS, body)
    ctx.log('twin components: model evaluated')
    first = {}
    agree = total = nbad = 0
    for c, rows in zip(cases, res):
        tc = c['tc']
        if nbad >= 6:
            break
        comp = {}
        for codec in G.CODECS:
            if codec not in tc.comp:
                tc.comp[codec] = [lib.attempt(asn1tools.compile_dict, copy.deepcopy(d), codec) for d in tc.parsed]
            comp[codec] = tc.comp[codec][c['ai']]
        bad = False
        for h, (fl, at, cm) in zip(tc.holders, rows):
            ctx.evaluations += 1
            here = dict(kind='twin-model', spec=c['text'], type=h, what=c['label'], case=repr(tc.key))
            if not (isinstance(fl, C) and fl.name == 'Ok' and isinstance(at, C) and at.name == 'Ok'):
                ctx.violation('twin components: the model does not unfold %s of a generated specification: %r'
                              % (h, fl), here, no_input=True)
                bad = True
                break
            # (1) every arrangement of one case gives the holder the same unfolding
            k = (id(tc), h)
            if k not in first:
                first[k] = (fl, c)
            elif first[k][0] != fl:
                ctx.violation('twin components: flatten of %s differs between "%s" and "%s" in the MODEL (an instance '
                              'of C19_inline_ref_flatten fails, or the harness does not inline faithfully)'
                              % (h, first[k][1]['label'], c['label']),
                              dict(here, arrangement1=first[k][1]['text'], arrangement2=c['text']), no_input=True)
                bad = True
                break
            # (2) the attributes of the components all codecs compile = attrs (flatten ..)
            want = sorted((n, to_coq(s)) for n, s in at.args[0])
            for codec in G.CODECS:
                r = comp[codec]
                total += 1
                if r[0] != 'ok':
                    ctx.count('twin:model-compile-error:%s' % codec)
                    continue
                try:
                    got = norm_attrs(lib_attrs(r[1].modules[c['where'][h]][h].type))
                except Exception as e:      # noqa
                    ctx.violation('twin components: cannot read the attributes of the compiled %s (%s): %r'
                                  % (h, codec, e), dict(here, codec=codec), no_input=True)
                    bad = True
                    break
                if got != want:
                    diff = [x for x in got if x not in want], [x for x in want if x not in got]
                    ctx.violation('twin components, %s: the OPTIONAL / DEFAULT attributes of the components of the compiled '
                                  '%s ("%s") differ from the model [attrs (flatten ..)]: /repo has %s where the model has %s'
                                  % (codec, h, c['label'], diff[0], diff[1]),
                                  dict(here, codec=codec, codecs=[codec], arrangement1=c['ref'], arrangement2=c['text'],
                                       impl=repr(got), model=repr(want)))
                    bad = True
                    break
                agree += 1
            if bad:
                break
            # (3) the PER types against compile_named crepaired
            r = comp['per']
            if r[0] == 'ok' and isinstance(cm, C) and cm.name == 'Ok':
                try:
                    got = F.n_dump(F.d_type(r[1].modules[c['where'][h]][h].type, DEPTH, (tc.tags, False)))
                except F.Unsupported:
                    got = None
                if got is not None and got != F.n_model(cm.args[0]):
                    ctx.violation('twin components: the type /repo\'s PER compiler builds for %s ("%s") differs from '
                                  'compile_named crepaired' % (h, c['label']),
                                  dict(here, codec='per', impl=to_coq_loose(got)[:600],
                                       model=to_coq_loose(F.n_model(cm.args[0]))[:600]))
                    bad = True
                    break
            elif r[0] != 'ok':
                # e.g. PER cannot order the untagged members of a SET in a module without AUTOMATIC TAGS
                # (TypeError in every arrangement alike): outside the model, and not a matter of arrangement
                ctx.count('twin:per-compile-error-model-ok')
            else:
                ctx.violation('twin components: /repo (per) compiles %s, the model answers %r' % (h, cm), here)
                bad = True
                break
        nbad += bad
    mv = ctx.extra.setdefault('twin_attributes_vs_model', {'holder x codec': 0, 'agree': 0})
    mv['holder x codec'] += total
    mv['agree'] += agree
    ctx.log('twin components: attributes of %d/%d (holder, codec) pairs agree with attrs (flatten ..)' % (agree, total))


def to_coq_loose(t):
    if isinstance(t, C):
        return '(' + t.name + ''.join(' ' + to_coq_loose(a) for a in t.args) + ')'
    if isinstance(t, (list, tuple)):
        return '[' + '; '.join(to_coq_loose(x) for x in t) + ']'
    return repr(t)


# ---------------------------------------------------------------------------

def corner_corpus(rng):
    """Deterministic corners: every tagging environment x kind of constraint x what the decorated site
    carries, the twin site(s) plain; SEQUENCE holders."""
    out = []
    idx = 0
    for tags in ('EXPLICIT', 'IMPLICIT', 'AUTOMATIC'):
        for base in ('int', 'octets', 'seqof', 'bool', 'enum'):
            for w in ('cd', 'co', 'd', 'o', 'ct', 'cdt', 'c'):
                if 'c' in w and base not in RANGED + SIZED:
                    continue
                if 'd' in w and base not in DEFAULTABLE:
                    continue
                out.append(gen_case(rng, idx, tags=tags, base=base, wants=[w, ''], shape='two',
                                    holders=['SEQUENCE', 'SEQUENCE']))
                idx += 1
    return out


def run_cases(ctx, nrandom, corpus=True, model_every=4, batch_size=16):
    rng = ctx.rng
    proofs_ok = audit_theorems(ctx)
    tcs = corner_corpus(rng) if corpus else []
    tcs += [gen_case(rng, i) for i in range(nrandom)]
    batch = []
    nviol = 0
    for b0 in range(0, len(tcs), batch_size):
        items = [(tc, arrangements(rng, tc, b0 + k)) for k, tc in enumerate(tcs[b0:b0 + batch_size])]
        parse_batch(ctx, items)
        for k, (tc, arrs) in enumerate(items):
            cands = member_candidates(rng, tc)
            vals = holder_values(rng, tc, cands)
            ctx.case(('twin',) + tc.key, dict(kind='twin', arrangement1=arrs[1][1][:500], case=repr(tc.key)))
            ctx.count('twin:shape:' + tc.shape)
            ctx.count('twin:tags:' + tc.tags)
            ctx.count('twin:base:' + tc.base)
            for d in tc.decos:
                ctx.count('twin:site:' + d.key())
            codecs = [c for c in G.CODECS if not (c == 'xer' and tc.shape == 'elem')]
            tc.comp = {}
            if nviol < 6:
                nviol += bool(check_case(ctx, tc, arrs, vals, codecs))
            if all(d is not None for d in tc.parsed):
                # reference and canonical arrangement of every case, the single-site ones of every
                # [model_every]-th; the permuted / split one is covered by C19_permute_* /
                # C19_move_and_import_flatten and the generic correspondence of c19.py
                batch.append((tc, arrs[:2 + len(tc.sites)] if (b0 + k) % model_every == 0 else arrs[:2]))
    model_tie(ctx, batch)
    return proofs_ok


def replay_one(r):
    """replay of a kind='twin' violation"""
    codec = r['codec']
    c1 = lib.attempt(asn1tools.compile_string, r['arrangement1'], codec)
    c2 = lib.attempt(asn1tools.compile_string, r['arrangement2'], codec)
    print('compile:', c1[:2] if c1[0] != 'ok' else 'ok', c2[:2] if c2[0] != 'ok' else 'ok')
    if c1[0] != 'ok' or c2[0] != 'ok' or 'type' not in r:
        return
    if 'value' in r:
        ns = {'ABSENT': ABSENT}
        v = eval(r['value'], ns)
        e1, e2 = lib.attempt(c1[1].encode, r['type'], v), lib.attempt(c2[1].encode, r['type'], v)
        print('encode:', show(e1), 'vs', show(e2))
    if 'data' in r:
        data = bytes.fromhex(r['data'])
        d1, d2 = lib.attempt(c1[1].decode, r['type'], data), lib.attempt(c2[1].decode, r['type'], data)
        print('decode:', show(d1), 'vs', show(d2))
