"""Spine A of C09: compiled-C differential of the generated UPER codec against
the Python UPER codec (reusable by C10 with codec='oer')."""
import json
import re
import sys
import os

import lib
import c09_cc
import c09_driver
import c09_types as T
from c09_driver import cparse

import asn1tools
from asn1tools.source import c as c_source

NAMESPACE = 'ns'
MAX_VALUE_BYTES = 140000
ACTIVE = set()      # ids of the open findings that still reproduce (set by the check)


class Prep(object):
    pass


def generate(spec, codec):
    """('ok', header, source) | ('rejected', message) | ('foreign', exception text) |
    ('py-compile', message)"""
    text = spec.text()
    r = lib.attempt(lib.compile_string, text, codec)
    if r[0] != 'ok':
        return ('py-compile', '%s: %s' % (r[1], r[2]))
    try:
        header, source, _, _ = c_source.generate(r[1], codec, NAMESPACE, 'ns.h', 'ns.c', 'ns_fuzzer.c')
    except asn1tools.errors.Error as e:
        return ('rejected', str(e))
    except RecursionError:
        return ('foreign', 'RecursionError')
    except Exception as e:  # noqa
        return ('foreign', '%s: %s' % (type(e).__name__, e))
    return ('ok', header, source, r[1])


def sizes_for(n, rng):
    if n <= 40:
        return list(range(n))
    s = {0, 1, 2, 3, n - 1, n - 2, n - 3, n // 2}
    while len(s) < 16:
        s.add(rng.randrange(n))
    return sorted(s)


def mutate(rng, b):
    b = bytearray(b)
    x = rng.random()
    if x < .45 and b:
        for _ in range(rng.choice([1, 1, 2, 3])):
            i = rng.randrange(len(b) * 8)
            b[i // 8] ^= 0x80 >> (i % 8)
    elif x < .6 and b:
        b = b[:rng.randrange(len(b))]
    elif x < .7:
        b += bytes(rng.randrange(256) for _ in range(rng.choice([1, 2, 8])))
    elif x < .8 and b:
        i = rng.randrange(len(b))
        b[i] = rng.choice([0, 0xff, 0x80, 0x7f])
    elif x < .9 and b:
        i = rng.randrange(min(len(b), 3))
        b[i] = rng.randrange(256)
    else:
        b = bytearray(rng.randrange(256) for _ in range(rng.choice([0, 1, 2, 3, 5, 9, 17, len(b) + 1])))
    return bytes(b)


def prepare(ctx, uid, spec, codec, n_values, n_fuzz, rng, fixed_cases=None, extra_inputs=None):
    """Everything that needs /repo's Python: generation, parsing, values, the
    expected results.  Returns a Prep (p.unit is None when nothing is to run)."""
    p = Prep()
    p.uid, p.spec, p.codec = uid, spec, codec
    p.text = spec.text()
    p.unit = None
    p.problems = []          # (what, replay) found before running anything
    p.gen = generate(spec, codec)
    p.supported = T.c_supported(spec, codec)
    if p.gen[0] != 'ok' or p.supported is not None:
        return p
    _, header, source, compiled = p.gen
    p.compiled = compiled
    try:
        p.header = cparse.parse_header(header)
        p.source = cparse.parse_source(source)
    except cparse.CParseError as e:
        p.problems.append(('generated C is outside the dialect the check can read: %s' % e,
                           dict(kind='dialect', spec=spec.to_json(), text=p.text)))
        return p
    cases = []
    pybytes = []
    if fixed_cases is not None:
        todo = fixed_cases
    else:
        todo = []
        for m, ts in spec.modules:
            for n, ty in ts:
                vals = [T.gen_value(spec, ty, rng, 'lo'), T.gen_value(spec, ty, rng, 'hi')]
                vals += [T.gen_value(spec, ty, rng) for _ in range(n_values)]
                seen = set()
                for v in vals:
                    key = repr(v)
                    if key not in seen:
                        seen.add(key)
                        todo.append((m, n, v))
    p.py_encode_failures = []
    for m, n, v in todo:
        if T.value_weight(v) > MAX_VALUE_BYTES:
            ctx.count('value-skipped:too-large-for-the-python-encoder')
            continue
        r = lib.attempt(compiled.encode, n, v)
        if r[0] != 'ok':
            p.py_encode_failures.append((n, v, r[1:]))
            continue
        cases.append((m, n, v))
        pybytes.append(bytes(r[1]))
    p.cases, p.pybytes = cases, pybytes
    try:
        drv, types, walker = c09_driver.build_driver(spec, p.header, 'ns.h', cases, codec=codec)
    except c09_driver.LayoutError as e:
        p.problems.append(('struct layout of the generated header cannot hold the type: %s' % e,
                           dict(kind='layout', spec=spec.to_json(), text=p.text)))
        return p
    p.types = types
    p.sizes = [sizes_for(len(b), rng) for b in pybytes]
    drv += '\n' + c09_driver.driver_main(cases, types, [len(b) for b in pybytes], p.sizes)
    p.expected = [c09_driver.expected_tokens(spec, spec.index[(m, n)], v, codec=codec) for m, n, v in cases]
    # fuzz inputs
    fuzz = []
    must_reject = set()      # indices of inputs with a length above the maximum: have to be refused
    p.must_reject = must_reject
    if n_fuzz:
        by_type = {}
        for (m, n, v), b in zip(cases, pybytes):
            by_type.setdefault((m, n), []).append(b)
        for ti, mn in enumerate(types):
            seeds = by_type.get(mn) or [b'']
            # every input costs two memsets of the struct: fewer inputs for multi-megabyte structs
            big = T.approx_struct_bytes(spec, spec.index[mn]) > 300000
            for _ in range(max(3, n_fuzz // 8) if big else n_fuzz):
                fuzz.append((ti, mutate(rng, rng.choice(seeds))))
            for b in seeds[:3]:
                fuzz.append((ti, b + b'\x00'))
            # hostile lengths: above the maximum but expressible in the length field
            m, n = mn
            targets = T.over_targets(spec, spec.index[(m, n)])
            if 'oer-length-wraps' in ACTIVE:
                targets = [tg for tg in targets if not wraps(tg)]
            for tg in targets[:4]:
                for _ in range(2):
                    ov = T.gen_over_value(spec, spec.index[(m, n)], rng, tg)
                    if T.value_weight(ov) > MAX_VALUE_BYTES:
                        continue
                    r = lib.attempt(compiled.encode, n, ov)
                    if r[0] == 'ok' and len(r[1]) < 100000:
                        fuzz.append((ti, bytes(r[1])))
                        must_reject.add(len(fuzz) - 1)
    # inputs with a prescribed outcome: (type name, bytes, expected struct dump) - e.g. bytes of a newer version
    p.must_decode = {}
    for tn, data, want in (extra_inputs or []):
        ti = [n for _, n in types].index(tn)
        fuzz.append((ti, data))
        p.must_decode[len(fuzz) - 1] = want
    p.fuzz = fuzz
    files = {'ns.h': header, 'ns.c': source, 'driver.c': drv}
    p.unit = c09_cc.Unit(uid, files, 'ns.c', 'driver.c',
                         fuzz=''.join('%d %s\n' % (ti, b.hex()) for ti, b in fuzz) if fuzz else None)
    return p


def _case_replay(p, ci, kind, **kw):
    m, n, v = p.cases[ci]
    d = dict(kind=kind, spec=p.spec.to_json(), text=p.text, module=m, type=n, value=T.value_to_json(v),
             python_bytes=p.pybytes[ci].hex()[:2000], codec=p.codec)
    d.update(kw)
    return d


def parse_main_output(out):
    """{case: {'E': (r, hex), 'S': [(sz, r, canary)], 'D': (r, tokens), 'T': [(sz, r)]}}, last BEGIN"""
    res = {}
    cur = None
    for line in out.splitlines():
        if line.startswith('BEGIN '):
            cur = int(line[6:])
            res[cur] = {}
        elif cur is None:
            continue
        elif line.startswith('E '):
            parts = line.split()
            res[cur]['E'] = (int(parts[1]), parts[2] if len(parts) > 2 else '')
        elif line.startswith('S'):
            items = []
            for it in line[1:].split():
                sz, r = it.split(':')
                bad = r.endswith('!CANARY')
                items.append((int(sz), int(r.replace('!CANARY', '')), bad))
            res[cur]['S'] = items
        elif line.startswith('D '):
            parts = line[2:].strip().split(' ', 1)
            res[cur]['D'] = (int(parts[0]), parts[1].strip() if len(parts) > 1 else '')
        elif line.startswith('T'):
            res[cur]['T'] = [(int(a), int(b)) for a, b in (it.split(':') for it in line[1:].split())]
    return res, cur


def san_report(err):
    m = re.search(r'(runtime error: [^\n]*|ERROR: AddressSanitizer: [^\n]*|SUMMARY: [^\n]*)', err)
    return m.group(1) if m else err.strip()[-300:]


def judge(ctx, p, report):
    """report(what, replay, cls): the caller decides between violation and
    known finding.  Returns number of evaluations."""
    ev = 0
    spec = p.spec
    for what, rep in p.problems:
        report(what, rep, rep['kind'])
    if p.gen[0] == 'py-compile':
        ctx.count('gen:python-compile-failed')
        return ev
    if p.gen[0] == 'foreign':
        report('generator raised a foreign exception instead of its Error: %s' % p.gen[1],
               dict(kind='foreign', spec=spec.to_json(), text=p.text, codec=p.codec), 'foreign')
        return ev
    if p.gen[0] == 'rejected':
        ctx.count('gen:rejected')
        if p.supported is None:
            report('generator rejects a module of the documented subset: %s' % p.gen[1],
                   dict(kind='rejected-supported', spec=spec.to_json(), text=p.text, codec=p.codec), 'rejected-supported')
        return ev
    ctx.count('gen:accepted')
    if p.supported is not None:
        report('generator accepts a module outside its subset (%s) instead of raising its error' % p.supported,
               dict(kind='accepted-unsupported', spec=spec.to_json(), text=p.text, codec=p.codec, reason=p.supported),
               'accepted-unsupported')
        return ev
    if p.unit is None:
        return ev
    r = p.unit.result
    base = dict(spec=spec.to_json(), text=p.text, codec=p.codec)
    if r['gcc_rc'] != 0:
        report('generated source does not compile as C99: %s' % first_diag(r['gcc_err']),
               dict(kind='compile', diag=r['gcc_err'][:1500], **base), 'compile')
        return ev
    for w in re.findall(r'warning: ([^\n]*?)(?: \[-W[\w\-=]+\])?\n', r['gcc_err']):
        ctx.count('gcc-warning:' + re.sub(r"'[^']*'|‘[^’]*’", "'..'", w)[:60])
    for k in ('driver_err', 'clang_err'):
        if k in r:
            report('generated code does not build with the test driver (%s): %s' % (k, first_diag(r[k])),
                   dict(kind='compile', diag=r[k][:1500], **base), 'compile')
            return ev
    for mode in ('plain', 'san'):
        if mode not in r:
            continue
        rc, out, err = r[mode]
        res, last = parse_main_output(out)
        crashed = rc != 0 and rc != -999
        if rc == -999:
            ctx.count('run:timeout-of-the-%s-binary (inconclusive, not judged)' % mode)
        for ci in range(len(p.cases)):
            got = res.get(ci)
            if got is None or not all(k in got for k in 'ESDT'):
                if crashed and (got is not None or ci == (last if last is not None else 0) or (last is None and ci == 0)):
                    report('%s binary: %s while running the case' % (
                        'sanitizer' if mode == 'san' else 'plain', san_report(err) if err.strip() else 'exit code %d' % rc),
                        _case_replay(p, ci, 'crash', mode=mode, stderr=err[-1500:]), 'crash')
                    crashed = False
                continue
            ev += 1
            b = p.pybytes[ci]
            er, ehex = got['E']
            if er != len(b) or (ehex != b.hex() and len(b) > 0):
                report('encode differs from the Python codec (%s build): C returned %d %s, Python %d %s' % (
                    mode, er, ehex[:80], len(b), b.hex()[:80]), _case_replay(p, ci, 'encode', mode=mode, c_bytes=ehex[:2000], c_ret=er), 'encode')
                continue
            bad = [(sz, rr, can) for sz, rr, can in got['S'] if rr >= 0 or can]
            if bad:
                report('encode into a destination of %d bytes (needs %d) returned %d%s' % (
                    bad[0][0], len(b), bad[0][1], ' and wrote outside the buffer' if bad[0][2] else ''),
                    _case_replay(p, ci, 'small-buffer', mode=mode, size=bad[0][0]), 'small-buffer')
                continue
            for sz, rr, _ in got['S']:
                ctx.count('small-buffer-code:%d' % rr)
            dr, dtok = got['D']
            if dr != len(b) or dtok != p.expected[ci]:
                report('decode of the Python encoding differs (%s build): returned %d (expected %d), struct [%s] expected [%s]' % (
                    mode, dr, len(b), dtok[:200], p.expected[ci][:200]),
                    _case_replay(p, ci, 'decode', mode=mode, c_ret=dr, c_struct=dtok[:2000], expected_struct=p.expected[ci][:2000]), 'decode')
                continue
            badt = [(sz, rr) for sz, rr in got['T'] if rr >= 0]
            if badt:
                report('decode of the encoding truncated to %d of %d bytes returned %d instead of an error' % (
                    badt[0][0], len(b), badt[0][1]), _case_replay(p, ci, 'truncated', mode=mode, size=badt[0][0]), 'truncated')
        if crashed:
            report('%s binary failed: %s' % (mode, san_report(err) if err.strip() else 'exit code %d' % rc),
                   dict(kind='crash', mode=mode, stderr=err[-1500:], **base), 'crash')
    if 'fuzz' in r:
        ev += judge_fuzz(ctx, p, r['fuzz'], report)
    return ev


def first_diag(err):
    m = re.search(r'(error: [^\n]*)', err)
    return m.group(1) if m else err.strip()[:200]


def wraps(t):
    """OER generator: variable-size node whose uint8_t length member is assigned a wider decoded length."""
    if t.kind == 'octets':
        return t.lo != t.hi and 128 <= t.hi <= 255
    if t.kind == 'seqof':
        return t.lo != t.hi and t.hi <= 255
    return False


def has_wrapping_length(spec, ty, depth=0):
    t = spec.resolve(ty)
    if depth > 40 or wraps(t):
        return True
    if t.kind == 'seq':
        return any(has_wrapping_length(spec, m.ty, depth + 1) for m in t.members + getattr(t, 'additions', []))
    if t.kind == 'seqof':
        return has_wrapping_length(spec, t.elem, depth + 1)
    if t.kind == 'choice':
        return any(has_wrapping_length(spec, a, depth + 1) for _, a in t.alts)
    return False


EXT_IGNORED = {'sequence-extension-bit-ignored', 'oer-unknown-additions-not-skipped'}


def has_fixed_seqof(spec, ty, depth=0):
    t = spec.resolve(ty)
    if depth > 40:
        return True
    if t.kind == 'seqof':
        return t.lo == t.hi or has_fixed_seqof(spec, t.elem, depth + 1)
    if t.kind == 'seq':
        return any(has_fixed_seqof(spec, m.ty, depth + 1) for m in t.members + getattr(t, 'additions', []))
    if t.kind == 'choice':
        return any(has_fixed_seqof(spec, a, depth + 1) for _, a in t.alts)
    return False


def has_additions(spec, ty, depth=0):
    t = spec.resolve(ty)
    if depth > 40:
        return True
    if t.kind == 'seq':
        return bool(getattr(t, 'additions', None)) or any(has_additions(spec, m.ty, depth + 1) for m in t.members)
    if t.kind == 'seqof':
        return has_additions(spec, t.elem, depth + 1)
    if t.kind == 'choice':
        return any(has_additions(spec, a, depth + 1) for _, a in t.alts)
    return False


def has_ext_seq(spec, ty, depth=0):
    t = spec.resolve(ty)
    if depth > 40:
        return True
    if t.kind == 'seq':
        return t.ext or any(has_ext_seq(spec, m.ty, depth + 1) for m in t.members)
    if t.kind == 'seqof':
        return has_ext_seq(spec, t.elem, depth + 1)
    if t.kind == 'choice':
        return any(has_ext_seq(spec, a, depth + 1) for _, a in t.alts)
    return False


class _Timeout(BaseException):
    pass


def attempt_timed(f, *a, **kw):
    """lib.attempt with a CPU-time limit: the Python OER decoder loops for hours on a hostile quantity
    field over zero-width elements (recorded under C08); such inputs are not judged."""
    import signal
    import threading
    if threading.current_thread() is not threading.main_thread():
        return lib.attempt(f, *a, **kw)

    def onalarm(signum, frame):
        raise _Timeout()
    old = signal.signal(signal.SIGALRM, onalarm)
    signal.setitimer(signal.ITIMER_REAL, 3.0)
    try:
        return lib.attempt(f, *a, **kw)
    except _Timeout:
        return ('err', 'foreign:Timeout', 'python codec did not return within 3 s')
    finally:
        signal.setitimer(signal.ITIMER_REAL, 0)
        signal.signal(signal.SIGALRM, old)


def judge_fuzz(ctx, p, fz, report):
    rc, out, err = fz
    spec = p.spec
    lines = [l for l in out.splitlines() if l.startswith('F ')]
    ev = 0
    for idx, line in enumerate(lines):
        ti, data = p.fuzz[idx]
        m, n = p.types[ti]
        ty = spec.index[(m, n)]
        parts = [x.strip() for x in line.split('|')]
        head = parts[0].split()
        if len(head) < 4:
            continue            # crashed inside this decode; handled below
        ev += 1
        r1 = int(head[3])
        rep = dict(kind='fuzz', spec=spec.to_json(), text=p.text, module=m, type=n, input=data.hex()[:4000], codec=p.codec)
        if idx in getattr(p, 'must_decode', {}):
            want = p.must_decode[idx]
            tokv = parts[1] if len(parts) > 1 else ''
            ctx.count('newer-version-inputs')
            if r1 != len(data) or tokv != want:
                report('decoder of this version on the encoding of a NEWER version (unknown extension additions) returned %d '
                       '(expected %d) with struct [%s], expected the projection [%s]' % (r1, len(data), tokv[:160], want[:160]),
                       dict(rep, expected=want[:2000]), 'newer-version')
            continue
        py = attempt_timed(p.compiled.decode, n, data)
        if py[0] == 'err' and py[1] == 'foreign:Timeout':
            ctx.count('fuzz:python-decoder-timeout (not judged)')
        pyvalid = py[0] == 'ok' and T.valid_value(spec, ty, py[1])
        if r1 < 0:
            ctx.count('fuzz:c-rejects')
            if pyvalid:
                # a complete valid encoding of a valid value must be accepted
                rr = lib.attempt(p.compiled.encode, n, py[1])
                if rr[0] == 'ok' and bytes(rr[1]) == data[:len(rr[1])]:
                    report('decoder rejects (%d) the encoding of a valid value %r' % (r1, py[1]), rep, 'fuzz-reject')
            continue
        ctx.count('fuzz:c-accepts')
        if len(parts) < 3:
            continue
        tok1 = parts[1]
        if idx in getattr(p, 'must_reject', ()):
            report('decoder accepts (%d) an encoding whose length field is above the maximum of the type: struct [%s]' % (
                r1, tok1[:200]), rep, 'fuzz-over-accepted')
            continue
        if '!OVER' in tok1:
            report('decoder accepted a length beyond the capacity of the struct: [%s]' % tok1[:200], rep, 'fuzz-over')
            continue
        h2 = parts[2].split()
        r2 = int(h2[0])
        if r2 < 0:
            report('accepted input does not re-encode (error %d): struct [%s]' % (r2, tok1[:200]), rep, 'fuzz-reencode')
            continue
        if len(parts) < 4:
            continue
        h3 = parts[3].split(' ', 1)
        r3 = int(h3[0])
        tok2 = h3[1].strip() if len(h3) > 1 else ''
        if r3 != r2 or tok2 != tok1:
            report('accepted input re-encodes to %s which decodes (%d) to a different struct: [%s] then [%s]' % (
                (h2[1] if len(h2) > 1 else '')[:60], r3, tok1[:160], tok2[:160]), rep, 'fuzz-roundtrip')
            continue
        if pyvalid:
            want = c09_driver.expected_tokens(spec, ty, py[1], codec=p.codec)
            if want != tok1 and ACTIVE & EXT_IGNORED:
                # while that finding is open a set extension bit of a SEQUENCE makes the two decoders
                # read different things: judge only canonical encodings
                rr = lib.attempt(p.compiled.encode, n, py[1])
                if not (rr[0] == 'ok' and bytes(rr[1]) == data[:len(rr[1])]):
                    ctx.count('fuzz:differs-on-non-canonical-input(open finding)')
                    continue
            if want != tok1:
                report('decoder and Python codec disagree on a valid value: C [%s] Python [%s]' % (tok1[:160], want[:160]),
                       rep, 'fuzz-differs')
        elif py[0] == 'ok':
            ctx.count('fuzz:accepted-value-outside-constraints')
        elif py[1] == 'decode' and 'oer-enum-accepts-any-value' in ACTIVE and 'numeration value' in py[2]:
            ctx.count('fuzz:enumeration-value-not-checked(open finding)')
        elif py[1] == 'decode' and 'oer-length-wraps' in ACTIVE and has_wrapping_length(spec, ty):
            ctx.count('fuzz:length-wrap(open finding)')
        elif py[1] == 'decode' and 'oer-seqof-fixed-above-255' in ACTIVE and has_fixed_seqof(spec, ty):
            ctx.count('fuzz:fixed-size-quantity-not-exact(open finding)')
        elif py[1] == 'decode' and 'oer-addition-length-ignored' in ACTIVE and has_additions(spec, ty):
            ctx.count('fuzz:addition-length-not-validated(open finding)')
        elif py[1] == 'decode' and not (ACTIVE & EXT_IGNORED and has_ext_seq(spec, ty)):
            # the Python decoder refuses these bytes (bad enumeration / choice index, bad length, ...):
            # a generated decoder that takes them has lost a check
            report('decoder accepts input %s that the Python codec rejects (%s): struct [%s]' % (
                data.hex()[:60], py[2][:100], tok1[:160]), rep, 'fuzz-accepts-rejected')
        else:
            ctx.count('fuzz:c-accepts-python-rejects')
    if rc == -999:
        ctx.count('fuzz:timeout-of-the-sanitizer-binary (inconclusive, not judged)')
    elif rc != 0:
        k = len(lines) - 1
        last = lines[-1] if lines else ''
        ti, data = p.fuzz[max(k, 0)] if p.fuzz else (0, b'')
        m, n = p.types[ti]
        report('sanitizer binary on input %s for %s: %s' % (data.hex()[:80], n, san_report(err) if err.strip() else 'exit code %d' % rc),
               dict(kind='fuzz', spec=spec.to_json(), text=p.text, module=m, type=n, input=data.hex()[:4000], codec=p.codec,
                    stderr=err[-1500:]), 'fuzz-crash')
    return ev
