"""C06 — OER encodings are byte-exact X.696.

 1. Props/C06.v is compiled and its Print Assumptions output audited.
 2. Correspondence: the implementation model Oer/OerImpl.v against /repo's
    oer codec on generated (module, type, value, numeric_enums) cases: encode
    bytes / error class, decode value + octets consumed on valid encodings
    with a tail appended, decode result / error class on every strict prefix
    and on malformed inputs.
 3. Property test: /repo's bytes against the independent specification model
    Oer/X696.v on the conforming region (codec_oer.conforming), and the
    decoder fed those bytes must return the normalised value.
 4. Known findings (known_findings/C06.json) are replayed; their regions are
    avoided by the generators through codec_oer's predicates.
"""
import concurrent.futures
import json
import os
import signal
import time

import common
from common import C, Nat, Raw, to_coq
import lib
import gen_asn1 as G
import codec_oer as O
import c06_serial as SR

import asn1tools
from asn1tools.codecs import OutOfDataError

PID = 'C06'
IMPORTS = O.COQ_IMPORTS + ['Oer.OerSerial']


def coq_bytes(b):
    """Octets as Coq text; long runs of one octet become [repeat] so that the
    64K-octet boundary cases do not produce 130K-character string literals."""
    b = bytes(b)
    parts = []
    i = 0
    lit = bytearray()

    def flush():
        for j in range(0, len(lit), 1500):
            parts.append('hex "%s"%%string' % bytes(lit[j:j + 1500]).hex())
        del lit[:]
    while i < len(b):
        j = i
        while j < len(b) and b[j] == b[i]:
            j += 1
        if j - i >= 200:
            flush()
            parts.append('repeat (%d)%%Z (Z.to_nat %d)' % (b[i], j - i))
        else:
            lit += b[i:j]
        i = j
    flush()
    if not parts:
        return '(@nil Z)'
    return '(' + ' ++ '.join(parts) + ')'


def tc(v):
    """common.to_coq with run-length compressed octet strings."""
    if isinstance(v, (bytes, bytearray)):
        return coq_bytes(v)
    if isinstance(v, list) and not isinstance(v, str):
        return '[' + '; '.join(tc(x) for x in v) + ']'
    if isinstance(v, tuple):
        return '(' + ', '.join(tc(x) for x in v) + ')'
    if isinstance(v, C) and v.args:
        return '(' + v.name + ' ' + ' '.join(tc(a) for a in v.args) + ')'
    return to_coq(v)
SHARD = 400
MAX_REPORTED = 40       # violations reported individually (each writes a replay file); the rest are counted
OPEN_THEOREMS = []      # filled from Props/C06.v comments at run time


# ---------------------------------------------------------------------------
# library side

class Timeout(Exception):
    pass


def report(ctx, what, replay):
    """ctx.violation with a cap: a behavioural change of the codec typically
    breaks hundreds of generated cases; the first MAX_REPORTED are reported
    with replay files, the others only counted (the exit status is the same)."""
    n = ctx.extra.get('violations_total', 0) + 1
    ctx.extra['violations_total'] = n
    if n <= MAX_REPORTED:
        ctx.violation(what, replay)
    elif n == MAX_REPORTED + 1:
        print('  ... further violations are counted, not listed (see violations_total in the evidence)', flush=True)


def _alarm(signum, frame):
    raise Timeout()


def guarded(f, *a):
    """lib.attempt with a time guard (a hostile quantity field can make the
    library loop for a very long time: C08's subject, not ours).  Cases the
    library needs more than 0.1 s for are dropped and counted: the model
    evaluated by vm_compute is some 100 times slower per element."""
    old = signal.signal(signal.SIGALRM, _alarm)
    try:
        signal.setitimer(signal.ITIMER_REAL, 0.1, 0.1)   # repeating: a Timeout swallowed by a __del__ is raised again
        try:
            r = ('ok', f(*a))
        finally:
            signal.setitimer(signal.ITIMER_REAL, 0)     # the alarm may still fire here: caught below
        return r
    except Timeout:
        return ('timeout',)
    except RecursionError:
        return ('err', C('EForeign', 'RecursionError'), '')
    except MemoryError:
        return ('timeout',)
    except Exception as e:  # noqa
        return ('err', err_term(e), str(e))
    finally:
        signal.setitimer(signal.ITIMER_REAL, 0)
        signal.signal(signal.SIGALRM, old)


def err_term(e):
    if isinstance(e, OutOfDataError):
        return C('EOutOfData')
    if isinstance(e, asn1tools.DecodeError):
        return C('EDecode')
    if isinstance(e, asn1tools.ConstraintsError):
        return C('EConstraints')
    if isinstance(e, asn1tools.EncodeError):
        return C('EEncode')
    return C('EForeign', type(e).__name__)


def res_term(r, f=lambda x: x):
    if r[0] == 'ok':
        return C('Ok', f(r[1]))
    return C('Err', r[1])


coq_type, coq_env = O.coq_type, O.coq_env


# ---------------------------------------------------------------------------
# case collection

class Cases(object):
    def __init__(self):
        self.envs = []        # Coq text of each environment
        self.enc = []         # (envidx, numeric, ty, value, expected, meta)
        self.spec = []
        self.dec = []

    def add_env(self, mod, numeric):
        # the serial-constraint layer (c06_serial.py) hands over a Coq expression: the environment is computed
        # inside Coq by Oer/OerSerial.v's elab_env from the surface module
        self.envs.append(mod['coq_env'] if 'coq_env' in mod else to_coq(coq_env(mod, numeric)))
        return len(self.envs) - 1


def value_class(rt, v):
    k = rt['k']
    if k == 'INTEGER':
        return 'i%d%s' % (abs(v).bit_length(), '-' if v < 0 else '')
    if k in ('OCTET STRING', 'STRING', 'SEQUENCE OF', 'SET OF'):
        return 'n%d' % min(len(v), 300)
    if k == 'BIT STRING':
        return 'b%d' % min(v[1], 300)
    if k in ('SEQUENCE', 'SET'):
        return 'f' + ''.join(sorted(x[:1] for x in v))
    if k == 'CHOICE':
        return 'c' + v[0][:1]
    return repr(v)[:12]


def mutate(rng, data):
    b = bytearray(data)
    p = rng.random()
    if not b or p < .15:
        return bytes(rng.randrange(256) for _ in range(rng.choice([0, 1, 2, 3, 5, 9])))
    if p < .45:
        i = rng.randrange(len(b))
        b[i] ^= 1 << rng.randrange(8)
    elif p < .6:
        i = rng.randrange(len(b))
        b[i] = rng.choice([0, 0x80, 0x81, 0x7f, 0xff, 0x3f, 0xbf, 0x82])
    elif p < .75:
        i = rng.randrange(len(b) + 1)
        b[i:i] = bytes([rng.choice([0, 1, 0x80, 0xff, rng.randrange(256)])])
    elif p < .9:
        i = rng.randrange(len(b))
        del b[i]
    else:
        i = rng.randrange(len(b) + 1)
        b = b[:i] + bytes(rng.randrange(256) for _ in range(rng.randrange(1, 4)))
    return bytes(b)


def older_version(rng, mod):
    """A legal earlier version of the module: every extensible SEQUENCE / SET /
    CHOICE / ENUMERATED loses a random suffix of its additions (the marker
    stays).  Returns None when nothing could be dropped."""
    import copy
    m1 = copy.deepcopy(mod)
    dropped = [0]
    used_as_default = set()      # ENUMERATED items that occur as a DEFAULT value must survive

    def defaults(t):
        k = t['k']
        if k in ('SEQUENCE', 'SET'):
            for m in G.all_members(t):
                if m['opt'] not in (None, 'optional') and isinstance(m['opt'][1], str):
                    used_as_default.add(m['opt'][1])
                defaults(m['t'])
        elif k == 'CHOICE':
            for m in t['root'] + (t['ext'] or []):
                defaults(m['t'])
        elif k in ('SEQUENCE OF', 'SET OF'):
            defaults(t['elem'])
    for _, t in m1['types']:
        defaults(t)

    def cut(t):
        k = t['k']
        if k in ('SEQUENCE', 'SET', 'CHOICE', 'ENUMERATED') and t.get('ext'):
            keep = rng.randrange(0, len(t['ext']))
            if k == 'ENUMERATED':
                while keep < len(t['ext']) and any(n in used_as_default for n, _ in t['ext'][keep:]):
                    keep += 1
            dropped[0] += len(t['ext']) - keep
            t['ext'] = t['ext'][:keep]
        if k in ('SEQUENCE', 'SET'):
            for m in G.all_members(t):
                cut(m['t'])
        elif k == 'CHOICE':
            for m in t['root'] + (t['ext'] or []):
                cut(m['t'])
        elif k in ('SEQUENCE OF', 'SET OF'):
            cut(t['elem'])
    for _, t in m1['types']:
        cut(t)
    return m1 if dropped[0] else None


def collect_module(ctx, cs, mod, text, gen_value, nvals, numeric, origin, ntrunc=6, nmal=3, values=None):
    """Run the library on values of every in-scope type of the module and
    record the expectations for the Coq side."""
    rng = ctx.rng
    rt_of = G.make_resolver(mod)
    r = lib.attempt(lib.compile_string, text, 'oer', numeric_enums=numeric)
    if r[0] != 'ok':
        ctx.count('compile-failed:' + r[1])
        ctx.violation('generated module does not compile for oer: %s' % (r[2],), dict(kind='compile', spec=text))
        return
    spec = r[1]
    ei = None
    # the same module one version earlier (C07's forward direction, as correspondence + "must decode")
    mod1 = older_version(rng, mod) if not mod.get('no_older') else None
    spec1 = ei1 = None
    if mod1 is not None:
        text1 = G.render_module(mod1, G.make_resolver(mod1))
        r1 = lib.attempt(lib.compile_string, text1, 'oer', numeric_enums=numeric)
        if r1[0] == 'ok':
            spec1 = r1[1]
            rt1 = G.make_resolver(mod1)
    for name, t in mod['types']:
        if name in mod.get('hidden', ()):       # anonymous constrained-reference sites: not types of the module text
            continue
        why = O.why_out_of_scope(mod, t)
        if why:
            ctx.count('skip:' + why)
            continue
        tyc = to_coq(coq_type(rt_of, {'k': 'REF', 'name': name}, numeric))
        for v in (values[name] if values is not None else (gen_value(t) for _ in range(nvals))):
            api_v = G.to_numeric(rt_of, t, v) if numeric else v
            if ei is None:
                ei = cs.add_env(mod, numeric)
            vc = tc(G.coq_value(rt_of, t, api_v))
            got = guarded(spec.encode, name, api_v)
            if got[0] == 'timeout':
                ctx.count('timeout:encode')
                continue
            meta = dict(kind='encode', origin=origin, spec=text, type=name, value=repr(api_v), numeric=numeric)
            key = (origin, G.shape(rt_of, t), value_class(rt_of(t), v), numeric)
            nontrivial = G.type_size(rt_of, t) >= 3 or origin != 'random'
            ctx.case(key if nontrivial else None, dict(kind='encode', type=G.shape(rt_of, t), value=repr(api_v)[:80],
                                                       lib=got[1].hex()[:80] if got[0] == 'ok' else repr(got[1])))
            ctx.count('enc:%s:%s' % (origin, rt_of(t)['k']))
            cs.enc.append((ei, numeric, tyc, vc, res_term(got, bytes), meta))
            why_nc = O.conforming(mod, t, v)
            if why_nc is None:
                # property test proper: library bytes vs the X.696 model
                cs.spec.append((ei, numeric, tyc, vc, res_term(got, bytes), dict(meta, kind='x696')))
                ctx.count('x696:' + rt_of(t)['k'])
                if got[0] != 'ok':
                    report(ctx, 'library cannot encode a value of the type: %r' % (got[1:],),
                                  dict(meta, kind='x696-encode-error'))
            else:
                ctx.count('nonconforming:' + why_nc)
            if got[0] != 'ok':
                continue
            data = got[1]
            # decoder on the exact octets (+ tail): value, octets consumed
            tail = bytes(rng.randrange(256) for _ in range(rng.choice([0, 0, 1, 3])))
            d = guarded(spec.decode, name, data + tail)
            if d[0] == 'timeout':
                ctx.count('timeout:decode')
                continue
            want = O.oer_norm(rt_of, t, api_v, numeric)
            ctx.evaluations += 1
            if d[0] != 'ok' or d[1] != want:
                report(ctx, 'decode(encode(v) + tail) is not the normalised value: got %r want %r' % (d[1:], want),
                              dict(meta, kind='roundtrip', data=(data + tail).hex()))
                continue
            cs.dec.append((ei, numeric, tyc, data + tail,
                           C('Ok', (G.coq_value(rt_of, t, d[1]), len(data))), dict(meta, kind='decode', data=(data + tail).hex())))
            if spec1 is not None:
                d1 = guarded(spec1.decode, name, data + tail)
                if d1[0] != 'timeout':
                    ctx.evaluations += 1
                    ctx.count('forward:' + ('ok' if d1[0] == 'ok' else d1[1].name))
                    if d1[0] != 'ok':
                        report(ctx, 'an encoding of the extended type is rejected by the earlier version: %r' % (d1[1:],),
                               dict(meta, kind='forward', spec=text1, spec_v2=text, data=(data + tail).hex()))
                    else:
                        if ei1 is None:
                            ei1 = cs.add_env(mod1, numeric)
                        t1 = dict(mod1['types'])[name]
                        try:
                            exp1 = C('Ok', (G.coq_value(rt1, t1, d1[1]), len(data)))
                            tc(exp1)
                            cs.dec.append((ei1, numeric, tyc, data + tail, exp1,
                                           dict(meta, kind='decode-forward', spec=text1, data=(data + tail).hex())))
                        except Exception:
                            ctx.count('forward:unexportable')
            # strict prefixes: must be decode errors (and the model must agree on the class)
            ks = list(range(len(data))) if len(data) <= ntrunc else \
                sorted(set([0, 1, len(data) - 1] + [rng.randrange(len(data)) for _ in range(ntrunc - 3)]))
            for kk in ks:
                p = data[:kk]
                dp = guarded(spec.decode, name, p)
                if dp[0] == 'timeout':
                    continue
                ctx.evaluations += 1
                ctx.count('trunc:' + (dp[1].name if dp[0] == 'err' else 'ok'))
                if dp[0] == 'ok' or dp[1].name not in ('EOutOfData', 'EDecode'):
                    report(ctx, 'strict prefix (%d of %d octets) of an encoding does not raise a decode error: %r'
                                  % (kk, len(data), dp[1:]), dict(meta, kind='truncation', data=p.hex(), k=kk))
                    continue
                cs.dec.append((ei, numeric, tyc, p, res_term(dp, lambda x: (G.coq_value(rt_of, t, x), -1)),
                               dict(meta, kind='decode-prefix', data=p.hex())))
            for _ in range(nmal):
                m = mutate(rng, data)
                dm = guarded(spec.decode, name, m)
                if dm[0] == 'timeout':
                    ctx.count('timeout:decode-malformed')
                    continue
                try:
                    exp = res_term(dm, lambda x: (G.coq_value(rt_of, t, x), -1))
                    tc(exp)
                except Exception:       # a decoded shape the exporter cannot express
                    ctx.count('malformed:unexportable')
                    continue
                ctx.evaluations += 1
                ctx.count('malformed:' + (dm[1].name + (':' + dm[1].args[0] if dm[1].args else '') if dm[0] == 'err' else 'ok'))
                cs.dec.append((ei, numeric, tyc, m, exp, dict(meta, kind='decode-malformed', data=m.hex())))


# ---------------------------------------------------------------------------
# boundary layer: the cases the property statement names explicitly

THRESHOLDS = [-2 ** 63 - 1, -2 ** 63, -2 ** 31 - 1, -2 ** 31, -32769, -32768, -129, -128, -1, 0, 1, 127, 128, 255, 256,
              32767, 32768, 65535, 65536, 2 ** 31 - 1, 2 ** 31, 2 ** 32 - 1, 2 ** 32, 2 ** 63 - 1, 2 ** 63, 2 ** 64 - 1,
              2 ** 64, 2 ** 64 + 1]


def blob(rng, n):
    """n octets; long ones are a random head and tail around a constant filler (see coq_bytes)."""
    if n <= 400:
        return bytes(rng.randrange(256) for _ in range(n))
    return bytes(rng.randrange(256) for _ in range(8)) + bytes([rng.randrange(256)]) * (n - 16) + \
        bytes(rng.randrange(256) for _ in range(8))


def T_int(lo, hi, ext=False):
    return {'k': 'INTEGER', 'c': None if lo is None and hi is None and not ext else {'lo': lo, 'hi': hi, 'ext': ext},
            'named': None}


def member(name, t, opt=None, tag=None):
    m = {'name': name, 't': t, 'opt': opt}
    if tag:
        m['tag'] = tag
    return m


def boundary_modules(ctx, quick):
    """-> list of (mod, [(typename, [values])]) covering thresholds."""
    rng = ctx.rng
    out = []
    # INTEGER: every fixed-width class boundary as constraint bound and as value
    types, vals = [], {}
    bounds = [(0, 255), (0, 256), (0, 65535), (0, 65536), (0, 2 ** 32 - 1), (0, 2 ** 32), (0, 2 ** 64 - 1), (0, 2 ** 64),
              (-128, 127), (-129, 127), (-128, 128), (-32768, 32767), (-32769, 32767), (-32768, 32768),
              (-2 ** 31, 2 ** 31 - 1), (-2 ** 31 - 1, 2 ** 31 - 1), (-2 ** 31, 2 ** 31), (-2 ** 63, 2 ** 63 - 1),
              (-2 ** 63 - 1, 2 ** 63 - 1), (-2 ** 63, 2 ** 63), (-1, 2 ** 64 - 1), (1, 1), (5, 300), (-1, 255),
              (0, None), (1, None), (-1, None), (None, 0), (None, -1), (None, 2 ** 64), (None, None), (127, None)]
    for i, (lo, hi) in enumerate(bounds):
        for ext in (False, True):
            if ext and (lo is None or hi is None):
                continue
            n = 'I%d%s' % (i, 'x' if ext else '')
            types.append((n, T_int(lo, hi, ext)))
            cand = [x for x in THRESHOLDS if (lo is None or x >= lo) and (hi is None or x <= hi)]
            cand += [x for x in (lo, hi) if x is not None]
            if lo is not None and hi is not None:
                cand += [(lo + hi) // 2]
            if ext:
                cand += [-5, -1, lo - 1, hi + 1, -300, hi + 70000, -2 ** 40, 2 ** 70]
            if lo is None or hi is None:
                cand += [x for x in (2 ** 70, -2 ** 70, 10 ** 30, -10 ** 30, 2 ** 1015)
                         if (lo is None or x >= lo) and (hi is None or x <= hi)]
            cand = sorted(set(cand))
            if quick and len(cand) > 9:
                cand = sorted(set([cand[0], cand[-1]] + rng.sample(cand, 7)))
            vals[n] = cand
    types.append(('I', T_int(None, None)))
    vals['I'] = THRESHOLDS if not quick else sorted(rng.sample(THRESHOLDS, 12))
    out.append(({'name': 'BI', 'tags': 'AUTOMATIC', 'ext_implied': False, 'types': types, 'values': []}, vals))

    # ENUMERATED: values <0, 127/128, 255/256, >32767, inside sequences with preambles
    types, vals = [], {}
    evs = [-70000, -32769, -32768, -129, -128, -1, 0, 1, 127, 128, 255, 256, 32767, 32768, 65535, 65536, 2 ** 31, 2 ** 63, 2 ** 64]
    root = [('v%d' % i, x) for i, x in enumerate(evs)]
    types.append(('E', {'k': 'ENUMERATED', 'root': root, 'ext': None}))
    types.append(('EX', {'k': 'ENUMERATED', 'root': root[:8], 'ext': root[8:]}))
    types.append(('SE', {'k': 'SEQUENCE', 'root': [member('o', {'k': 'BOOLEAN'}, 'optional'),
                                                   member('e', {'k': 'REF', 'name': 'E'}),
                                                   member('d', {'k': 'ENUMERATED', 'root': root, 'ext': None}, ('default', 'v3')),
                                                   member('x', {'k': 'REF', 'name': 'EX'}, 'optional')],
                         'ext': [{'member': member('a', {'k': 'REF', 'name': 'E'})}]}))
    vals['E'] = [n for n, _ in root]
    vals['EX'] = [n for n, _ in root]
    sev = []
    for n, _ in (root if not quick else rng.sample(root, 8)):
        d = {'e': n}
        if rng.random() < .5:
            d['o'] = rng.random() < .5
        if rng.random() < .6:
            d['d'] = rng.choice(root)[0]
        if rng.random() < .5:
            d['x'] = rng.choice(root)[0]
        if rng.random() < .5:
            d['a'] = rng.choice(root)[0]
        sev.append(d)
    vals['SE'] = sev
    out.append(({'name': 'BE', 'tags': 'AUTOMATIC', 'ext_implied': False, 'types': types, 'values': []}, vals))

    # lengths 0/1/127/128/255/256/65535/65536 for every length-prefixed kind; multi-byte UTF-8 under SIZE
    types, vals = [], {}
    lens = [0, 1, 127, 128, 255, 256] + ([65535, 65536] if not quick else [rng.choice([65535, 65536])])
    types.append(('O', {'k': 'OCTET STRING', 'size': None}))
    vals['O'] = [blob(rng, n) for n in lens]
    types.append(('B', {'k': 'BIT STRING', 'size': None, 'named': None}))
    vals['B'] = []
    for n in [0, 1, 7, 8, 9, 8 * 126, 8 * 126 + 1, 8 * 127, 8 * 127 + 1, 8 * 255 - 1, 8 * 255, 8 * 255 + 1, 8 * 65535 - 3, 8 * 65535 + 3]:
        nb = (n + 7) // 8
        vals['B'].append((blob(rng, nb), n))     # unused bits deliberately not clean
    types.append(('A', {'k': 'STRING', 'sk': 'IA5String', 'size': None, 'alpha': None}))
    vals['A'] = [''.join(chr(rng.randrange(32, 127)) for _ in range(n)) for n in lens[:6]]
    types.append(('U', {'k': 'STRING', 'sk': 'UTF8String', 'size': None, 'alpha': None}))
    pool = [chr(c) for c in (0x24, 0x7f, 0x80, 0xe5, 0x7ff, 0x800, 0x20ac, 0xd7ff, 0xe000, 0xffff, 0x10000, 0x1f600, 0x10ffff)]
    vals['U'] = [''.join(rng.choice(pool) for _ in range(n)) for n in [0, 1, 2, 42, 43, 63, 64, 127, 128, 300]]
    for nm, sz in (('U5', {'lo': 0, 'hi': 5, 'ext': False}), ('U5x', {'lo': 5, 'hi': 5, 'ext': True})):
        types.append((nm, {'k': 'STRING', 'sk': 'UTF8String', 'size': sz, 'alpha': None}))
        vals[nm] = [''.join(rng.choice(pool) for _ in range(5)) for _ in range(4)]
    for nm, k in (('A3', 'IA5String'), ('V3', 'VisibleString'), ('N3', 'NumericString'), ('P3', 'PrintableString')):
        types.append((nm, {'k': 'STRING', 'sk': k, 'size': {'lo': 3, 'hi': 3, 'ext': False}, 'alpha': None}))
        vals[nm] = ['123', ' 0 ']
    # a fixed SIZE with an extension marker is not OER-visible: length determinant, values outside the root allowed
    x3 = {'lo': 3, 'hi': 3, 'ext': True}
    types.append(('O3x', {'k': 'OCTET STRING', 'size': x3}))
    vals['O3x'] = [blob(rng, n) for n in (3, 0, 5, 130)]
    types.append(('B3x', {'k': 'BIT STRING', 'size': x3, 'named': None}))
    vals['B3x'] = [(bytes([rng.randrange(256)]), 3), (b'', 0), (bytes([rng.randrange(256), rng.randrange(256)]), 9)]
    types.append(('A3x', {'k': 'STRING', 'sk': 'IA5String', 'size': x3, 'alpha': None}))
    vals['A3x'] = ['abc', '', 'abcde']
    types.append(('N3x', {'k': 'STRING', 'sk': 'NumericString', 'size': {'lo': 2, 'hi': 4, 'ext': False}, 'alpha': None}))
    vals['N3x'] = ['12', '123', '1234']
    types.append(('SX', {'k': 'SEQUENCE', 'root': [member('o', {'k': 'OCTET STRING', 'size': x3}),
                                                   member('b', {'k': 'BIT STRING', 'size': x3, 'named': None}, 'optional'),
                                                   member('s', {'k': 'STRING', 'sk': 'VisibleString', 'size': x3, 'alpha': None})],
                         'ext': None}))
    vals['SX'] = [{'o': b'abc', 'b': (b'\xa0', 3), 's': 'xyz'}, {'o': b'abcd', 's': ''}]
    types.append(('O0', {'k': 'OCTET STRING', 'size': {'lo': 0, 'hi': 0, 'ext': False}}))
    vals['O0'] = [b'']
    types.append(('O300', {'k': 'OCTET STRING', 'size': {'lo': 300, 'hi': 300, 'ext': False}}))
    vals['O300'] = [bytes(rng.randrange(256) for _ in range(300))]
    types.append(('B13', {'k': 'BIT STRING', 'size': {'lo': 13, 'hi': 13, 'ext': False}, 'named': None}))
    vals['B13'] = [(bytes([rng.randrange(256), rng.randrange(256)]), 13) for _ in range(3)]
    types.append(('B16', {'k': 'BIT STRING', 'size': {'lo': 16, 'hi': 16, 'ext': False}, 'named': [('a', 0), ('z', 15)]}))
    vals['B16'] = [(bytes([rng.randrange(256), rng.randrange(256)]), 16) for _ in range(2)]
    types.append(('L', {'k': 'SEQUENCE OF', 'elem': {'k': 'BOOLEAN'}, 'size': None}))
    vals['L'] = [[rng.random() < .5 for _ in range(n)] for n in [0, 1, 127, 128, 255, 256, 300]]
    types.append(('LN', {'k': 'SEQUENCE OF', 'elem': {'k': 'NULL'}, 'size': {'lo': 0, 'hi': 3, 'ext': False}}))
    vals['LN'] = [[None] * n for n in [0, 1, 3]]
    types.append(('OID', {'k': 'OBJECT IDENTIFIER'}))
    vals['OID'] = ['0.0', '1.39', '2.0', '2.39', '2.40', '2.47', '2.48', '2.999', '2.16383.16384', '1.2.840.113549.1.1.11',
                   '2.%d' % (2 ** 64), '0.5.' + '.'.join(['127', '128'] * 40)]
    # an addition whose encoding needs a long-form length prefix
    types.append(('SA', {'k': 'SEQUENCE', 'root': [member('r', {'k': 'BOOLEAN'})],
                         'ext': [{'member': member('a', {'k': 'OCTET STRING', 'size': None}, 'optional')},
                                 {'member': member('b', {'k': 'NULL'})}]}))
    vals['SA'] = [{'r': True, 'a': blob(rng, n), **({'b': None} if n % 2 else {})}
                  for n in [0, 125, 126, 127, 128, 253, 254, 255, 256, 300]] + [{'r': False, 'b': None}, {'r': False}]
    out.append(({'name': 'BL', 'tags': 'AUTOMATIC', 'ext_implied': False, 'types': types, 'values': []}, vals))

    # many additions: bitmap lengths around the octet boundary; many optionals: preamble around the octet boundary
    types, vals = [], {}
    for na in (1, 6, 7, 8, 9, 15, 16, 17):
        adds = [{'member': member('a%d' % i, rng.choice([{'k': 'BOOLEAN'}, {'k': 'NULL'}, T_int(None, None), T_int(0, 255)]),
                                  rng.choice([None, 'optional', 'optional']))} for i in range(na)]
        n = 'X%d' % na
        types.append((n, {'k': 'SEQUENCE', 'root': [member('r', T_int(0, 65535))], 'ext': adds}))
        vs = []
        for _ in range(5 if quick else 12):
            d = {'r': rng.randrange(65536)}
            p = rng.choice([.1, .5, .9])
            for a in adds:
                if rng.random() < p:
                    d[a['member']['name']] = G.Gen(rng).gen_value(a['member']['t'])
            vs.append(d)
        # first/last only; a version-2 value in a version-n type (later mandatory additions absent)
        vs.append({'r': 1, adds[0]['member']['name']: G.Gen(rng).gen_value(adds[0]['member']['t'])})
        vs.append({'r': 2, adds[-1]['member']['name']: G.Gen(rng).gen_value(adds[-1]['member']['t'])})
        vals[n] = vs
    for no in (6, 7, 8, 9, 16):
        for ext in (False, True):
            ms = [member('o%d' % i, rng.choice([{'k': 'BOOLEAN'}, T_int(-128, 127)]),
                         rng.choice(['optional', 'optional', None]) if i else 'optional') for i in range(no)]
            ms = [m if m['opt'] != 'optional' or rng.random() < .8 or m['t']['k'] != 'BOOLEAN'
                  else dict(m, opt=('default', True)) for m in ms]
            n = 'P%d%s' % (no, 'x' if ext else '')
            types.append((n, {'k': 'SEQUENCE' if no != 9 else 'SET', 'root': ms, 'ext': [] if ext else None}))
            vs = []
            for _ in range(4 if quick else 10):
                d = {}
                for m in ms:
                    if m['opt'] is None or rng.random() < .5:
                        d[m['name']] = G.Gen(rng).gen_value(m['t'])
                vs.append(d)
            vals[n] = vs
    out.append(({'name': 'BX', 'tags': 'AUTOMATIC', 'ext_implied': False, 'types': types, 'values': []}, vals))

    # CHOICE tags: automatic numbering past 62, explicit tags of the three encodable classes, numbers around 63/128/16384
    types, vals = [], {}
    many = [member('c%d' % i, {'k': 'BOOLEAN'} if i % 3 else {'k': 'NULL'}) for i in range(130)]
    types.append(('CA', {'k': 'CHOICE', 'root': many[:70], 'ext': many[70:]}))
    vals['CA'] = [(m['name'], G.Gen(rng).gen_value(m['t'])) for m in
                  [many[i] for i in (0, 1, 61, 62, 63, 64, 69, 70, 71, 126, 127, 128, 129)]]
    nums = [0, 1, 30, 31, 62, 63, 64, 127, 128, 16383, 16384, 2 ** 21, 2 ** 32]
    alts = []
    for i, nmb in enumerate(nums):
        cls = ['', 'APPLICATION', 'PRIVATE'][i % 3]
        alts.append(member('t%d' % i, rng.choice([{'k': 'BOOLEAN'}, T_int(None, None), {'k': 'NULL'}]),
                           tag=(cls, nmb, rng.choice(['', 'IMPLICIT', 'EXPLICIT']))))
    types.append(('CT', {'k': 'CHOICE', 'root': alts[:9], 'ext': alts[9:]}))
    vals['CT'] = [(m['name'], G.Gen(rng).gen_value(m['t'])) for m in alts]
    out.append(({'name': 'BC', 'tags': 'AUTOMATIC', 'ext_implied': False, 'types': types, 'values': []}, vals))
    return out


# ---------------------------------------------------------------------------
# Coq side

def shard_body(cs, enc, spec, dec):
    used = sorted({c[0] for c in enc + spec + dec})
    lines = []
    for i in used:
        lines.append('Definition e%d : env := %s.' % (i, cs.envs[i]))

    def case(c):
        ei, numeric, tyc, arg = c[0], c[1], c[2], c[3]
        return '((%s, e%d, %s, %s), %s)' % (to_coq(bool(numeric)), ei, tyc, arg if isinstance(arg, str) else tc(arg),
                                            tc(c[4]))
    lines.append('Definition enc_cases : list (enc_case * result (list Z)) := [%s].' % ';\n '.join(map(case, enc)))
    lines.append('Eval vm_compute in mismatches2 res_bytes_eqb (run_enc %d%%nat) enc_cases.' % O.FUEL)
    lines.append('Definition spec_cases : list (enc_case * result (list Z)) := [%s].' % ';\n '.join(map(case, spec)))
    lines.append('Eval vm_compute in mismatches2 opt_bytes_eqb (run_spec %d%%nat) spec_cases.' % O.FUEL)
    lines.append('Definition dec_cases : list (dec_case * result (value * Z)) := [%s].' % ';\n '.join(map(case, dec)))
    lines.append('Eval vm_compute in mismatches2 res_dec_eqb (run_dec %d%%nat) dec_cases.' % O.FUEL)
    # the theorems' regions contain the cases the Python predicates let through
    lines.append('Eval vm_compute in mismatches2 Bool.eqb (run_ok %d%%nat) '
                 '(map (fun c => (fst c, true)) (filter (fun c => match snd c with Ok _ => true | Err _ => false end) enc_cases)).'
                 % O.FUEL)
    lines.append('Eval vm_compute in mismatches2 Bool.eqb (run_scope %d%%nat) (map (fun c => (fst c, true)) spec_cases).'
                 % O.FUEL)
    return '\n'.join(lines) + '\n'


def explain(ctx, cs, kind, c):
    """Model / specification output for one disagreeing case."""
    ei, numeric, tyc, arg = c[0], c[1], c[2], c[3]
    argc = arg if isinstance(arg, str) else tc(arg)
    fn = {'enc': 'run_enc', 'spec': 'run_spec', 'dec': 'run_dec'}[kind]
    body = 'Definition e%d : env := %s.\nEval vm_compute in %s %d%%nat (%s, e%d, %s, %s).\n' % (
        ei, cs.envs[ei], fn, O.FUEL, to_coq(bool(numeric)), ei, tyc, argc)
    try:
        (r,) = ctx.coq_eval('explain', IMPORTS, body, timeout=300)
        return repr(r)
    except Exception as e:  # noqa
        return 'model evaluation failed: %s' % (str(e)[-300:],)


def fmt_model(r):
    s = r
    return s if len(s) < 600 else s[:600] + '...'


def run_coq(ctx, cs):
    jobs = []
    # group the cases by environment so that every shard defines only the environments it uses
    ne, ns, nd = len(cs.enc), len(cs.spec), len(cs.dec)
    by_env = {}
    for kind, lst in (('enc', cs.enc), ('spec', cs.spec), ('dec', cs.dec)):
        for c in lst:
            by_env.setdefault(c[0], {'enc': [], 'spec': [], 'dec': []})[kind].append(c)
    groups = []
    for ei in sorted(by_env):
        g = by_env[ei]
        flat = [(k, c) for k in ('enc', 'spec', 'dec') for c in g[k]]
        for i in range(0, len(flat), 2 * SHARD):          # a large environment (boundary layer) spans several shards
            piece = {'enc': [], 'spec': [], 'dec': []}
            for k, c in flat[i:i + 2 * SHARD]:
                piece[k].append(c)
            groups.append(piece)
    cur = {'enc': [], 'spec': [], 'dec': []}
    size = 0
    for g in groups:
        n = len(g['enc']) + len(g['spec']) + len(g['dec'])
        if size and size + n > 2 * SHARD:
            jobs.append((len(jobs), cur['enc'], cur['spec'], cur['dec']))
            cur = {'enc': [], 'spec': [], 'dec': []}
            size = 0
        for k in cur:
            cur[k] += g[k]
        size += n
    if size:
        jobs.append((len(jobs), cur['enc'], cur['spec'], cur['dec']))
    nsh = len(jobs)
    ctx.coq_eval('warm', IMPORTS, 'Eval vm_compute in 0.\n')       # builds the model once (if Props did not), serially

    def work(job):
        i, enc, spec, dec = job
        t0 = time.time()
        body = shard_body(cs, enc, spec, dec)
        t1 = time.time()
        r = ctx.coq_eval('shard%d' % i, IMPORTS, body, timeout=1500)
        times.append((i, round(t1 - t0, 1), round(time.time() - t1, 1), len(body)))
        return job, r
    times = []
    ctx.log('coq: %d encode, %d x696, %d decode cases in %d shard(s)' % (ne, ns, nd, nsh))
    bad = []
    with concurrent.futures.ThreadPoolExecutor(max_workers=8) as ex:
        for job, res in ex.map(work, jobs):
            _, enc, spec, dec = job
            b_enc, b_spec, b_dec, b_ok, b_scope = res
            bad += [('enc', enc[j]) for j in b_enc] + [('spec', spec[j]) for j in b_spec] + [('dec', dec[j]) for j in b_dec]
            okenc = [c for c in enc if c[4].name == 'Ok']
            bad += [('ok', okenc[j]) for j in b_ok] + [('scope', spec[j]) for j in b_scope]
    ctx.extra['shard_times'] = sorted(times)
    ctx.extra['agreement'] = {'encode_cases': ne, 'x696_cases': ns, 'decode_cases': nd, 'disagreements': len(bad)}
    shown = 0
    for kind, c in bad:
        meta = c[5]
        model = explain(ctx, cs, kind, c) if shown < 8 and kind in ('enc', 'spec', 'dec') else '(not evaluated)'
        shown += 1
        if kind in ('ok', 'scope'):
            what = 'the Python region predicate admits a case outside the Coq region %s: %s value %s' % (
                'oer_ok' if kind == 'ok' else 'in_scope', meta['type'], meta['value'][:160])
            report(ctx, what, dict(meta, kind='region-' + kind))
            continue
        if kind == 'spec':
            what = 'X.696 model and library disagree on the encoding of %s value %s: library %s, X.696 %s' % (
                meta['type'], meta['value'][:120], show(c[4]), fmt_model(model))
        elif kind == 'enc':
            what = 'implementation model and library disagree on encode(%s, %s): library %s, model %s' % (
                meta['type'], meta['value'][:120], show(c[4]), fmt_model(model))
        else:
            what = 'implementation model and library disagree on decode(%s, %s): library %s, model %s' % (
                meta['type'], meta['data'][:80], show(c[4]), fmt_model(model))
        report(ctx, what, dict(meta, expected=show(c[4]), model=model))


def show(t):
    if isinstance(t, C) and t.name == 'Ok':
        a = t.args[0]
        return a.hex() if isinstance(a, (bytes, bytearray)) else repr(a)[:300]
    return repr(t)


# ---------------------------------------------------------------------------
# REAL (WITH COMPONENTS binary32 / binary64): property test only — REAL is not in the Coq universe.
# X.696 clause 15: a REAL restricted to the binary32 / binary64 value set is the IEEE 754 interchange
# format, big endian, without length; any other REAL is a length determinant + the X.690 contents.

def ieee754(x, ebits, mbits):
    """Independent IEEE 754 binary interchange encoder for exactly representable x (integer arithmetic only)."""
    import math
    from fractions import Fraction
    bias = (1 << (ebits - 1)) - 1
    if x != x:
        return None
    sign = 1 if math.copysign(1.0, x) < 0 else 0
    if x in (float('inf'), float('-inf')):
        e, m = (1 << ebits) - 1, 0
    elif x == 0:
        e, m = 0, 0
    else:
        f = Fraction(abs(x))
        ex = 0
        while f >= 2:
            f /= 2
            ex += 1
        while f < 1:
            f *= 2
            ex -= 1
        if ex < 1 - bias:                      # subnormal
            m = f * Fraction(2) ** (mbits + ex - (1 - bias))
            e = 0
        else:
            m = (f - 1) * (1 << mbits)
            e = ex + bias
        if m.denominator != 1 or e >= (1 << ebits) - 1:
            return None                        # not exactly representable: not a value of the type
        m = int(m)
    n = (sign << (ebits + mbits)) | (e << mbits) | m
    return n.to_bytes((1 + ebits + mbits) // 8, 'big')


REAL_SPEC = """R DEFINITIONS AUTOMATIC TAGS ::= BEGIN
F32 ::= REAL (WITH COMPONENTS { mantissa (-16777215..16777215), base (2), exponent (-149..104) })
F64 ::= REAL (WITH COMPONENTS { mantissa (-9007199254740991..9007199254740991), base (2), exponent (-1074..971) })
S ::= SEQUENCE { a F32 OPTIONAL, b F64, ..., c F32 }
END
"""


def pt_real(ctx):
    import math
    rng = ctx.rng
    r = lib.attempt(lib.compile_string, REAL_SPEC, 'oer')
    if r[0] != 'ok':
        report(ctx, 'REAL WITH COMPONENTS module does not compile: %r' % (r[1:],), dict(kind='real', spec=REAL_SPEC))
        return
    spec = r[1]
    vals32 = [0.0, -0.0, 1.0, -1.0, 0.5, -2.5, 2.0 ** -126, 2.0 ** -149, 2.0 ** -127, (2 - 2.0 ** -23) * 2.0 ** 127,
              float('inf'), float('-inf'), 16777215.0, -16777215.0 * 2.0 ** 104, 3 * 2.0 ** -149]
    vals64 = vals32 + [2.0 ** -1022, 2.0 ** -1074, (2 - 2.0 ** -52) * 2.0 ** 1023, 0.1, -1e300, 9007199254740991.0,
                       math.pi, rng.random(), -rng.random() * 1e-310]
    for tn, eb, mb, vals in (('F32', 8, 23, vals32), ('F64', 11, 52, vals64)):
        for x in vals:
            want = ieee754(x, eb, mb)
            if want is None:
                continue
            got = lib.attempt(spec.encode, tn, x)
            ctx.case(('real', tn, x.hex()), dict(kind='real', type=tn, value=x.hex(), lib=got[1].hex() if got[0] == 'ok' else repr(got[1:])))
            ctx.count('real:' + tn)
            if got != ('ok', want):
                report(ctx, 'REAL %s value %s: library %s, IEEE 754 interchange format %s' % (
                    tn, x.hex(), got[1].hex() if got[0] == 'ok' else got[1:], want.hex()),
                    dict(kind='real', spec=REAL_SPEC, type=tn, value=x.hex(), expected=want.hex()))
                continue
            back = lib.attempt(spec.decode, tn, want + b'\x55')
            if back[0] != 'ok' or back[1].hex() != x.hex():
                report(ctx, 'REAL %s: decode(%s) = %r, expected %s' % (tn, want.hex(), back[1:], x.hex()),
                       dict(kind='real-decode', spec=REAL_SPEC, type=tn, data=want.hex(), expected=x.hex()))
    # inside a SEQUENCE with preamble and addition
    v = {'a': -2.5, 'b': 0.1, 'c': 1.0}
    want = b'\xc0' + ieee754(-2.5, 8, 23) + ieee754(0.1, 11, 52) + b'\x02\x07\x80\x04' + ieee754(1.0, 8, 23)
    got = lib.attempt(spec.encode, 'S', v)
    ctx.case(('real', 'S'), None)
    if got != ('ok', want):
        report(ctx, 'REAL members in SEQUENCE: library %s, expected %s' % (got[1].hex() if got[0] == 'ok' else got[1:], want.hex()),
               dict(kind='real', spec=REAL_SPEC, type='S', value=repr(v), expected=want.hex()))


def x696_real_format(m_lo, m_hi, base, e_lo, e_hi):
    """X.696 clause 12: which of the three REAL encodings a WITH COMPONENTS constraint selects (independent of oer.py)."""
    if base != 2:
        return 'general'
    if -(2 ** 24 - 1) <= m_lo and m_hi <= 2 ** 24 - 1 and -149 <= e_lo and e_hi <= 104:
        return 'binary32'
    if -(2 ** 53 - 1) <= m_lo and m_hi <= 2 ** 53 - 1 and -1074 <= e_lo and e_hi <= 971:
        return 'binary64'
    return 'general'


def pt_real_classification(ctx):
    """Every threshold of the binary32 / binary64 classification, one step inside and one step outside."""
    M32, M64 = 2 ** 24 - 1, 2 ** 53 - 1
    cons = []
    for m in (M32 - 1, M32, M32 + 1, M64 - 1, M64, M64 + 1, 1000):
        for e_lo, e_hi in ((-149, 104), (-150, 104), (-149, 105), (-149, 120), (-149, 127), (-149, 128), (-126, 127),
                           (-1074, 971), (-1075, 971), (-1074, 972), (-1022, 1023), (-10, 10), (0, 0), (105, 200)):
            for base in (2, 10):
                for m_lo in (-m, 0):
                    cons.append((m_lo, m, base, e_lo, e_hi))
    types = ['T%d ::= REAL (WITH COMPONENTS { mantissa (%d..%d), base (%d), exponent (%d..%d) })' % ((i,) + c)
             for i, c in enumerate(cons)]
    text = 'RC DEFINITIONS AUTOMATIC TAGS ::= BEGIN\n' + '\n'.join(types) + '\nEND\n'
    r = lib.attempt(lib.compile_string, text, 'oer')
    if r[0] != 'ok':
        report(ctx, 'REAL classification module does not compile: %r' % (r[1:],), dict(kind='real-class', spec=text))
        return
    general = b'\x03\x80\x00\x01'          # length 3, X.690 binary form of 1.0 (mantissa 1, exponent 0)
    want = {'binary32': ieee754(1.0, 8, 23), 'binary64': ieee754(1.0, 11, 52), 'general': general}
    for i, c in enumerate(cons):
        fmt = x696_real_format(*c)
        got = lib.attempt(r[1].encode, 'T%d' % i, 1.0)
        ctx.case(('real-class', c), None)
        ctx.count('real-class:' + fmt)
        if got != ('ok', want[fmt]):
            report(ctx, 'REAL with components mantissa (%d..%d) base %d exponent (%d..%d) is %s in X.696 clause 12: 1.0 must be '
                        '%s, library gives %s' % (c + (fmt, want[fmt].hex(), got[1].hex() if got[0] == 'ok' else got[1:])),
                   dict(kind='real-class', spec='RC DEFINITIONS AUTOMATIC TAGS ::= BEGIN\n' + types[i].replace('T%d' % i, 'T') + '\nEND\n',
                        type='T', value='1.0', expected=want[fmt].hex()))
            continue
        back = lib.attempt(r[1].decode, 'T%d' % i, want[fmt] + b'\x55')
        if back != ('ok', 1.0):
            report(ctx, 'REAL classification %r: decode(%s) = %r' % (c, want[fmt].hex(), back[1:]),
                   dict(kind='real-class-decode', spec=text, type='T%d' % i, data=want[fmt].hex()))


# ---------------------------------------------------------------------------
# known findings and replay

def run_witness(w):
    """-> (still_fails, detail)"""
    numeric = bool(w.get('numeric'))
    spec = asn1tools.compile_string(w['spec'], 'oer', numeric_enums=numeric)
    v = eval(w['value'], {'__builtins__': {}}) if isinstance(w.get('value'), str) and w.get('eval') else w.get('value')
    if 'expect_hex' in w:
        got = lib.attempt(spec.encode, w['type'], v)
        ok = got[0] == 'ok' and got[1].hex() == w['expect_hex']
        return (not ok, 'encode -> %s, X.696: %s' % (got[1].hex() if got[0] == 'ok' else got[1:], w['expect_hex']))
    if 'data' in w:
        got = lib.attempt(spec.decode, w['type'], bytes.fromhex(w['data']))
        ok = got[0] == 'ok' and got[1] == v
        return (not ok, 'decode -> %r' % (got[1:],))
    return (False, 'witness has no expectation')


def replay_findings(ctx):
    for f in common.load_findings(PID):
        try:
            fails, detail = run_witness(f['witness'])
        except Exception as e:  # noqa
            fails, detail = True, 'witness raised %s: %s' % (type(e).__name__, e)
        ctx.evaluations += 1
        if fails:
            ctx.known_finding(f['id'], f['what'] + ' [' + detail + ']')
        else:
            ctx.log('known finding %s no longer reproduces (%s): remove it from known_findings/C06.json' % (f['id'], detail))


def replay(ctx):
    doc = json.load(open(ctx.replay))
    r = doc['replay']
    print('replaying', r.get('kind'), '-', doc.get('what', '')[:300])
    if 'spec' not in r:
        print(json.dumps(r, indent=1)[:2000])
        return
    spec = asn1tools.compile_string(r['spec'], 'oer', numeric_enums=bool(r.get('numeric')))
    if r.get('kind') in ('encode', 'x696', 'roundtrip', 'x696-encode-error'):
        v = eval(r['value'], {'__builtins__': {}})
        got = lib.attempt(spec.encode, r['type'], v)
        print('library encode ->', got[1].hex() if got[0] == 'ok' else got[1:])
        if got[0] == 'ok':
            print('library decode ->', lib.attempt(spec.decode, r['type'], got[1])[1:])
    else:
        print('library decode(%s) ->' % r['data'][:80], lib.attempt(spec.decode, r['type'], bytes.fromhex(r['data']))[1:])
    for k in ('expected', 'model'):
        if k in r:
            print(k + ':', str(r[k])[:600])


# ---------------------------------------------------------------------------

def run(ctx):
    if ctx.replay:
        return replay(ctx)
    ctx.rule = ('cases: (module, type, value, numeric_enums) from the shared grammar-directed generator plus a boundary layer '
                '(INTEGER bounds/values at every fixed-width threshold, ENUMERATED values <0/127/128/>32767, lengths '
                '0/1/127/128/255/256/65535/65536, 1..17 additions, 6..16 optionals, CHOICE tags up to 2^32) plus the '
                'serial-constraint layer (constraints written on references to constrained INTEGER / sized types at '
                'type-assignment, component, element and alternative sites, up to 3 deep, extensible or not, MIN/MAX; '
                'effective constraints computed by Oer/OerSerial.v inside Coq); each case: '
                'encode, X.696 model, decode(+tail), every/sampled strict prefix, mutated octets; distinct by (origin, type '
                'shape, value class, numeric); non-trivial = type AST size >= 3 or boundary layer')
    ctx.level = 'proof'
    ctx.trusted_base += [
        'Oer/X696.v is the author\'s formalisation of Rec. ITU-T X.696 written from memory (the text is not available '
        'offline); pinned by the 41 vectors of Oer/X696Vectors.v (Overview-of-OER examples, literals of tests/test_oer.py)',
        'the model abstracts the (value, number_of_bits) accumulators of oer.Encoder/Decoder to octet lists; '
        'struct.pack, str.encode and bytes.decode are modelled (range check, strict UTF-8/ASCII), not verified',
        'harness/gen_asn1.py + harness/codec_oer.py exporters (module text for the library, Coq terms for the models)',
    ]
    ctx.assumptions += [
        'the model follows /repo with proposed_fixes/C06-*.diff applied; on a tree without them the three repaired '
        'defects are reported as violations',
        'theorems quantify over the universe of Syntax/Asn1.v restricted by the decidable regions oer_ok / in_scope; '
        'REAL, time types, ANY, EXTERNAL and parameterisation are outside the universe',
    ]
    # helper layer regenerated from the source (translator/pyfun.py) BEFORE the theorems are checked against it
    import pyfun_tie
    _tie = pyfun_tie.run_tie(ctx, budget=400)
    ok = ctx.coq_props(extra_targets=['theories/Oer/OerCorr.vo', 'theories/Oer/X696Vectors.vo', 'theories/Oer/OerSerial.vo'])
    pyfun_tie.report(ctx, _tie, functions=['encode_tag'])

    ok = audit_serial(ctx) and ok
    if ok:      # everything the case files import has just been built: do not take the build lock again
        ctx._built.add(tuple(sorted('theories/%s.vo' % i.replace('.', '/') for i in IMPORTS)))
    ctx.log('props built and audited')
    replay_findings(ctx)
    cs = Cases()
    quick = ctx.quick
    rng = ctx.rng
    for mod, vals in boundary_modules(ctx, quick):
        text = G.render_module(mod, G.make_resolver(mod))
        for numeric in ((False, True) if mod['name'] == 'BE' else (False,)):
            collect_module(ctx, cs, mod, text, None, 0, numeric, 'boundary', ntrunc=3 if quick else 6, nmal=1, values=vals)
    ctx.log('boundary layer done: %d evaluations' % ctx.evaluations)
    # constraints applied serially at reference sites: the effective constraints are computed in Coq (Oer/OerSerial.v)
    for mod, text, vals in SR.serial_modules(ctx, quick):
        collect_module(ctx, cs, mod, text, None, 0, False, 'serial', ntrunc=2 if quick else 6, nmal=0 if quick else 1, values=vals)
    ctx.log('serial-constraint layer done: %d evaluations' % ctx.evaluations)
    nmods = 45 if quick else 2500
    for i in range(nmods):
        opts = G.Opts(max_depth=rng.choice([2, 3]), n_types=rng.choice([2, 4]))   # 64K lengths: boundary layer
        mod, text, gen = G.generate(rng, opts)
        numeric = rng.random() < .35
        collect_module(ctx, cs, mod, text, gen.gen_value, 2 if quick else 3, numeric, 'random',
                       ntrunc=4 if quick else 8, nmal=2 if quick else 4)
    pt_real(ctx)
    pt_real_classification(ctx)
    ctx.log('library side done: %d evaluations' % ctx.evaluations)
    run_coq(ctx, cs)
    ctx.extra['open_theorems'] = open_theorems()
    ctx.extra['conforming_region'] = O.__doc__.split('Region predicates', 1)[1]
    if not ok:
        common.proof_broken(ctx)


SERIAL_THEOREMS = ['eff_int_extensible_ignored', 'eff_size_extensible_ignored', 'istep_visible_intersects',
                   'istep_root_intersects', 'ichain_root_in_vis', 'istep_narrowing', 'istep_vis_shrinks',
                   'zstep_visible_intersects', 'zstep_fixed', 'apply_chain_extensible_int', 'apply_chain_extensible_octets']


def audit_serial(ctx):
    """Oer/OerSerial.v is not imported by Props/C06.v (a shared file): its theorems are audited here the same way —
    no forbidden vernacular in the file, every theorem closed under the global context."""
    import re
    path = os.path.join(common.COQ, 'theories', 'Oer', 'OerSerial.v')
    txt = re.sub(r'\(\*.*?\*\)', '', open(path).read(), flags=re.S)
    bad = [m.group(1) for m in common.FORBIDDEN.finditer(txt)]
    ctx.obligation('gate:OerSerial.v', not bad, '; '.join(bad[:5]))
    allok = not bad
    body = ''.join('Print Assumptions %s.\n' % t for t in SERIAL_THEOREMS)
    d = os.path.join(common.COQ, 'cases')
    os.makedirs(d, exist_ok=True)
    f = os.path.join(d, 'C06_serial_audit.v')
    with open(f, 'w') as fh:
        fh.write('From Asn1V Require Import Oer.OerSerial.\n' + body)
    rc, out = common.sh(['coqc'] + common.COQ_FLAGS + ['-Q', 'cases', 'Asn1Cases', 'cases/C06_serial_audit.v'],
                        cwd=common.COQ, timeout=600)
    for ext in ('.v', '.vo', '.glob', '.vok', '.vos'):
        for q in (f[:-2] + ext, os.path.join(d, '.C06_serial_audit.aux')):
            try:
                os.remove(q)
            except OSError:
                pass
    closed = out.count('Closed under the global context')
    for i, t in enumerate(SERIAL_THEOREMS):
        good = rc == 0 and closed == len(SERIAL_THEOREMS)
        ctx.obligation('OerSerial.' + t, good, 'closed' if good else out[-300:])
        allok = allok and good
    return allok


def open_theorems():
    """_partial theorems and OPEN comments of Props/C06.v and of the Oer development."""
    import glob
    import re
    out = []
    for f in [os.path.join(common.COQ, 'theories', 'Props', 'C06.v')] + \
            sorted(glob.glob(os.path.join(common.COQ, 'theories', 'Oer', '*.v'))):
        src = open(f).read()
        out += ['%s: %s' % (os.path.basename(f), n) for n in sorted(set(re.findall(r'(?:Theorem|Lemma)\s+(\w+_partial)\b', src)))]
        out += ['%s: OPEN: %s' % (os.path.basename(f), ' '.join(m.split())[:240])
                for m in re.findall(r'\(\*\s*OPEN:(.*?)\*\)', src, flags=re.S)]
    return out
