import argparse
import importlib
import os
import sys
import traceback

sys.path.insert(0, os.path.dirname(os.path.abspath(__file__)))
import common


def main():
    ap = argparse.ArgumentParser()
    ap.add_argument('pid')
    ap.add_argument('--tier', default=os.environ.get('VERIF_TIER', 'quick'), choices=['quick', 'thorough'])
    ap.add_argument('--seed', type=int, default=int(os.environ.get('VERIF_SEED', '1')))
    ap.add_argument('--replay')
    a = ap.parse_args()
    ctx = common.Ctx(a.pid, a.tier, a.seed, a.replay)
    mod = importlib.import_module(a.pid.lower())
    try:
        mod.run(ctx)
    except Exception:
        # a crash of the machinery is reported as a failed obligation, never silently passed
        tb = traceback.format_exc()
        print(tb)
        ctx.obligation('harness-completed', False, tb[-400:])
        ctx.violation('check machinery crashed: ' + tb.strip().splitlines()[-1], {'traceback': tb}, no_input=True)
    sys.exit(ctx.finish())


main()
