"""C04 — the BER decoder accepts every valid BER serialisation with the same meaning.

  * Coq: Props/C04.v (ber_accepts ... about Ber/BerImpl.v against the reading
    relation ber_sem of Ber/X690.v).
  * The harness re-serialises encoder outputs with its own TLV rewriter
    (codec_ber.write_variant): each constructed node independently definite /
    indefinite, each length minimal / long form / padded with up to four zero
    octets, OCTET/BIT/character strings split into universal-tag segments at
    random cut points with nesting <= 3, SET components permuted, and mixtures.
  * Property test on /repo: decode(variant) = decode(original) and = the value
    that was encoded (defaults filled in, named-bit strings modulo trailing
    zeros), end offset = len(variant).
  * Correspondence: /repo decode_with_length vs BerImpl.ber_decode on the
    variants and on malformed relatives of the variants; /repo encode vs
    BerImpl.ber_encode.
  * Every variant, as the BER tree the rewriter built, is checked by Coq's
    executable ber_sem checker (X690.ber_check): the rewriter's notion of
    "valid BER" and the specification's agree.
"""
import json

import common
from common import C, Nat, to_coq
import lib
import gen_asn1
import codec_ber as cb
import c03

IMPORTS = c03.CORR_IMPORTS


def veq_norm(c, v):
    rt_of = gen_asn1.make_resolver(c.mod)
    return gen_asn1.norm(rt_of, c.t, cb.plain(v), c.numeric)


def make_variants(ctx, cases, enc, per_case):
    """[(case, variant bytes, features used, original bytes)]"""
    rng = ctx.rng
    out = []
    for c, r in zip(cases, enc):
        if r[0] != 'ok':
            continue
        data = r[1]
        try:
            root, end = cb.parse_strict(data, der=True)
            assert end == len(data)
        except (cb.TlvError, AssertionError) as e:
            ctx.violation('BER encoder output is not one definite-length TLV: %s' % e,
                          dict(kind='pt-ber-encoding', spec=c.text, type=c.tname, value=repr(c03.api_value(c)),
                               numeric=c.numeric, data=data.hex()))
            continue
        problems = cb.annotate(c.mod, c.tname, root)
        if problems:
            ctx.violation('BER encoder output does not match the type: %s' % problems[0],
                          dict(kind='pt-ber-encoding', spec=c.text, type=c.tname, value=repr(c03.api_value(c)),
                               numeric=c.numeric, data=data.hex(), problems=problems))
            continue
        for k in range(1 if len(data) > 5000 else 2 if c.corner else per_case):
            mix = rng.random()
            if mix < .15:
                st = cb.Style(rng, indefinite=1, pad=0, segment=0, permute=0)       # indefinite everywhere
            elif mix < .3:
                st = cb.Style(rng, indefinite=0, pad=1, segment=0, permute=0)       # every length padded
            elif mix < .45:
                st = cb.Style(rng, indefinite=0, pad=0, segment=1, permute=0)       # every string segmented
            elif mix < .55:
                st = cb.Style(rng, indefinite=0, pad=0, segment=0, permute=1)       # SETs permuted only
            else:
                st = cb.Style(rng)                                                  # mixture
            var, term = cb.write_variant(root, st)
            out.append((c, var, frozenset(st.used), data, term))
    return out


def pt_variants(ctx, variants):
    """the property on /repo"""
    for c, var, used, data, _ in variants:
        spec = lib.compile_string(c.text, 'ber', numeric_enums=c.numeric)
        base = lib.attempt(spec.decode_with_length, c.tname, data)
        got = lib.attempt(spec.decode_with_length, c.tname, var)
        feats = ','.join(sorted(used)) or 'none'
        ctx.case(('pt', c03.shape_key(c), feats), dict(kind='variant', spec=c.text, type=c.tname, variant=var.hex()[:120],
                                                      original=data.hex()[:120], features=feats))
        for f in used:
            ctx.count('pt:feature:' + f)
        ctx.count('pt:variants')
        rep = dict(kind='pt-variant', spec=c.text, type=c.tname, numeric=c.numeric, value=repr(c03.api_value(c)),
                   data=var.hex(), original=data.hex(), features=feats)
        if base[0] != 'ok':
            ctx.violation('BER decode rejects the encoder output %s: %s' % (data.hex()[:80], base[1:]), rep)
            continue
        if got[0] != 'ok':
            ctx.violation('BER decode rejects a valid re-serialisation (%s) of %s: %s %s' % (
                feats, data.hex()[:60], got[1], got[2][:120]), rep)
            continue
        if got[1][1] != len(var):
            ctx.violation('BER decode of a re-serialisation (%s) stops at %d of %d octets' % (feats, got[1][1], len(var)), rep)
            continue
        if veq_norm(c, got[1][0]) != veq_norm(c, base[1][0]):
            ctx.violation('BER decode of a re-serialisation (%s) gives another value: %r instead of %r' % (
                feats, got[1][0], base[1][0]), rep)
            continue
        rt_of = cb.Resolver(c.mod)
        if not c03.addition_gap(rt_of, c.t, c.v) and veq_norm(c, got[1][0]) != veq_norm(c, c03.api_value(c)):
            ctx.violation('BER decode does not return the encoded value: %r instead of %r' % (
                got[1][0], c03.api_value(c)), rep)


def corr_variants(ctx, batch, variants, n_mut):
    """/repo decode vs BerImpl.ber_decode on the variants and their malformed relatives"""
    rng = ctx.rng
    for c, var, used, data, _ in variants:
        inputs = [('variant', var)]
        if rng.random() < .2:
            inputs.append(('variant+tail', var + bytes(rng.randrange(256) for _ in range(rng.choice([1, 2, 4])))))
        for _ in range(n_mut if len(var) < 5000 else 0):
            inputs.append(c03.mutate(rng, var))
        c03.add_decode_checks(ctx, batch, c, inputs, 'ber', cb, 'BER', extra_key=(min(len(used), 3),))


def sem_variants(ctx, batch, variants):
    """every variant, as the tree the rewriter built, satisfies X690.ber_sem with
    the value the library decodes (executable checker ber_check)"""
    for c, var, used, data, term in variants:
        spec = lib.compile_string(c.text, 'ber', numeric_enums=c.numeric)
        r = lib.attempt(spec.decode_with_length, c.tname, var)
        if r[0] != 'ok':
            continue            # reported by pt_variants
        rt_of = cb.Resolver(c.mod)
        env, ty, _ = c03.terms(c)
        check = 'X690.ber_check %s %s DerImpl.corr_fuel %s %s %s %s' % (
            to_coq(bool(c.numeric)), env, ty, to_coq(term), to_coq(var),
            to_coq(cb.coq_value(rt_of, c.t, cb.plain(r[1][0]))))

        def report(mv, c=c, var=var, used=used, r=r):
            return ('a re-serialisation (%s) and the value decoded from it do not satisfy X690.ber_sem: %s -> %r; '
                    'the specification reads %r' % (','.join(sorted(used)), var.hex()[:80], r[1][0], mv),
                    dict(kind='sem-variant', spec=c.text, type=c.tname, numeric=c.numeric, data=var.hex(),
                         decoded=repr(r[1][0])[:400], x690=repr(mv)[:400]))
        batch.add(c, check, 'X690.bread %s %s DerImpl.corr_fuel %s %s' % (to_coq(bool(c.numeric)), env, ty, to_coq(term)),
                  report)
        ctx.case(('sem', c03.shape_key(c), ','.join(sorted(used))))
        ctx.count('sem:checked')


def run(ctx):
    if ctx.replay:
        return replay(ctx)
    ctx.rule = ('variants: (type shape, set of rewrite features used: indefinite / padded-length / '
                'long-form-short-length / segmented-octets / segmented-bits / nested-segments-k / set-permuted); '
                'correspondence cases add the input kind (variant, variant+tail, 9 malformed kinds) and outcome class; '
                'non-trivial = at least one rewrite feature used or malformed input')
    # helper layer regenerated from the source (translator/pyfun.py) BEFORE the theorems are checked against it
    import pyfun_tie
    _tie = pyfun_tie.run_tie(ctx, budget=400)
    ok = ctx.coq_props()
    pyfun_tie.report(ctx, _tie, functions=['is_end_of_data', 'detect_end_of_contents_tag', 'read_tag', 'skip_tag', 'decode_length', 'decode_object_identifier_subidentifier'])

    ctx.trusted_base += [
        'Ber/X690.v part 2 (BER trees, bwf, bread): my formalisation of X.690 clause 8, pinned by ber_check on every variant',
        'harness/codec_ber.py: independent TLV parser / rewriter / tag calculator',
        'proposed_fixes/C04-*.diff (and C03-*): the model follows the repaired behaviour']
    known_findings(ctx)
    mods, cases = c03.gen_cases(ctx, 30 if ctx.quick else 450, 3, codec='ber')
    ctx.log('%d modules, %d (type, value) cases' % (len(mods), len(cases)))
    batch = c03.Batch(ctx, mods)
    enc = c03.corr_encode(ctx, batch, cases, codec='ber', cmod=cb, label='BER')
    variants = make_variants(ctx, cases, enc, 3 if ctx.quick else 5)
    ctx.log('%d variants' % len(variants))
    pt_variants(ctx, variants)
    corr_variants(ctx, batch, variants, 1 if ctx.quick else 2)
    sem_variants(ctx, batch, variants)
    c03.scope_checks(ctx, batch, cases, 'dec')
    batch.run()
    ctx.extra['open_theorems'] = OPEN
    if not ok:
        common.proof_broken(ctx)


OPEN = ['ber_roundtrip for types with SET / SET OF / named bits (ber_roundtrip_partial and der_ber_roundtrip are proved)',
        'ber_forward / ber_backward (unknown extension additions, C07)', 'ber_dec_steps (C08)']


def known_findings(ctx):
    for f in common.load_findings('C04'):
        w = f['witness']
        try:
            spec = lib.compile_string(w['spec'], 'ber')
            got = lib.attempt(spec.decode_with_length, w['type'], bytes.fromhex(w['data']))
        except Exception as e:  # noqa
            got = ('err', 'compile:' + type(e).__name__, str(e))
        want = eval(w['value'], {})
        if not (got[0] == 'ok' and cb.plain(got[1][0]) == want):
            ctx.known_finding(f['id'], f['what'])


def replay(ctx):
    doc = json.load(open(ctx.replay))
    r = doc['replay']
    print(json.dumps({k: v for k, v in r.items() if k not in ('spec',)}, indent=1)[:1500])
    if 'spec' in r and 'type' in r:
        print(r['spec'])
        spec = lib.compile_string(r['spec'], 'ber', numeric_enums=bool(r.get('numeric')))
        if 'original' in r:
            print('decode(original) ->', lib.attempt(spec.decode_with_length, r['type'], bytes.fromhex(r['original'])))
        if 'data' in r:
            print('decode(data)     ->', lib.attempt(spec.decode_with_length, r['type'], bytes.fromhex(r['data'])))
