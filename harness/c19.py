"""C19 — Encodings do not depend on how the specification text is organised.

  proofs          Props/C19.v (models Compile/Resolve.v, Compile/Flatten.v)
  correspondence  (a) [compile_named crepaired] (vm_compute) against a
                  structural dump of the types /repo's PER compiler builds, for
                  every named type of generated specifications of the modelled
                  subset, in the canonical and in a reorganised arrangement;
                  (b) [flatten] of every named type agrees between the
                  arrangements (instances of the reorganisation theorems; this
                  also checks the reorganiser of harness/c13c19_gen.py)
  property test   one abstract specification rendered in several arrangements
                  (permute assignments / modules, split into modules with
                  IMPORTS, inline references incl. ones carrying SIZE / range /
                  OPTIONAL / DEFAULT / tags, extract inline sub-types, expand
                  COMPONENTS OF, replace value references), composed at random;
                  for all 8 codecs, every named type: bytes of generated values
                  and decoded values compared across arrangements on /repo
  twin components harness/c19_twins.py (round 5): the same identifier referring to the
                  same named type from several SEQUENCE / SET / CHOICE types or depths,
                  every site with its own combination of constraint / OPTIONAL /
                  DEFAULT / tag, 3 tagging environments, 8 codecs; reference vs
                  inline form at every site separately, order, modules; values
                  directed at the attributes of the other sites; the attributes
                  of the compiled components of all codecs against
                  [attrs (flatten ..)] of Compile/MemberAttrs.v
  witnesses       the refutation witnesses of Props/C19.v and the other repaired
                  defects are replayed on /repo (a difference is a violation);
                  known_findings/C19.json witnesses are re-run and reported as
                  KNOWN-FINDING while they still fail
"""
import copy
import json
import os

import common
from common import to_coq
import lib
import c13c19_gen as G
import c13c19_flat as F
import c19_twins

import asn1tools

IMPORTS = ['Base.Prelude', 'Compile.Descr', 'Compile.Preprocess', 'Compile.Resolve', 'Compile.Flatten']
LF, KF = 30, 30
DEPTH = 4

HDR = 'M DEFINITIONS AUTOMATIC TAGS ::= BEGIN\n%s\nEND\n'

# Defects with a proposed repair: (id, arrangement 1, arrangement 2, codecs, type, value)
REPAIRED_WITNESSES = [
    ('boolean-default-through-reference',
     HDR % 'T ::= BOOLEAN\nS ::= SEQUENCE { x T DEFAULT TRUE }',
     HDR % 'T ::= BOOLEAN\nS ::= SEQUENCE { x BOOLEAN DEFAULT TRUE }',
     ['ber', 'uper', 'jer'], 'S', {}),
    ('size-on-referenced-sequence-of',
     HDR % 'L ::= SEQUENCE OF BOOLEAN\nS ::= SEQUENCE { x L (SIZE(1..2)) }',
     HDR % 'L ::= SEQUENCE OF BOOLEAN\nS ::= SEQUENCE { x SEQUENCE (SIZE(1..2)) OF BOOLEAN }',
     ['per', 'uper'], 'S', {'x': [True, False]}),
    ('size-on-referenced-bit-string',
     HDR % 'B ::= BIT STRING\nS ::= SEQUENCE { x B (SIZE(4)) }',
     HDR % 'B ::= BIT STRING\nS ::= SEQUENCE { x BIT STRING (SIZE(4)) }',
     ['per', 'uper', 'oer', 'jer'], 'S', {'x': (b'\xa0', 4)}),
    ('size-on-referenced-string-oer',
     HDR % 'A ::= IA5String\nS ::= SEQUENCE { x A (SIZE(3)) }',
     HDR % 'A ::= IA5String\nS ::= SEQUENCE { x IA5String (SIZE(3)) }',
     ['oer'], 'S', {'x': 'abc'}),
    ('range-bound-looked-up-in-module-of-referenced-type',
     'M DEFINITIONS AUTOMATIC TAGS ::= BEGIN IMPORTS T FROM N; v INTEGER ::= 5 S ::= SEQUENCE { x T (0..v) } END\n'
     'N DEFINITIONS AUTOMATIC TAGS ::= BEGIN T ::= INTEGER END\n',
     HDR % 'v INTEGER ::= 5\nT ::= INTEGER\nS ::= SEQUENCE { x T (0..v) }',
     ['per', 'uper', 'oer'], 'S', {'x': 3}),
    ('components-of-depends-on-module-order',
     'B DEFINITIONS AUTOMATIC TAGS ::= BEGIN T ::= SEQUENCE { a INTEGER, b BOOLEAN } END\n'
     'A DEFINITIONS AUTOMATIC TAGS ::= BEGIN IMPORTS T FROM B; S ::= SEQUENCE { x INTEGER, COMPONENTS OF T } END\n',
     'A DEFINITIONS AUTOMATIC TAGS ::= BEGIN IMPORTS T FROM B; S ::= SEQUENCE { x INTEGER, COMPONENTS OF T } END\n'
     'B DEFINITIONS AUTOMATIC TAGS ::= BEGIN T ::= SEQUENCE { a INTEGER, b BOOLEAN } END\n',
     ['ber', 'der'], 'S', {'x': 1, 'a': 2, 'b': True}),
    ('extensibility-implied-skips-elements',
     'M DEFINITIONS AUTOMATIC TAGS EXTENSIBILITY IMPLIED ::= BEGIN\nS ::= SEQUENCE OF SEQUENCE { a BOOLEAN }\nEND\n',
     'M DEFINITIONS AUTOMATIC TAGS EXTENSIBILITY IMPLIED ::= BEGIN\nE ::= SEQUENCE { a BOOLEAN }\nS ::= SEQUENCE OF E\nEND\n',
     ['per', 'uper'], 'S', [{'a': True}]),
    ('mutual-recursion-across-modules',
     HDR % 'X ::= SEQUENCE OF T\nT ::= SEQUENCE { k X }',
     'Ma DEFINITIONS AUTOMATIC TAGS ::= BEGIN IMPORTS T FROM Mb; X ::= SEQUENCE OF T END\n'
     'Mb DEFINITIONS AUTOMATIC TAGS ::= BEGIN IMPORTS X FROM Ma; T ::= SEQUENCE { k X } END\n',
     ['ber', 'uper', 'gser'], 'T', {'k': [{'k': []}]}),
]


def cls(r):
    return r if r[0] == 'ok' else r[:2]


def show(r):
    if r[0] == 'ok':
        v = r[1]
        return ('ok', v.hex() if isinstance(v, (bytes, bytearray)) else repr(v))
    return r[:2]


_parsed = {}
_compiled = {}


def compiled_for(text, codec):
    """lib.attempt result of compiling [text] for [codec]; the text is parsed once."""
    key = (text, codec)
    if key not in _compiled:
        if len(_compiled) > 400:
            _compiled.clear()
            _parsed.clear()
        if text not in _parsed:
            _parsed[text] = lib.attempt(asn1tools.parse_string, text)
        p = _parsed[text]
        _compiled[key] = p if p[0] != 'ok' else lib.attempt(asn1tools.compile_dict, copy.deepcopy(p[1]), codec)
    return _compiled[key]


def compare_pair(text1, text2, codecs, tname, value):
    """None when the two arrangements behave alike, else a description."""
    for codec in codecs:
        c1 = compiled_for(text1, codec)
        c2 = compiled_for(text2, codec)
        if c1[0] != c2[0] or (c1[0] == 'err' and c1[1] != c2[1]):
            return '%s: compile %s vs %s' % (codec, 'ok' if c1[0] == 'ok' else c1[1:3], 'ok' if c2[0] == 'ok' else c2[1:3])
        if c1[0] != 'ok':
            continue
        e1 = lib.attempt(c1[1].encode, tname, value)
        e2 = lib.attempt(c2[1].encode, tname, value)
        if cls(e1) != cls(e2):
            return '%s: encode %r vs %r' % (codec, show(e1), show(e2))
        if e1[0] == 'ok':
            d1 = lib.attempt(c1[1].decode, tname, e1[1])
            d2 = lib.attempt(c2[1].decode, tname, e1[1])
            if cls(d1) != cls(d2):
                return '%s: decode %r vs %r' % (codec, show(d1), show(d2))
    return None


def witnesses(ctx):
    for wid, t1, t2, codecs, tname, value in REPAIRED_WITNESSES:
        ctx.case(('witness', wid), dict(kind='pair', id=wid, arrangement1=t1, arrangement2=t2, codecs=codecs,
                                        type=tname, value=repr(value)))
        r = compare_pair(t1, t2, codecs, tname, value)
        ctx.count('witness:' + ('same' if r is None else 'differs'))
        if r is not None:
            ctx.violation('two arrangements of the same specification behave differently [%s]: %s' % (wid, r),
                          dict(kind='pair', id=wid, arrangement1=t1, arrangement2=t2, codecs=codecs, type=tname,
                               value=repr(value)))


def known_findings(ctx):
    for f in common.load_findings('C19'):
        w = f['witness']
        r = compare_pair(w['arrangement1'], w['arrangement2'], w['codecs'], w['type'], eval(w['value']))
        ctx.case(('known', f['id']))
        if r is not None:
            ctx.known_finding(f['id'], f['what'] + ' [' + r + ']')
        else:
            ctx.log('known finding %s no longer reproduces' % f['id'])


# ---------------------------------------------------------------------------
# the same type name in two modules against unique names

def dup_name_cases(ctx, n):
    """Two modules each define a type called Dup (different types) and use it under the same member
    name; renaming one of them consistently must change nothing."""
    import gen_asn1
    rng = ctx.rng
    for _ in range(n):
        g = gen_asn1.Gen(rng, gen_asn1.Opts(max_depth=1, recursion=False, kinds=set(gen_asn1.DEFAULT_KINDS) - {'REF'}))
        g.pending = {}
        ta, tb = g.gen_type(1, allow_ref=False), g.gen_type(1, allow_ref=False)
        ra, rb = G.r_type(ta, None), G.r_type(tb, None)
        opt = rng.choice(['', ' OPTIONAL'])

        def text(na, nb, inline=False):
            ua, ub = (ra, rb) if inline else (na, nb)
            return ('A DEFINITIONS AUTOMATIC TAGS ::= BEGIN\n%s ::= %s\nSA ::= SEQUENCE { m %s%s, n %s }\n'
                    'SA2 ::= SEQUENCE { m %s, q BOOLEAN }\nEND\n'
                    'B DEFINITIONS AUTOMATIC TAGS ::= BEGIN\n%s ::= %s\nSB ::= SEQUENCE { m %s, k SEQUENCE OF %s }\nEND\n'
                    % (na, ra, ua, opt, ua, ua, nb, rb, ub, ub))
        t1, t2, t3 = text('Dup', 'Dup'), text('DupA', 'DupB'), text('DupA', 'DupB', inline=True)
        va = {'m': g.gen_value(ta), 'n': g.gen_value(ta)}
        va2 = {'m': g.gen_value(ta), 'q': True}
        vb = {'m': g.gen_value(tb), 'k': [g.gen_value(tb)]}
        ctx.case(('dup', ta['k'], tb['k'], opt))
        ctx.count('dup-name')
        codecs = [c for c in G.CODECS if c != 'xer']
        done = False
        for other, what in ((t2, 'a type name used in two modules'), (t3, 'references against the inline form')):
            for tname, v in (('SA', va), ('SA2', va2), ('SB', vb)):
                r = compare_pair(t1, other, codecs, tname, v)
                if r is not None:
                    ctx.violation('%s: %s' % (what, r),
                                  dict(kind='pair', id='same-names', arrangement1=t1, arrangement2=other,
                                       codecs=codecs, type=tname, value=repr(v)))
                    done = True
                    break
            if done:
                break

# ---------------------------------------------------------------------------
# tagged references that reach a CHOICE through a chain of references, only the first name imported

def choice_chain_cases(ctx, n):
    """S ::= SEQUENCE { m [k] A2, ... }  A2 ::= A1  A1 ::= C  C ::= CHOICE {...}: a tag on a CHOICE is
    EXPLICIT whatever the module default says, and pre_process finds that out by following the chain of
    references into the modules that define the names.  One module against the definitions spread over
    modules in which the referencing module imports only the first name of the chain."""
    import gen_asn1
    rng = ctx.rng
    for _ in range(n):
        g = gen_asn1.Gen(rng, gen_asn1.Opts(max_depth=1, recursion=False, kinds=set(gen_asn1.DEFAULT_KINDS) - {'REF', 'SET'},
                                            defaults=False, named_bits=False, named_numbers=False))
        g.pending = {}
        tags = rng.choice(['IMPLICIT', 'IMPLICIT', 'AUTOMATIC', 'EXPLICIT'])
        nalt = rng.randrange(1, 4)
        choice = {'k': 'CHOICE', 'root': [{'name': 'c%d' % i, 't': g.gen_type(1, allow_ref=False), 'opt': None,
                                           'tag': ('', i, '')} for i in range(nalt)], 'ext': None}
        chain = rng.randrange(1, 4)                    # number of reference steps from the member to the CHOICE
        types = [('C', choice)]
        prev = 'C'
        for i in range(chain - 1):
            types.append(('A%d' % (i + 1), {'k': 'REF', 'name': prev, 'size': None, 'c': None}))
            prev = 'A%d' % (i + 1)
        other = g.gen_type(1, allow_ref=False)
        members = [{'name': 'm', 't': {'k': 'REF', 'name': prev, 'size': None, 'c': None},
                    'opt': rng.choice([None, 'optional']), 'tag': ('', rng.choice([1, 7, 40]), '')},
                   {'name': 'o', 't': other, 'opt': None, 'tag': ('', 2, '')}]
        rng.shuffle(members)
        holder = rng.choice(['SEQUENCE', 'SEQUENCE', 'SET'])
        types.append(('S', {'k': holder, 'root': members, 'ext': None}))
        if rng.random() < .4:
            types.append(('L', {'k': 'SEQUENCE OF', 'elem': {'k': 'REF', 'name': 'S', 'size': None, 'c': None},
                                'size': None}))
        spec = G.Spec(tags, False, types, [])
        one = G.arrange(rng, spec, reorganise=False, nmods=1)
        # every definition in a module of its own choice, S never together with the rest of the chain
        names = ['Ma', 'Mb', 'Mc', 'Md']
        mods = [{'name': nm, 'tags': tags, 'ext_implied': False, 'types': [], 'values': []} for nm in names]
        for nt in types:
            if nt[0] in ('S', 'L'):
                mods[0]['types'].append(nt)
            else:
                rng.choice(mods[1:])['types'].append(nt)
        mods = [m for m in mods if m['types']]
        rng.shuffle(mods)
        t1, t2 = G.render_text(one), G.render_text(mods)
        vg = G.value_gen(rng, spec)
        eff = dict(vg.types)
        ctx.case(('chain', tags, chain, holder, len(mods)), dict(kind='pair', arrangement1=t1, arrangement2=t2))
        ctx.count('choice-chain:%d' % chain)
        codecs = [c for c in G.CODECS if c != 'xer'] + ['xer']
        for tname in [n for n, _ in types if n in ('S', 'L')]:
            bad = False
            for _ in range(2):
                v = vg.gen_value(eff[tname])
                r = compare_pair(t1, t2, codecs, tname, v)
                if r is not None:
                    ctx.violation('a tagged reference that reaches a CHOICE through %d reference step(s), one module '
                                  'against IMPORTS of the first name only: %s' % (chain, r),
                                  dict(kind='pair', id='tagged-reference-chain-to-choice', arrangement1=t1,
                                       arrangement2=t2, codecs=codecs, type=tname, value=repr(v)))
                    bad = True
                    break
            if bad:
                break


# ---------------------------------------------------------------------------
# property test on /repo

def arrangement_texts(ctx, spec, narr, so_kinds=G.ALL_KINDS):
    arrs = []
    for i in range(narr):
        log = []
        mods = G.arrange(ctx.rng, spec, reorganise=i > 0, nmods=None if i else 1, log=log,
                         keep_compof_order=False, kinds=so_kinds)
        arrs.append((G.render_text(mods), log, mods))
    return arrs


def tree_cases(ctx, n, narr, nvals):
    """A recursive list whose cycle goes through an alias (L ::= SEQUENCE OF N, N { .. kids C OPTIONAL },
    C ::= L) and a type that refers to it with a SIZE constraint (D { .. roots L (SIZE(a..b)) }), in the
    canonical order and in random permutations / splits: the order of the assignments and of the modules
    decides which type is compiled while which other one is on the recursion-detection stack."""
    import gen_asn1
    rng = ctx.rng
    for i in range(n):
        g = gen_asn1.Gen(rng, gen_asn1.Opts(max_depth=1, recursion=False, named_numbers=False,
                                            kinds=set(gen_asn1.DEFAULT_KINDS) - {'REF', 'SET'}))
        g.pending = {}
        spec = G.Spec(rng.choice(['AUTOMATIC', 'AUTOMATIC', 'IMPLICIT']), False, [], [])
        G.add_tree_family(rng, g, spec, i, force_size=True)
        if spec.tags != 'AUTOMATIC':
            G.mk_tags(rng, spec, G.SpecOpts(top_tags=False))
        ctx.count('tree-family')
        pt_one_spec(ctx, spec, narr, nvals, kinds=('permute', 'split', 'alias', 'extract', 'inline'))


def pt_arrangements(ctx, nspecs, narr, nvals):
    for _ in range(nspecs):
        spec, g = G.gen_spec(ctx.rng)
        pt_one_spec(ctx, spec, narr, nvals)


def pt_one_spec(ctx, spec, narr, nvals, kinds=G.ALL_KINDS):
    rng = ctx.rng
    if True:
        vg = G.value_gen(rng, spec)
        eff = dict(vg.types)
        names = [n for n, _ in spec.types]
        vals = {}
        for n in names:
            vs = []
            for _ in range(nvals):
                try:
                    vs.append(vg.gen_value(eff[n]))
                except RecursionError:
                    pass
            vals[n] = vs
        arrs = arrangement_texts(ctx, spec, narr, kinds)
        parsed = []
        for text, log, _ in arrs:
            r = lib.attempt(asn1tools.parse_string, text)
            if r[0] != 'ok':
                ctx.violation('an arrangement does not parse: %s' % (r[1:],),
                              dict(kind='arrangements', arrangement1=arrs[0][0], arrangement2=text, steps=log))
                parsed = None
                break
            parsed.append(r[1])
        if parsed is None:
            return
        kinds = sorted({l.split()[0] for _, log, _ in arrs for l in log})
        ctx.case(('spec', spec.tags, spec.ext_implied, len(arrs[0][0]) // 60, tuple(kinds)),
                 dict(kind='arrangements', arrangement1=arrs[0][0][:400], steps=arrs[1][1] if narr > 1 else []))
        for l in kinds:
            ctx.count('reorganisation:' + l)
        ctx.count('tags:' + spec.tags)
        for codec in G.CODECS:
            if codec == 'xer' and spec.has_tree:
                continue        # known finding xer-recursive-element-wrapper
            comp = [lib.attempt(asn1tools.compile_dict, copy.deepcopy(d), codec) for d in parsed]
            c0 = comp[0]
            for i in range(1, narr):
                ci = comp[i]
                here = dict(kind='arrangements', codec=codec, arrangement1=arrs[0][0], arrangement2=arrs[i][0],
                            steps=arrs[i][1])
                ctx.evaluations += 1
                if c0[0] != ci[0] or (c0[0] == 'err' and c0[1] != ci[1]):
                    ctx.violation('%s: the canonical arrangement %s, the reorganised one %s' % (
                        codec, 'compiles' if c0[0] == 'ok' else 'raises %s' % (c0[1:3],),
                        'compiles' if ci[0] == 'ok' else 'raises %s' % (ci[1:3],)), here)
                    break
                if c0[0] != 'ok':
                    ctx.count('pt:compile-error-both:' + c0[1])
                    continue
                elem_renamed = any('[elem]' in l or 'at top' in l for l in arrs[i][1])
                bad = False
                for n in names:
                    for v in vals[n]:
                        ctx.evaluations += 1
                        e0 = lib.attempt(c0[1].encode, n, v)
                        ei = lib.attempt(ci[1].encode, n, v)
                        if codec == 'xer' and elem_renamed and e0[0] == ei[0] == 'ok':
                            # X.693: the items of a SEQUENCE OF are named after the type reference
                            # (or the built-in type) of the element: renaming is required there
                            pass
                        elif cls(e0) != cls(ei):
                            ctx.violation('%s: encodings of %s differ between two arrangements: %r vs %r' % (
                                codec, n, show(e0), show(ei)), dict(here, type=n, value=repr(v)))
                            bad = True
                            break
                        if e0[0] != 'ok':
                            continue
                        d0 = lib.attempt(c0[1].decode, n, e0[1])
                        # (XER with renamed items: each arrangement decodes its own encoding)
                        di = lib.attempt(ci[1].decode, n, ei[1] if codec == 'xer' and elem_renamed and ei[0] == 'ok' else e0[1])
                        if cls(d0) != cls(di):
                            ctx.violation('%s: decoded values of %s differ between two arrangements: %r vs %r' % (
                                codec, n, show(d0), show(di)), dict(here, type=n, value=repr(v), data=e0[1].hex()))
                            bad = True
                            break
                    if bad:
                        break
                if bad:
                    break


# ---------------------------------------------------------------------------
# correspondence with the model

def model_opts():
    import gen_asn1
    return G.SpecOpts(compof=False, top_tags=False, explicit_tags=False, tag_modes=['AUTOMATIC'], n_types=4,
                      base_opts=dict(kinds=set(gen_asn1.DEFAULT_KINDS) - {'SET', 'OBJECT IDENTIFIER'},
                                     named_numbers=False, named_bits=False, groups=False, alphabets=False,
                                     str_kinds=['IA5String']))


def gen_model_spec(ctx):
    """A specification inside the modelled subset."""
    for _ in range(50):
        spec, g = G.gen_spec(ctx.rng, model_opts())
        try:
            F.ex_env(G.arrange(ctx.rng, spec, reorganise=False, nmods=1))
        except F.Unsupported:
            continue
        return spec
    raise RuntimeError('no specification of the modelled subset generated')


def corr_model(ctx, ncases):
    rng = ctx.rng
    cases = []
    for _ in range(ncases):
        spec = gen_model_spec(ctx)
        names = [n for n, _ in spec.types]
        m1 = G.arrange(rng, spec, reorganise=False, nmods=1)
        log = []
        m2 = G.arrange(rng, spec, reorganise=True, log=log, kinds=('inline', 'extract', 'values', 'split', 'permute'))
        for mods in (m1, m2):
            text = G.render_text(mods)
            where = {n: m['name'] for m in mods for n, _ in m['types']}
            r = lib.attempt(asn1tools.compile_string, text, 'per')
            dumps = {}
            if r[0] == 'ok':
                for n in names:
                    try:
                        dumps[n] = F.n_dump(F.d_type(r[1].modules[where[n]][n].type, DEPTH, (spec.tags, spec.ext_implied)))
                    except F.Unsupported as e:
                        dumps[n] = ('unsupported', str(e))
            cases.append(dict(text=text, env=F.ex_env(mods), names=names, where=where, compiled=r, dumps=dumps, log=log))
        ctx.case(('model', spec.ext_implied, len(names), tuple(sorted({l.split()[0] for l in log}))))
    body = 'Definition cases : list (senv * list (string * string)) := %s.\n' % to_coq(
        [(c['env'], [(c['where'][n], n) for n in c['names']]) for c in cases])
    body += ('Eval vm_compute in map (fun c => map (fun q => (flatten %d %d (fst c) %d (fst q) (snd q), '
             'compile_named crepaired %d %d (fst c) %d (fst q) (snd q))) (snd c)) cases.\n'
             % (LF, KF, DEPTH, LF, KF, DEPTH))
    (res,) = ctx.coq_eval('corr', IMPORTS, body)
    agree = total = 0
    for idx, (c, rows) in enumerate(zip(cases, res)):
        for n, (fl, cm) in zip(c['names'], rows):
            total += 1
            ctx.evaluations += 1
            ok = True
            if c['compiled'][0] != 'ok':
                if isinstance(cm, common.C) and cm.name == 'Ok':
                    ok = False
                    ctx.violation('the model compiles %s, /repo raises %s' % (n, c['compiled'][1:3]),
                                  dict(kind='corr-compile', spec=c['text'], type=n))
            elif isinstance(c['dumps'][n], tuple):
                ok = False
                ctx.violation('dump of the compiled type failed: %s' % (c['dumps'][n][1],),
                              dict(kind='corr-compile', spec=c['text'], type=n), no_input=True)
            elif not (isinstance(cm, common.C) and cm.name == 'Ok'):
                ok = False
                ctx.violation('/repo compiles %s, the model answers %r' % (n, cm),
                              dict(kind='corr-compile', spec=c['text'], type=n))
            else:
                got, want = c['dumps'][n], F.n_model(cm.args[0])
                if got != want:
                    ok = False
                    a, b = to_coq_loose(got), to_coq_loose(want)
                    j = next((k for k in range(min(len(a), len(b))) if a[k] != b[k]), min(len(a), len(b)))
                    ctx.violation('the type /repo\'s PER compiler builds for %s differs from the model: impl ...%s... '
                                  'model ...%s...' % (n, a[max(0, j - 60):j + 80], b[max(0, j - 60):j + 80]),
                                  dict(kind='corr-compile', spec=c['text'], type=n, impl=a[:600], model=b[:600]))
            # theorem instance: with the repairs compile is the unfolding (where env_ok)
            agree += ok
        # reorganisation preserves flatten (pairs are consecutive)
        if idx % 2 == 1:
            prev = res[idx - 1]
            for n, (fl1, _), (fl2, _) in zip(c['names'], prev, rows):
                ctx.evaluations += 1
                if fl1 != fl2:
                    ctx.violation('flatten of %s differs between the canonical and the reorganised arrangement in the '
                                  'MODEL (the reorganiser of the harness is not meaning preserving, or a theorem '
                                  'instance fails)' % n,
                                  dict(kind='corr-flatten', arrangement1=cases[idx - 1]['text'], arrangement2=c['text'],
                                       type=n, steps=c['log']), no_input=True)
                    break
    mv = ctx.extra.setdefault('model_vs_implementation', {'types': 0, 'agree': 0})
    mv['types'] += total
    mv['agree'] += agree
    ctx.log('correspondence: %d/%d compiled types agree with the model' % (agree, total))


def to_coq_loose(t):
    if isinstance(t, common.C):
        return '(' + t.name + ''.join(' ' + to_coq_loose(a) for a in t.args) + ')'
    if isinstance(t, (list, tuple)):
        return '[' + '; '.join(to_coq_loose(x) for x in t) + ']'
    return repr(t)


def replay(ctx):
    doc = json.load(open(ctx.replay))
    r = doc['replay']
    print('replaying', r.get('kind'), r.get('id', ''))
    if r.get('kind') == 'twin':
        c19_twins.replay_one(r)
    elif r.get('kind') in ('pair', 'arrangements') and 'type' in r:
        codecs = r.get('codecs') or [r['codec']]
        print('result:', compare_pair(r['arrangement1'], r['arrangement2'], codecs, r['type'], eval(r['value'])))
    elif r.get('kind') == 'arrangements':
        for codec in [r['codec']]:
            for k in ('arrangement1', 'arrangement2'):
                print(k, codec, show(lib.attempt(asn1tools.compile_string, r[k], codec))[:2])
    else:
        print(json.dumps(r, indent=1)[:3000])


def run(ctx):
    if ctx.replay:
        return replay(ctx)
    ctx.rule = ('PT cases: abstract specification (tag default x EXTENSIBILITY IMPLIED x constructs) x set of '
                'reorganisation kinds applied (inline / extract / expand / values / modules); distinct by (tag default, '
                'ext-implied, text size class, kinds); every one compares >= 2 arrangements over 8 codecs, all named types, '
                'generated values; model cases: specification of the modelled subset x arrangement, every named type')
    ctx.trusted_base += [
        'harness/c13c19_gen.py: the reorganisations are meaning preserving (checked on the modelled subset by '
        'evaluating flatten on both arrangements)',
        'harness/c13c19_flat.py: exporter of abstract specifications and dump of compiled PER types',
        'harness/c19_twins.py: generator of twin components, inliner at a single site, reader of the OPTIONAL / DEFAULT '
        'attributes of the compiled objects of the 8 codecs',
        'X.693: XER names the items of SEQUENCE OF after the type reference; XER bytes are not compared when an '
        'element-position reference is inlined or extracted (decoded values are)',
    ]
    ctx.assumptions += [
        'model variant [crepaired]: proposed_fixes/C19-*.diff applied to /repo',
        'generator exclusions = known findings: size-on-element-reference, components-of-nested, '
        'components-of-cross-module-scope (see known_findings/C19.json and notes/C19.md)',
        'all modules of one specification share the tagging default and EXTENSIBILITY IMPLIED (moving a definition '
        'between modules with different defaults changes its meaning)',
    ]
    ok = ctx.coq_props()
    ctx.log('proofs checked: %s' % ok)
    ctx.extra['open'] = ['whole-specification form of inline/extract (C19_inline_ref_flatten is stated at the point of use); '
                         'instances evaluated by vm_compute and tested on /repo']
    witnesses(ctx)
    known_findings(ctx)
    dup_name_cases(ctx, 6 if ctx.quick else 80)
    choice_chain_cases(ctx, 10 if ctx.quick else 150)
    tree_cases(ctx, 8 if ctx.quick else 100, 4, 3)
    ok = c19_twins.run_cases(ctx, 30 if ctx.quick else 600) and ok
    ctx.log('twin components done')
    pt_arrangements(ctx, 40 if ctx.quick else 350, 3, 3 if ctx.quick else 4)
    ctx.log('property test done')
    total = 12 if ctx.quick else 150
    done = 0
    while done < total:
        n = min(25, total - done)
        corr_model(ctx, n)
        done += n
    if not ok:
        common.proof_broken(ctx)
