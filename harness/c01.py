"""C01 — binary codecs round-trip every value of every compilable type."""
import json

import common
import codec_common as CC
import gen_asn1 as G
import lib
import xcodec as X
import boundary


def rerun_findings(ctx):
    for f in common.load_findings(ctx.pid):
        w = f['witness']
        still = False
        for codec in w.get('codecs', X.BINARY):
            r = lib.attempt(lib.compile_string, w['spec'], codec, numeric_enums=w.get('numeric_enums', False))
            if r[0] != 'ok':
                still = True
                continue
            v = eval(w['value'])
            e = lib.attempt(r[1].encode, w['type'], v, check_constraints=True)
            if e[0] != 'ok':
                still = True
                continue
            d = lib.attempt(r[1].decode, w['type'], e[1])
            if w.get('repr'):
                still = still or d[0] != 'ok' or repr(d[1]) != eval(w['expect'])
            else:
                still = still or d[0] != 'ok' or d[1] != eval(w.get('expect', w['value']))
        if still:
            ctx.known_finding(f['id'], f['what'])


REAL_TEXT = '''M DEFINITIONS AUTOMATIC TAGS ::= BEGIN
R ::= REAL
S ::= SEQUENCE { a BOOLEAN, r REAL, l SEQUENCE OF REAL, o REAL OPTIONAL }
END
'''


def real_values(rng, n_random):
    import math
    import struct
    vals = [0.0, float('inf'), float('-inf'), 1.0, -1.0, 0.5, 0.1, 1e300, -1e300, 5e-324, -5e-324,
            1.7976931348623157e308, 2.2250738585072014e-308, 1e-23, 9.5e-24, 1e22, 123456789.125]
    # every binary exponent the one- and two-octet exponent forms distinguish, with 1-, 2- and 53-bit mantissas
    for e in list(range(-1074, -1060)) + list(range(-300, -100, 7)) + list(range(-140, -115)) + list(range(-20, 20)) + \
            list(range(115, 140)) + list(range(900, 1024, 9)) + [1022, 1023]:
        for m in (1.0, 1.5, 1.9999999999999998):
            try:
                x = math.ldexp(m, e)
            except OverflowError:
                continue
            if x != 0.0 and not math.isinf(x):
                vals += [x, -x]
    for _ in range(n_random):
        x = struct.unpack('>d', struct.pack('>Q', rng.getrandbits(64)))[0]
        if not math.isnan(x):
            vals.append(x)
    return vals


def pt_real(ctx, n_random):
    """REAL is outside the modelled universe: the round trip is executed on /repo, compared by float.hex()."""
    import math
    vals = real_values(ctx.rng, n_random)
    for codec in X.BINARY:
        spec = lib.compile_string(REAL_TEXT, codec)
        for i, x in enumerate(vals):
            for tn, v in (('R', x), ('S', {'a': True, 'r': x, 'l': [x, 1.0], 'o': (-x if x != 0.0 else 2.5)})) if i % 7 == 0 else (('R', x),):
                ctx.case(('real', codec, tn, math.frexp(x)[1] if math.isfinite(x) else str(x)), None)
                ctx.count('pt-real:%s' % codec)
                e = lib.attempt(spec.encode, tn, v)
                d = lib.attempt(spec.decode, tn, e[1]) if e[0] == 'ok' else e
                def hx(y):
                    return y.hex() if isinstance(y, float) else repr(y)
                same = d[0] == 'ok' and (hx(d[1]) == hx(v) if tn == 'R' else
                                         isinstance(d[1], dict) and hx(d[1].get('r')) == hx(x) and
                                         [hx(z) for z in d[1].get('l', [])] == [hx(x), hx(1.0)] and hx(d[1].get('o')) == hx(-x if x != 0.0 else 2.5))
                if same:
                    e2 = lib.attempt(spec.encode, tn, d[1])
                    same = e2[0] == 'ok' and (codec == 'ber' or e2[1] == e[1])
                if not same:
                    ctx.violation('%s: REAL %s (%s) does not round-trip: %s' % (codec, x.hex(), tn, repr(d[1:])[:120]),
                                  dict(spec=REAL_TEXT, codec=codec, type=tn, value=repr(v), kind='real-roundtrip'))
                    break


def run(ctx):
    if ctx.replay:
        doc = json.load(open(ctx.replay))['replay']
        spec = lib.compile_string(doc['spec'], doc['codec'], numeric_enums=doc.get('numeric_enums', False))
        e = lib.attempt(spec.encode, doc['type'], eval(doc['value']), check_constraints=True)
        print('encode:', e if e[0] != 'ok' else e[1].hex())
        if e[0] == 'ok':
            print('decode:', lib.attempt(spec.decode, doc['type'], e[1]))
        return
    ctx.rule = ('modules from harness/gen_asn1.py x boundary-biased constraint-satisfying values x codec in '
                '{uper,per,oer,der,ber} x numeric_enums; distinct by (codec, type shape, value prefix); every case '
                'runs decode(encode(v)) == v (abstract equality), re-encode accepted and byte-identical for the '
                'canonical codecs; modelled codecs are additionally compared with their Coq model')
    ok = ctx.coq_props()
    mods = X.models()
    ctx.extra['modelled_codecs'] = sorted(mods)
    ctx.extra['codecs_covered'] = list(X.BINARY)
    ctx.extra['codecs_not_yet_covered'] = [c for c in X.ALL_BINARY if c not in X.BINARY]
    n = 40 if ctx.quick else 500
    for codec in X.BINARY:
        opts = X.union_opts([codec], mods)
        cases = CC.gen_cases(ctx, opts, n, 2)
        for c in cases:
            if not X.scope_ok(codec, mods, c):
                ctx.count('pt:%s:out-of-scope' % codec)
                continue
            enc = X.pt_roundtrip(ctx, codec, c)
            ctx.case(('pt', codec, G.shape(c.rt, c.t), repr(c.value)[:40], c.numeric),
                     dict(kind='roundtrip', codec=codec, spec=c.text, type=c.tname, value=repr(c.api_value())[:200]))
            ctx.count('pt:%s:%s' % (codec, 'ok' if enc is not None else 'violation'))
        if codec in mods:
            CC.corr_encode_decode(ctx, mods[codec], cases[:len(cases) // 2 if ctx.quick else len(cases)])
    boundary.run(ctx, X.BINARY, mods, lengths=None if not ctx.quick else 'quick', corr_quick=True)
    if not ctx.quick:
        ctx.log('large-length cases')
        big = X.union_opts(X.BINARY, mods, big=True, max_depth=1, n_types=2, recursion=False)
        for c in CC.gen_cases(ctx, big, 60, 2):
            for codec in X.BINARY:
                if X.scope_ok(codec, mods, c):
                    X.pt_roundtrip(ctx, codec, c)
                    ctx.case(('pt-big', codec, G.shape(c.rt, c.t), repr(c.value)[:20]), None)
    ctx.log('REAL sweep')
    pt_real(ctx, 150 if ctx.quick else 5000)
    # REAL contents octets: Coq model (Ber/Real.v, C01_real_roundtrip) vs ber.encode_real / decode_real
    import real_model
    ctx.extra['real_model'] = real_model.run_real(ctx, 120 if ctx.quick else 1500, 620 if ctx.quick else 1400)
    ctx.log('known-finding witnesses')
    rerun_findings(ctx)
    if not ok:
        common.proof_broken(ctx)
