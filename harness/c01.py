"""C01 — binary codecs round-trip every value of every compilable type."""
import json

import common
import codec_common as CC
import gen_asn1 as G
import lib
import xcodec as X
import boundary


def rerun_findings(ctx):
    for f in common.load_findings(ctx.pid):
        w = f['witness']
        still = False
        for codec in w.get('codecs', X.BINARY):
            r = lib.attempt(lib.compile_string, w['spec'], codec, numeric_enums=w.get('numeric_enums', False))
            if r[0] != 'ok':
                still = True
                continue
            v = eval(w['value'])
            e = lib.attempt(r[1].encode, w['type'], v, check_constraints=True)
            if e[0] != 'ok':
                still = True
                continue
            d = lib.attempt(r[1].decode, w['type'], e[1])
            still = still or d[0] != 'ok' or d[1] != eval(w.get('expect', w['value']))
        if still:
            ctx.known_finding(f['id'], f['what'])


def run(ctx):
    if ctx.replay:
        doc = json.load(open(ctx.replay))['replay']
        spec = lib.compile_string(doc['spec'], doc['codec'], numeric_enums=doc.get('numeric_enums', False))
        e = lib.attempt(spec.encode, doc['type'], eval(doc['value']), check_constraints=True)
        print('encode:', e if e[0] != 'ok' else e[1].hex())
        if e[0] == 'ok':
            print('decode:', lib.attempt(spec.decode, doc['type'], e[1]))
        return
    ctx.rule = ('modules from harness/gen_asn1.py x boundary-biased constraint-satisfying values x codec in '
                '{uper,per,oer,der,ber} x numeric_enums; distinct by (codec, type shape, value prefix); every case '
                'runs decode(encode(v)) == v (abstract equality), re-encode accepted and byte-identical for the '
                'canonical codecs; modelled codecs are additionally compared with their Coq model')
    ok = ctx.coq_props()
    mods = X.models()
    ctx.extra['modelled_codecs'] = sorted(mods)
    ctx.extra['codecs_covered'] = list(X.BINARY)
    ctx.extra['codecs_not_yet_covered'] = [c for c in X.ALL_BINARY if c not in X.BINARY]
    n = 40 if ctx.quick else 500
    for codec in X.BINARY:
        opts = X.union_opts([codec], mods)
        cases = CC.gen_cases(ctx, opts, n, 2)
        for c in cases:
            if not X.scope_ok(codec, mods, c):
                ctx.count('pt:%s:out-of-scope' % codec)
                continue
            enc = X.pt_roundtrip(ctx, codec, c)
            ctx.case(('pt', codec, G.shape(c.rt, c.t), repr(c.value)[:40], c.numeric),
                     dict(kind='roundtrip', codec=codec, spec=c.text, type=c.tname, value=repr(c.api_value())[:200]))
            ctx.count('pt:%s:%s' % (codec, 'ok' if enc is not None else 'violation'))
        if codec in mods:
            CC.corr_encode_decode(ctx, mods[codec], cases[:len(cases) // 2 if ctx.quick else len(cases)])
    boundary.run(ctx, X.BINARY, mods, lengths=None if not ctx.quick else 'quick')
    if not ctx.quick:
        big = X.union_opts(X.BINARY, mods, big=True, max_depth=1, n_types=2)
        for c in CC.gen_cases(ctx, big, 60, 2):
            for codec in X.BINARY:
                if X.scope_ok(codec, mods, c):
                    X.pt_roundtrip(ctx, codec, c)
                    ctx.case(('pt-big', codec, G.shape(c.rt, c.t), repr(c.value)[:20]), None)
    rerun_findings(ctx)
    if not ok:
        common.proof_broken(ctx)
