"""C13 — Compiling is independent of what was compiled before from the same
dictionary.

  proofs          Props/C13.v (model Compile/Preprocess.v, variant [repaired])
  correspondence  the model's pre_process / history runner evaluated by
                  vm_compute on the exported parse of generated multi-module
                  specifications vs the dictionary /repo leaves behind after
                  every compile_dict of a random history; exceptions of
                  pre_process compared by class
  property test   on /repo: the codec compiled after a history (<= 6
                  compile_dict calls over 8 codecs x numeric_enums with
                  eval(pformat(d)) / deepcopy steps) is probed against a codec
                  compiled from a fresh parse: bytes, decoded values (absent
                  DEFAULTs of every kind included), error classes, with
                  check_constraints=True so that the type checker and the
                  constraints checker compiled from the same dictionary are
                  exercised too
  side conditions the parser emits plain dict/list/tuple/str/int/None only and
                  eval(pformat(d)) == d before and after compiling;
                  process() after pre_process() does not write to the
                  dictionary (deep compare) for all ten compilers
"""
import copy
import json
import pprint

import common
from common import to_coq
import lib
import gen_asn1
import c13c19_gen as G
import c13c19_export as X
import c13_seq

import asn1tools
from asn1tools.codecs import compiler as base_compiler
from asn1tools.codecs import ber, der, per, uper, oer, jer, xer, gser, type_checker, constraints_checker

COMPILER_MODULES = {'ber': ber, 'der': der, 'per': per, 'uper': uper, 'oer': oer, 'jer': jer, 'xer': xer,
                    'gser': gser, 'type_checker': type_checker, 'constraints_checker': constraints_checker}
COQ_CODEC = {'ber': 'Ber', 'der': 'Der', 'per': 'Per', 'uper': 'Uper', 'oer': 'Oer', 'jer': 'Jer', 'xer': 'Xer',
             'gser': 'Gser'}
IMPORTS = ['Base.Prelude', 'Compile.Descr', 'Compile.Preprocess']
FUEL = 60

# The refutation witness of Props/C13.v (C13_history_independent_refuted_upstream), replayed on /repo.
WITNESS = {
    'spec': 'M DEFINITIONS AUTOMATIC TAGS ::= BEGIN T ::= SEQUENCE { e ENUMERATED { a, b, c } DEFAULT c } END',
    'history': [['der', True], ['der', False]], 'type': 'T', 'data': '3000',
}


def cls(r):
    return r if r[0] == 'ok' else r[:2]


def gen_history(rng):
    n = rng.randrange(2, 7)
    hist = []
    compiles = 0
    if rng.random() < .3:
        hist.append('pformat')               # the dictionary read back from its Python source, then compiled
    while compiles < n and len(hist) < 9:
        p = rng.random()
        if p < .15:
            hist.append('pformat')
        elif p < .25:
            hist.append('deepcopy')
        else:
            hist.append([rng.choice(G.CODECS), rng.random() < .4])
            compiles += 1
    return hist


def coq_history(hist):
    out = []
    for s in hist:
        if s == 'pformat':
            out.append(common.C('SPformatEval'))
        elif s == 'deepcopy':
            out.append(common.C('SDeepcopy'))
        else:
            out.append(common.C('SCompile', common.C(COQ_CODEC[s[0]]), bool(s[1])))
    return out


# Fixed specifications added to the generated ones: a name that is both defined in the module and
# imported (the own module wins in lookup_in_modules), a chain of IMPORTS, COMPONENTS OF of COMPONENTS OF.
EXTRA_TEXTS = [
    'A DEFINITIONS IMPLICIT TAGS ::= BEGIN IMPORTS T FROM B; T ::= CHOICE { a INTEGER, b BOOLEAN } '
    'S ::= SEQUENCE { x [1] T, y [2] U } U ::= T END\n'
    'B DEFINITIONS IMPLICIT TAGS ::= BEGIN T ::= INTEGER END\n',
    'A DEFINITIONS AUTOMATIC TAGS ::= BEGIN IMPORTS T FROM B; S ::= SEQUENCE { x [0] T, COMPONENTS OF V } '
    'V ::= SEQUENCE { COMPONENTS OF W, q BOOLEAN DEFAULT TRUE } W ::= SEQUENCE { p BIT STRING DEFAULT \'0110\'B, ... } END\n'
    'B DEFINITIONS AUTOMATIC TAGS ::= BEGIN IMPORTS T FROM C; END\n'
    'C DEFINITIONS AUTOMATIC TAGS ::= BEGIN T ::= CHOICE { a NULL } END\n',
]


def spec_case(ctx, so=None):
    rng = ctx.rng
    spec, g = G.gen_spec(rng, so)
    vg = G.value_gen(rng, spec)
    mods = G.arrange(rng, spec, reorganise=True, kinds=('split', 'permute'))
    if spec.tags != 'AUTOMATIC' and len(mods) > 1 and rng.random() < .6:
        # modules with different tagging defaults (C13 compares a text with itself, so the meaning of the
        # abstract specification does not have to be preserved)
        for m in mods:
            m['tags'] = rng.choice(['IMPLICIT', 'EXPLICIT'])
    text = G.render_text(mods)
    return spec, vg, text


def ref_default_case(ctx):
    """A SEQUENCE / SET whose members are REFERENCES (directly, through an alias, often imported) to
    BOOLEAN / INTEGER / ENUMERATED / BIT STRING / OCTET STRING types and carry a DEFAULT (TRUE and FALSE
    both): the DEFAULT clean-up by resolved type must be a fixed point from the second pass on."""
    rng = ctx.rng
    g = gen_asn1.Gen(rng, gen_asn1.Opts(max_depth=1, recursion=False, named_numbers=False,
                                        kinds={'BOOLEAN', 'INTEGER', 'ENUMERATED', 'OCTET STRING', 'BIT STRING'}))
    g.pending = {}
    ref = lambda n: {'k': 'REF', 'name': n, 'size': None, 'c': None}
    types = [('Flag', {'k': 'BOOLEAN'})]
    targets = ['Flag']
    for i in range(rng.randrange(1, 4)):
        types.append(('B%d' % i, g.gen_type(1, allow_ref=False)))
        targets.append('B%d' % i)
    for i in range(rng.randrange(0, 3)):                       # aliases
        types.append(('Al%d' % i, ref(rng.choice(targets))))
        targets.append('Al%d' % i)
    td = dict(types)

    def rt(t):
        while t['k'] == 'REF':
            t = td[t['name']]
        return t
    members = []
    picks = ['Flag', 'Flag'] + [rng.choice(targets) for _ in range(rng.randrange(1, 4))]
    for i, tn in enumerate(picks):
        r = rt(ref(tn))
        v = (i == 0) if tn == 'Flag' and i < 2 else g.gen_value(r, simple=True)
        members.append({'name': 'd%d' % i, 't': ref(tn), 'opt': ('default', v)})
    rng.shuffle(members)
    k = rng.randrange(1, len(members) + 1)
    ext = None
    if rng.random() < .4:
        rest = members[k:]
        ext = ([{'group': rest}] if rest and rng.random() < .5 else [{'member': m} for m in rest])
        members = members[:k]
    types.append(('Cfg', {'k': rng.choice(['SEQUENCE', 'SEQUENCE', 'SET']), 'root': members, 'ext': ext}))
    if rng.random() < .4:
        types.append(('Cfgs', {'k': 'SEQUENCE OF', 'elem': ref('Cfg'), 'size': None}))
    spec = G.Spec(rng.choice(['AUTOMATIC', 'AUTOMATIC', 'IMPLICIT', 'EXPLICIT']), rng.random() < .2, types, [])
    if spec.tags != 'AUTOMATIC':
        G.mk_tags(rng, spec, G.SpecOpts(top_tags=False))
    vg = G.value_gen(rng, spec)
    mods = G.arrange(rng, spec, reorganise=True, kinds=('split', 'permute'))
    return spec, vg, G.render_text(mods)


def canon(ex):
    """Key-sorted copy of an exported dictionary: Python's == on dicts ignores
    insertion order, and eval(pformat(d)) returns the dictionary with sorted keys."""
    out = []
    for m in ex:
        name, tags, ext, imports, types, values = m.args
        out.append(common.C('Module', name, tags, ext, sorted(imports), sorted(types, key=lambda nt: nt[0]),
                            sorted(values, key=lambda nv: nv[0])))
    return sorted(out, key=lambda m: m.args[0])


def err_name(r):
    """Exception class name of a lib.attempt result."""
    if r[0] == 'ok':
        return None
    c = r[1]
    return {'compile': 'CompileError'}.get(c, c.split(':')[-1])


def model_err(t):
    """Err kind of a parsed Coq [result]."""
    if isinstance(t, common.C) and t.name == 'Err':
        e = t.args[0]
        if isinstance(e, common.C) and e.name == 'EForeign':
            return e.args[0]
        return e.name if isinstance(e, common.C) else repr(e)
    return None


# ---------------------------------------------------------------------------

def check_plain(ctx, d, text, when):
    bad = X.plain_violation(d)
    if bad is not None:
        ctx.violation('the specification dictionary contains a non-plain object at %r (%s)' % (bad, when),
                      dict(kind='plain', spec=text, path=repr(bad), when=when))
        return False
    try:
        back = eval(pprint.pformat(d))
    except Exception as e:  # noqa
        ctx.violation('eval(pformat(d)) raises %s (%s)' % (type(e).__name__, when), dict(kind='pformat', spec=text, when=when))
        return False
    if back != d:
        ctx.violation('eval(pformat(d)) != d (%s)' % when, dict(kind='pformat', spec=text, when=when))
        return False
    return True


def shared_subobjects(d):
    """Mutable objects (dict / list / bytearray) reachable from two different top-level descriptors of
    the specification dictionary: [(root1, root2, type name of the object)]."""
    seen = {}
    out = []

    def walk(x, root):
        if isinstance(x, (dict, list, bytearray)):
            r = seen.get(id(x))
            if r is not None:
                if r != root:
                    out.append((r, root, type(x).__name__))
                return
            seen[id(x)] = root
            for y in (x.values() if isinstance(x, dict) else x if isinstance(x, list) else ()):
                walk(y, root)
        elif isinstance(x, tuple):
            for y in x:
                walk(y, root)
    for mn, m in d.items():
        for section in ('types', 'values'):
            for n, td in m.get(section, {}).items():
                walk(td, (mn, section, n))
    return out


def check_no_aliasing(ctx, d, text, hist, baseline):
    """After pre_process no mutable sub-object may be shared between two different descriptors unless
    the parser's output already shared it: a pass that fills in one of them would fill in the other."""
    sh = shared_subobjects(d)
    if len(sh) > baseline:
        ctx.violation('after compile_dict a mutable %s is shared between the descriptors %s and %s of the '
                      'specification dictionary' % (sh[0][2], '.'.join(sh[0][0]), '.'.join(sh[0][1])),
                      dict(kind='history', spec=text, history=hist, aliasing=[list(map(list, x[:2])) for x in sh[:3]]))
        return False
    return True


def check_process_pure(ctx, pristine, text, numeric):
    """process() after pre_process() must not write to the dictionary."""
    for cname, mod in COMPILER_MODULES.items():
        d = copy.deepcopy(pristine)
        c = mod.Compiler(d, numeric)
        r = lib.attempt(c.pre_process)
        if r[0] != 'ok':
            return
        snap = copy.deepcopy(d)
        lib.attempt(c.process)
        ctx.case()
        ctx.count('process-pure:' + cname)
        if d != snap:
            ctx.violation('%s.Compiler.process() changes the dictionary after pre_process()' % cname,
                          dict(kind='process-pure', spec=text, compiler=cname, numeric_enums=numeric))
            return


def run_history_impl(ctx, text, d0, hist, names, vals, eff, rt_of, probe=True):
    """Run the history on /repo.  Returns the exported dictionaries after every
    compile step."""
    d = copy.deepcopy(d0)
    pristine = copy.deepcopy(d0)
    base_sharing = len(shared_subobjects(d))
    aliasing_ok = True
    states = []
    for si, step in enumerate(hist):
        if step == 'pformat':
            d2 = eval(pprint.pformat(d))
            if d2 != d:
                ctx.violation('eval(pformat(d)) != d after %d steps' % si, dict(kind='history', spec=text, history=hist[:si + 1]))
            d = d2
            continue
        if step == 'deepcopy':
            d = copy.deepcopy(d)
            continue
        codec, ne = step
        r = lib.attempt(asn1tools.compile_dict, d, codec, None, ne)
        if aliasing_ok:
            ctx.evaluations += 1
            aliasing_ok = check_no_aliasing(ctx, d, text, hist[:si + 1], base_sharing)
        try:
            states.append(X.ex_dict(d))
        except X.Unsupported as e:
            states.append(('unsupported', str(e)))
        if not probe:
            continue
        f = lib.attempt(asn1tools.compile_dict, copy.deepcopy(pristine), codec, None, ne)
        ctx.case()
        ctx.count('pt:compile:%s:%s' % (codec, 'numeric' if ne else 'names'))
        here = dict(kind='history', spec=text, history=hist[:si + 1])
        if r[0] != f[0] or (r[0] == 'err' and r[1] != f[1]):
            ctx.violation('compile_dict after the history %s, from the fresh parse %s' % (
                'succeeds' if r[0] == 'ok' else 'raises ' + r[1], 'succeeds' if f[0] == 'ok' else 'raises ' + f[1]), here)
            return states
        if r[0] == 'err':
            ctx.count('pt:compile-error-both')
            continue
        for n in names:
            for v in vals[n]:
                if ne:
                    v = gen_asn1.to_numeric(rt_of, eff[n], v)
                ctx.evaluations += 1
                e1 = lib.attempt(r[1].encode, n, v, check_constraints=True)
                e2 = lib.attempt(f[1].encode, n, v, check_constraints=True)
                if cls(e1) != cls(e2):
                    ctx.violation('encode differs after the history: %r vs fresh %r' % (show(e1), show(e2)),
                                  dict(here, type=n, value=repr(v), after=show(e1), fresh=show(e2)))
                    return states
                if e2[0] != 'ok':
                    e2 = lib.attempt(f[1].encode, n, v)
                    if e2[0] != 'ok':
                        continue
                d1 = lib.attempt(r[1].decode, n, e2[1])
                d2 = lib.attempt(f[1].decode, n, e2[1])
                if cls(d1) != cls(d2):
                    ctx.violation('decode differs after the history: %r vs fresh %r' % (show(d1), show(d2)),
                                  dict(here, type=n, data=e2[1].hex(), after=show(d1), fresh=show(d2)))
                    return states
    return states


def show(r):
    if r[0] == 'ok':
        v = r[1]
        return ('ok', v.hex() if isinstance(v, (bytes, bytearray)) else repr(v))[:2]
    return r[:2]


def prepare(vg, spec, nvals, rng):
    eff = dict(vg.types)

    def rt_of(t):
        return eff[t['name']] if t['k'] == 'REF' else t
    names = [n for n, _ in spec.types]
    vals = {}
    for n in names:
        vs = []
        for _ in range(nvals):
            try:
                vs.append(vg.gen_value(eff[n]))
            except RecursionError:
                pass
        vals[n] = vs
    return names, vals, eff, rt_of


def corr_and_pt(ctx, ncases, extra=True, targeted=0):
    cases = []
    for text in (EXTRA_TEXTS if extra else []):
        d0 = asn1tools.parse_string(text)
        hist = gen_history(ctx.rng)
        states = run_history_impl(ctx, text, d0, hist, [], {}, {}, None)
        cases.append(dict(text=text, before=X.ex_dict(d0), sorted=X.ex_dict(eval(pprint.pformat(d0))), hist=hist,
                          states=states, pre=lib.attempt(base_compiler.pre_process, copy.deepcopy(d0)), spec=None))
        ctx.case(('extra', text[:40]))
    for i in range(ncases):
        if i < targeted:
            spec, vg, text = ref_default_case(ctx)
            ctx.count('ref-default-case')
        else:
            spec, vg, text = spec_case(ctx)
        try:
            d0 = asn1tools.parse_string(text)
        except Exception as e:  # noqa
            ctx.violation('generated specification does not parse: %s' % e, dict(kind='parse', spec=text))
            continue
        if not check_plain(ctx, d0, text, 'as parsed'):
            continue
        try:
            before = X.ex_dict(d0)
        except X.Unsupported as e:
            ctx.obligation('export', False, str(e))
            ctx.violation('exporter cannot represent the parsed dictionary: %s' % e, dict(kind='export', spec=text),
                          no_input=True)
            continue
        hist = gen_history(ctx.rng)
        names, vals, eff, rt_of = prepare(vg, spec, 2 if ctx.quick else 3, ctx.rng)
        pre = lib.attempt(base_compiler.pre_process, copy.deepcopy(d0))
        states = run_history_impl(ctx, text, d0, hist, names, vals, eff, rt_of)
        ne0 = next(s[1] for s in hist if isinstance(s, list))
        check_process_pure(ctx, d0, text, ne0)
        cases.append(dict(text=text, before=before, sorted=X.ex_dict(eval(pprint.pformat(d0))), hist=hist,
                          states=states, pre=pre, spec=spec))
        ctx.case(('spec', spec.tags, spec.ext_implied, len(text) // 50, tuple(tuple(s) if isinstance(s, list) else s for s in hist)),
                 dict(kind='history', spec=text[:300], history=hist))
        ctx.count('hist:len%d' % len(hist))
        for feat in ('COMPONENTS OF', 'IMPORTS', 'EXTENSIBILITY IMPLIED', 'DEFAULT', "'B", "'H", '[[', 'AUTOMATIC'):
            if feat in text:
                ctx.count('feature:' + feat)
    ctx.log('%d histories run on /repo' % len(cases))
    if not cases:
        return
    # the model on the same inputs, one coqc run
    body = 'Definition cases : list (dict * dict * list step) := %s.\n' % to_coq(
        [(c['before'], c['sorted'], coq_history(c['hist'])) for c in cases])
    body += 'Eval vm_compute in map (fun c => (preprocess %d repaired false (fst (fst c)), ' \
            'run %d repaired view (snd c) (fst (fst c)), preprocess %d repaired true (snd (fst c)))) cases.\n' % (
                FUEL, FUEL, FUEL)
    (res,) = ctx.coq_eval('corr', IMPORTS + ['Compile.PreprocessProofs'], body)
    agree = 0
    for c, (mpre, mrun, msorted) in zip(cases, res):
        ok = True
        # the model itself must not depend on the order of the dictionary keys (eval(pformat(d)) sorts them)
        both_ok = all(isinstance(t, common.C) and t.name == 'Ok' for t in (mpre, msorted))
        if (both_ok and canon(mpre.args[0]) != canon(msorted.args[0])) or \
                (not both_ok and (model_err(mpre) is None) != (model_err(msorted) is None)):
            ok = False
            ctx.violation('the model\'s pre_process depends on the order of the dictionary keys',
                          dict(kind='corr-order', spec=c['text']))
        # pre_process alone: same success / same exception class
        if c['pre'][0] == 'ok':
            if not (isinstance(mpre, common.C) and mpre.name == 'Ok'):
                ok = False
                ctx.violation('pre_process succeeds on /repo, the model answers %r' % (mpre,),
                              dict(kind='corr-pre', spec=c['text'], model=repr(mpre)[:300]))
        else:
            if model_err(mpre) != err_name(c['pre']):
                ok = False
                ctx.violation('pre_process raises %s on /repo, the model answers %s' % (
                    err_name(c['pre']), model_err(mpre) or 'Ok'),
                    dict(kind='corr-pre', spec=c['text'], impl=c['pre'][1:], model=repr(mpre)[:300]))
        if c['pre'][0] == 'ok' and ok:
            want = canon(mpre.args[0])
            for i, st in enumerate(c['states']):
                ctx.evaluations += 1
                if isinstance(st, tuple):
                    ctx.violation('exporter cannot represent the dictionary after compiling: %s' % st[1],
                                  dict(kind='export', spec=c['text']), no_input=True)
                    ok = False
                    break
                if canon(st) != want:
                    ok = False
                    report_dict_mismatch(ctx, c, i, canon(st), want)
                    break
            if ok and c['states'] and not (isinstance(mrun, common.C) and mrun.name == 'Ok' and
                                           canon(mrun.args[0]) == canon(c['states'][-1])):
                ok = False
                ctx.violation('the model\'s history runner ends in a different dictionary than /repo',
                              dict(kind='corr-run', spec=c['text'], history=c['hist']))
        agree += ok
    mv = ctx.extra.setdefault('model_vs_implementation', {'cases': 0, 'agree': 0})
    mv['cases'] += len(cases)
    mv['agree'] += agree
    ctx.log('correspondence: %d/%d histories agree with the model' % (agree, len(cases)))


def report_dict_mismatch(ctx, c, i, got, want):
    a, b = to_coq(got), to_coq(want)
    j = next((k for k in range(min(len(a), len(b))) if a[k] != b[k]), min(len(a), len(b)))
    # is it the upstream (unrepaired) behaviour?
    note = ''
    try:
        nes = [s[1] for s in c['hist'] if isinstance(s, list)][:i + 1]
        body = 'Definition d0 : dict := %s.\n' % to_coq(c['before'])
        body += 'Eval vm_compute in run %d upstream view %s d0.\n' % (FUEL, to_coq(coq_history(
            [s for s in c['hist']][:index_of_compile(c['hist'], i) + 1])))
        (up,) = ctx.coq_eval('corr_up', IMPORTS + ['Compile.PreprocessProofs'], body)
        if isinstance(up, common.C) and up.name == 'Ok' and canon(up.args[0]) == got:
            note = ' (the dictionary is what the UPSTREAM variant of the model computes: /repo lacks a repair the ' \
                   'model assumes, see proposed_fixes/C13-*.diff, C19-*.diff)'
        del nes
    except Exception as e:  # noqa
        note = ' (upstream-variant evaluation failed: %s)' % e
    ctx.violation('after compile step %d of the history the dictionary on /repo differs from the model%s: '
                  'impl ...%s... model ...%s...' % (i + 1, note, a[max(0, j - 80):j + 80], b[max(0, j - 80):j + 80]),
                  dict(kind='corr-dict', spec=c['text'], history=c['hist'], step=i + 1,
                       impl=a[max(0, j - 200):j + 200], model=b[max(0, j - 200):j + 200]))


def index_of_compile(hist, i):
    k = -1
    for idx, s in enumerate(hist):
        if isinstance(s, list):
            k += 1
            if k == i:
                return idx
    return len(hist) - 1


def mixed_default_compof_cases(ctx, n):
    """COMPONENTS OF a type of another module that has a DIFFERENT tagging default, members with a tag
    number but no IMPLICIT / EXPLICIT, modules in random (often non-alphabetical) order in the text, the
    history often starting with eval(pformat(d)) (which sorts the modules), BER / DER first."""
    rng = ctx.rng
    for _ in range(n):
        g = gen_asn1.Gen(rng, gen_asn1.Opts(max_depth=1, recursion=False, kinds=set(gen_asn1.DEFAULT_KINDS) - {'REF', 'SET'},
                                            defaults=False, named_bits=False, named_numbers=False, value_refs=False))
        g.pending = {}

        def member(name, tagno):
            t = g.gen_type(1, allow_ref=False)
            opt = 'optional' if rng.random() < .3 else None
            return {'name': name, 't': t, 'opt': opt,
                    'tag': ('', tagno, rng.choice(['', '', '', 'IMPLICIT', 'EXPLICIT']))}
        inner = {'k': 'SEQUENCE', 'root': [member('i%d' % i, 10 + i) for i in range(rng.randrange(1, 4))], 'ext': None}
        own = [member('o%d' % i, i) for i in range(rng.randrange(0, 3))]
        outer_root = own + [{'compof': 'Inner'}]
        rng.shuffle(outer_root)
        outer = {'k': 'SEQUENCE', 'root': outer_root, 'ext': None}
        spec = G.Spec('IMPLICIT', False, [('Inner', inner), ('Outer', outer)], [])
        names2 = rng.sample(['Ka', 'Kb', 'Zy', 'Zx', 'Mm'], 2)
        da, db = rng.choice([('IMPLICIT', 'EXPLICIT'), ('EXPLICIT', 'IMPLICIT'), ('EXPLICIT', 'AUTOMATIC'),
                             ('IMPLICIT', 'AUTOMATIC')])
        mods = [{'name': names2[0], 'tags': da, 'ext_implied': False, 'types': [('Inner', inner)], 'values': []},
                {'name': names2[1], 'tags': db, 'ext_implied': False, 'types': [('Outer', outer)], 'values': []}]
        rng.shuffle(mods)
        text = G.render_text(mods)
        vg = G.value_gen(rng, spec)
        names, vals, eff, rt_of = prepare(vg, spec, 2, rng)
        hist = (['pformat'] if rng.random() < .7 else []) + [[rng.choice(['ber', 'der']), False],
                                                             [rng.choice(G.CODECS), rng.random() < .3]]
        r = lib.attempt(asn1tools.parse_string, text)
        if r[0] != 'ok':
            ctx.violation('generated specification does not parse: %s' % (r[1:],), dict(kind='parse', spec=text))
            continue
        ctx.case(('mixed', da, db, mods[0]['name'] < mods[1]['name'], hist[0] == 'pformat'),
                 dict(kind='history', spec=text, history=hist))
        ctx.count('mixed-default-compof')
        run_history_impl(ctx, text, r[1], hist, names, vals, eff, rt_of)


def run_witness(ctx, w):
    """Replay of the Coq refutation witness (and of replay files): a fixed history."""
    d = asn1tools.parse_string(w['spec'])
    pristine = copy.deepcopy(d)
    for codec, ne in w['history']:
        r = lib.attempt(asn1tools.compile_dict, d, codec, None, ne)
        f = lib.attempt(asn1tools.compile_dict, copy.deepcopy(pristine), codec, None, ne)
        if r[0] != 'ok' or f[0] != 'ok':
            return ('compile', cls(r)[:2], cls(f)[:2])
    data = bytes.fromhex(w['data'])
    a = lib.attempt(r[1].decode, w['type'], data)
    b = lib.attempt(f[1].decode, w['type'], data)
    return None if cls(a) == cls(b) else ('decode', show(a), show(b))


def replay(ctx):
    doc = json.load(open(ctx.replay))
    r = doc['replay']
    print('replaying', r.get('kind'))
    if r.get('kind') == 'witness':
        print('result:', run_witness(ctx, r))
    elif r.get('kind') == 'seq-history':
        c13_seq.replay(ctx, r)
    elif r.get('kind') == 'history':
        d = asn1tools.parse_string(r['spec'])
        pristine = copy.deepcopy(d)
        for step in r['history']:
            if step == 'pformat':
                d = eval(pprint.pformat(d))
            elif step == 'deepcopy':
                d = copy.deepcopy(d)
            else:
                a = lib.attempt(asn1tools.compile_dict, d, step[0], None, step[1])
                b = lib.attempt(asn1tools.compile_dict, copy.deepcopy(pristine), step[0], None, step[1])
        print('after history:', a[0], ' fresh:', b[0])
        if 'data' in r and a[0] == b[0] == 'ok':
            data = bytes.fromhex(r['data'])
            print('decode after history:', show(lib.attempt(a[1].decode, r['type'], data)))
            print('decode fresh        :', show(lib.attempt(b[1].decode, r['type'], data)))
        if 'value' in r and a[0] == b[0] == 'ok':
            v = eval(r['value'])
            print('encode after history:', show(lib.attempt(a[1].encode, r['type'], v, check_constraints=True)))
            print('encode fresh        :', show(lib.attempt(b[1].encode, r['type'], v, check_constraints=True)))
    else:
        print(json.dumps(r, indent=1)[:2000])


def run(ctx):
    if ctx.replay:
        return replay(ctx)
    ctx.rule = ('cases: generated multi-module specification (tag default x EXTENSIBILITY IMPLIED x IMPORTS x COMPONENTS OF '
                'x BIT/OCTET STRING/BOOLEAN/ENUMERATED DEFAULTs x [[ ]] groups) x history of 2..6 compile_dict calls over '
                '8 codecs x numeric_enums with pformat/eval and deepcopy steps; distinct by (tag default, ext-implied, '
                'text size class, history); every one is non-trivial (>= 2 compilations of a dictionary with >= 1 '
                'constructed type); evaluations count every encode/decode probe and every dictionary comparison')
    ctx.trusted_base += [
        'harness/c13c19_export.py (dictionary -> Coq term, fails closed) and harness/c13c19_gen.py (generator)',
        'process() of each compiler is a function of the pre-processed dictionary (Section variable [process] of '
        'C13_history_independent); its not writing to the dictionary is checked dynamically on every case',
        'pformat/eval and deepcopy are the identity on the model; checked dynamically (plain data, eval(pformat(d)) == d)',
    ]
    ctx.assumptions += [
        'model variant [repaired]: proposed_fixes/C13-numeric-enums-default.diff, '
        'C19-boolean-default-reference.diff, C19-components-of-first.diff, C19-ext-implied-element.diff are applied to /repo',
        'serialisation steps keep the key order in the model; that pre_process does not depend on the key order '
        '(pformat sorts keys) is tested on every case, not proved',
        'parameterised types, object classes and ANY DEFINED BY choices are outside the model (the exporter rejects them)',
    ]
    ok = ctx.coq_props()
    ctx.log('proofs checked: %s' % ok)
    ctx.extra['open'] = ['key-order independence of pre_process (needed for the key-sorting pformat): tested, not proved']
    w = run_witness(ctx, WITNESS)
    ctx.case(('witness',), dict(kind='witness', **WITNESS))
    if w is not None:
        ctx.violation('numeric_enums=True leaks into a later compile of the same dictionary: %r' % (w,),
                      dict(kind='witness', **WITNESS))
    mixed_default_compof_cases(ctx, 10 if ctx.quick else 150)
    total = 70 if ctx.quick else 2000
    done = 0
    while done < total:
        n = min(50, total - done)
        corr_and_pt(ctx, n, extra=done == 0, targeted=12 if done == 0 else 5)
        done += n
    # (run last so that the random stream of the parts above is what it was before round 5)
    # round 5: compile_dict calls that follow each other directly on one dictionary object (no reference
    # compile in between), every codec object of the history probed afterwards, checkers included
    seq_total = 24 if ctx.quick else 600
    seq_done = 0
    while seq_done < seq_total:
        n = min(60, seq_total - seq_done)
        enum_case = c13_seq.with_enum(lambda c: spec_case(c, c13_seq.enum_spec_opts()))
        c13_seq.run_seq_cases(ctx, n, [enum_case, c13_seq.with_enum(ref_default_case), enum_case, spec_case], prepare)
        seq_done += n
    if not ok:
        common.proof_broken(ctx)
