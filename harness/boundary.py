"""Deterministic boundary corpus: fragmentation limits (16K multiples), the 4096-bit chunking of
the PER encoder inside additions, 127/128 length forms, run on every tier.  Values are produced by
the same pattern function in Python and in Coq (Base/Corr.v [pattern]) and results are compared by
digest, so that cases with 100K octets stay cheap."""
import common
from common import C, Raw, to_coq
import codec_common as CC
import gen_asn1 as G
import lib

LENGTHS = [0, 1, 127, 128, 129, 511, 512, 513, 8192, 16383, 16384, 16385, 32767, 32768, 32769, 49151, 49152, 49153,
           65535, 65536, 65537, 81920, 114688]


def pattern(n):
    return bytes((i * 7 + 3) % 251 for i in range(n))


def wsum(data):
    acc = 0
    for i, b in enumerate(data):
        acc = (acc + (i % 65521 + 1) * (b + 1)) % 2147483647
    return acc


def digest(data):
    data = bytes(data)
    return (len(data), wsum(data), list(data[:12]), list(data[max(0, len(data) - 12):]))


def T(k, **kw):
    d = {'k': k}
    d.update(kw)
    return d


OCT = T('OCTET STRING', size=None)
BOOL = T('BOOLEAN')
MODULE = {
    'name': 'B', 'tags': 'AUTOMATIC', 'ext_implied': False, 'values': [],
    'types': [
        ('O', OCT),
        ('S', T('SEQUENCE', root=[{'name': 'h', 't': BOOL, 'opt': None}, {'name': 'd', 't': OCT, 'opt': None}], ext=None)),
        ('G', T('SEQUENCE', root=[{'name': 'id', 't': T('INTEGER', c={'lo': 0, 'hi': 255, 'ext': False}, named=None), 'opt': None}],
                ext=[{'group': [{'name': 'flag', 't': BOOL, 'opt': None}, {'name': 'payload', 't': OCT, 'opt': None}]},
                     {'member': {'name': 'after', 't': BOOL, 'opt': 'optional'}}])),
        ('A', T('SEQUENCE', root=[{'name': 'id', 't': BOOL, 'opt': None}],
                ext=[{'member': {'name': 'a1', 't': OCT, 'opt': 'optional'}},
                     {'member': {'name': 'a2', 't': BOOL, 'opt': 'optional'}}])),
        ('CH', T('CHOICE', root=[{'name': 'x', 't': BOOL, 'opt': None}], ext=[{'name': 'big', 't': OCT, 'opt': None}])),
        ('LO', T('SEQUENCE OF', elem=T('OCTET STRING', size={'lo': 1, 'hi': 1, 'ext': False}), size=None)),
        ('LB', T('SEQUENCE OF', elem=BOOL, size=None)),
        # more than 4096 bits of items that are not whole octets, then something that needs alignment / padding
        ('L3', T('SEQUENCE', root=[{'name': 'l', 't': T('SEQUENCE OF', elem=T('INTEGER', c={'lo': 0, 'hi': 7, 'ext': False}, named=None),
                                                         size=None), 'opt': None},
                                   {'name': 'tail', 't': T('OCTET STRING', size={'lo': 3, 'hi': 3, 'ext': False}), 'opt': None},
                                   {'name': 'last', 't': BOOL, 'opt': None}], ext=None)),
        ('GA', T('SEQUENCE', root=[{'name': 'id', 't': BOOL, 'opt': None}],
                 ext=[{'member': {'name': 'a1', 't': T('SEQUENCE OF', elem=T('INTEGER', c={'lo': 0, 'hi': 7, 'ext': False}, named=None),
                                                        size=None), 'opt': 'optional'}},
                      {'member': {'name': 'a2', 't': T('INTEGER', c={'lo': 0, 'hi': 7, 'ext': False}, named=None), 'opt': 'optional'}}])),
        ('U', T('STRING', sk='UTF8String', size=None, alpha=None)),
    ] + [
        # numbers of extension additions around the multiples of 8 (presence bitmaps, unused-bits octets)
        ('X%d' % k, T('SEQUENCE', root=[{'name': 'a', 't': T('INTEGER', c={'lo': 0, 'hi': 255, 'ext': False}, named=None), 'opt': None}],
                      ext=[{'member': {'name': 'e%d' % i, 't': T('INTEGER', c={'lo': 0, 'hi': 255, 'ext': False}, named=None),
                                       'opt': 'optional'}} for i in range(1, k + 1)]))
        for k in (7, 8, 9, 15, 16, 17, 24)
    ] + [
        ('I', T('STRING', sk='IA5String', size=None, alpha=None)),
    ]}
TEXT = G.render_module(MODULE, G.make_resolver(MODULE))


QUICK = {('O', 127), ('O', 128), ('O', 16383), ('O', 16384), ('O', 49152), ('S', 16384), ('LB', 16384), ('LB', 49152),
         ('I', 16384), ('U', 128), ('G', 513), ('G', 8192), ('A', 513), ('CH', 513), ('CH', 8192), ('LO', 16384),
         ('L3', 1366), ('L3', 1500), ('GA', 1366), ('GA', 1500), ('X7', 7), ('X8', 8), ('X8', 1), ('X9', 9), ('X16', 16), ('X16', 2)}
ODD_WIDTH_COUNTS = [1364, 1365, 1366, 1367, 1500, 2731, 2732]


def cases(lengths, quick=False):
    """(type name, python value, Coq value term) for each template x length."""
    if quick:
        return [c for c in cases(sorted({n for _, n in QUICK})) if (c[0], c[3]) in QUICK]
    out = []
    for n in ODD_WIDTH_COUNTS:
        p = pattern(n)
        l3 = Raw('(VList (map (fun b => VInt (b mod 8)) (pattern %d)))' % n)
        out.append(('L3', {'l': [b % 8 for b in p], 'tail': b'\x01\x02\x03', 'last': True},
                    Raw('(VSeq [("l"%%string, %s); ("tail"%%string, VBytes [1; 2; 3]); ("last"%%string, VBool true)])' % l3), n))
        out.append(('GA', {'id': True, 'a1': [b % 8 for b in p], 'a2': 5},
                    Raw('(VSeq [("id"%%string, VBool true); ("a1"%%string, %s); ("a2"%%string, VInt 5)])' % l3), n))
    for k in (7, 8, 9, 15, 16, 17, 24):
        for present in ([1], [2, k], list(range(1, k + 1))):
            v = {'a': 1}
            v.update({'e%d' % i: (3 * i) % 256 for i in present})
            cv = Raw('(VSeq [("a"%%string, VInt 1)%s])' % ''.join('; ("e%d"%%string, VInt %d)' % (i, (3 * i) % 256) for i in present))
            out.append(('X%d' % k, v, cv, len(present) if len(present) < k else k))
    for n in lengths:
        p = pattern(n)
        pv = Raw('(VBytes (pattern %d))' % n)
        out.append(('O', p, pv, n))
        if n in (0, 1, 127, 128, 16383, 16384, 32768, 49152, 65536, 114688):
            out.append(('S', {'h': True, 'd': p}, Raw('(VSeq [("h"%%string, VBool true); ("d"%%string, %s)])' % pv), n))
        if n <= 8192 or n == 8192:     # an open type of 16384 octets or more is not fragmented by the library (known finding)
            out.append(('G', {'id': 7, 'flag': True, 'payload': p, 'after': True},
                        Raw('(VSeq [("id"%%string, VInt 7); ("flag"%%string, VBool true); ("payload"%%string, %s); '
                            '("after"%%string, VBool true)])' % pv), n))
            out.append(('A', {'id': True, 'a1': p, 'a2': False},
                        Raw('(VSeq [("id"%%string, VBool true); ("a1"%%string, %s); ("a2"%%string, VBool false)])' % pv), n))
            out.append(('CH', ('big', p), Raw('(VChoice "big"%%string %s)' % pv), n))
        if n in (0, 1, 127, 128, 16383, 16384, 16385, 32768, 49152, 65536):
            out.append(('LO', [bytes([b]) for b in p], Raw('(VList (map (fun b => VBytes [b]) (pattern %d)))' % n), n))
            out.append(('LB', [b % 2 == 1 for b in p],
                        Raw('(VList (map (fun b => VBool (Z.odd b)) (pattern %d)))' % n), n))
            s = ''.join(chr(32 + b % 90) for b in p)
            out.append(('I', s, Raw('(VStr (map (fun b => 32 + b mod 90) (pattern %d)))' % n), n))
            out.append(('U', s, Raw('(VStr (map (fun b => 32 + b mod 90) (pattern %d)))' % n), n))
    return out


def trunc_points(enc):
    n = len(enc)
    ks = {0, 1, 2, 3, n - 1, n - 2, n - 3}
    for f in range(16384, n + 16385, 16384):
        for d in (-3, -2, -1, 0, 1, 2, 3, 4):
            ks.add(f + d)
    return sorted(k for k in ks if 0 <= k < n)


def run(ctx, codecs, mods, lengths=None, truncation=False, roundtrip=True, corr_quick=False):
    quick = lengths == 'quick'
    lengths = LENGTHS if lengths is None or quick else lengths
    rt = G.make_resolver(MODULE)
    tdict = dict(MODULE['types'])
    cs = cases(lengths, quick)
    for codec in codecs:
        ctx.log('boundary corpus: %s, %d cases' % (codec, len(cs)))
        spec = lib.compile_string(TEXT, codec)
        rows = []
        for tn, v, cv, n in cs:
            e = lib.attempt(spec.encode, tn, v, check_constraints=True)
            ctx.case(('boundary', codec, tn, n), dict(kind='boundary', codec=codec, type=tn, length=n) if n in (16384, 49152) else None)
            ctx.count('boundary:%s' % codec)
            rep = dict(spec=TEXT, codec=codec, type=tn, kind='boundary', length=n,
                       value='boundary.pattern(%d) in template %s' % (n, tn))
            if e[0] != 'ok':
                ctx.violation('%s: boundary value (%s, %d items) is not encodable: %s %s' % (codec, tn, n, e[1], e[2][:100]), rep)
                continue
            rows.append((tn, v, cv, n, e[1]))
            if roundtrip:
                d = lib.attempt(spec.decode, tn, e[1])
                if d[0] != 'ok' or G.norm(rt, tdict[tn], d[1]) != G.norm(rt, tdict[tn], v):
                    ctx.violation('%s: boundary value (%s, %d items) does not round-trip: %s' % (
                        codec, tn, n, repr(d[1:])[:120]), rep)
                    continue
                e2 = lib.attempt(spec.encode, tn, d[1], check_constraints=True)
                if e2[0] != 'ok' or (codec != 'ber' and e2[1] != e[1]):
                    ctx.violation('%s: boundary value (%s, %d items): re-encoding differs' % (codec, tn, n), rep)
            if truncation:
                for k in trunc_points(e[1]):
                    r = lib.attempt(spec.decode, tn, e[1][:k])
                    ctx.evaluations += 1
                    if r[0] == 'ok' or r[1] != 'decode':
                        ctx.violation('%s: %d-octet prefix of the %d-octet encoding of (%s, %d items) %s' % (
                            codec, k, len(e[1]), tn, n, 'decodes to a value' if r[0] == 'ok' else 'raises ' + r[1]),
                            dict(rep, k=k, kind='boundary-truncation'))
                        break
        if corr_quick:
            # the bit-level comparison with the Coq model on the full corpus belongs to C05/C06; here the quick subset
            rows = [r for r in rows if (r[0], r[3]) in QUICK]
        if codec in mods and rows:
            cm = mods[codec]
            env = to_coq(G.coq_env(MODULE, False))
            shards = []
            per = 2 if quick else 6
            for s in range(0, len(rows), per):
                part = rows[s:s + per]
                pairs = []
                for tn, v, cv, n, enc in part:
                    ty = to_coq(G.coq_type(rt, tdict[tn], False))
                    dg = digest(enc)
                    pairs.append('(match %s with Ok b => digest b | Err _ => (-1, 0, [], []) end, %s)' % (
                        CC._expr(cm.model_encode_expr, 'benv', ty, cv, False, 40), to_coq(dg)))
                body = 'Definition benv : env := %s.\nEval vm_compute in mismatches digest_eqb (fun x => x) [%s].\n' % (
                    env, ';\n '.join(pairs))
                shards.append(body)
            res = CC.run_shards(ctx, 'boundary_%s' % codec, ['Base.Prelude', 'Base.Corr', 'Syntax.Asn1'] + cm.COQ_IMPORTS, shards)
            for si, (bad,) in enumerate(res):
                for i in bad:
                    tn, v, cv, n, enc = rows[si * per + i]
                    ctx.violation('%s encoder: model and library disagree on the boundary value (%s, %d items): library '
                                  'emits %d octets starting %s' % (codec, tn, n, len(enc), enc[:8].hex()),
                                  dict(spec=TEXT, codec=codec, type=tn, kind='boundary-corr', length=n,
                                       lib_digest=repr(digest(enc))))
