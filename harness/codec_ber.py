"""BER side of the codec adapters (and the machinery shared with codec_der.py).

Interface used by the cross-codec properties (C01, C07, C08, C15, C16):

    CODEC, COQ_IMPORTS, in_scope(mod, t, v),
    model_encode_expr(env_term, ty_term, value_term, numeric)  -> Coq expr : result (list Z)
    model_decode_expr(env_term, ty_term, data, numeric)         -> Coq expr : result (value * nat)

plus, for the BER/DER properties themselves (C03, C04):

  * a tagging layer over harness/gen_asn1.py: random [class number] IMPLICIT/
    EXPLICIT prefixes on members and named types, repaired so that every
    module is legal ASN.1 (X.680 distinct-tag rules), and an exporter that
    computes the *effective* tags by the X.680 rules (universal tags,
    module default, automatic numbering only when no component is tagged,
    CHOICE forces EXPLICIT) and wraps them as [TTag] around Syntax/Asn1.v types
    -- independently of the library's own tag pre-processing;
  * an independent TLV parser / writer / rewriter (variants of an encoding);
  * conversion of model results back to Python values;
  * sharded, parallel evaluation of generated Coq case files.
"""
import concurrent.futures
import copy

import gen_asn1
from common import C, Nat, Raw, to_coq

CODEC = 'ber'
COQ_IMPORTS = ['Base.Prelude', 'Syntax.Asn1', 'Ber.Header', 'Ber.BerCommon', 'Ber.BerImpl']
FUEL = 'BerImpl.corr_fuel'

UNIVERSAL = {
    'BOOLEAN': 1, 'INTEGER': 2, 'BIT STRING': 3, 'OCTET STRING': 4, 'NULL': 5, 'OBJECT IDENTIFIER': 6,
    'ENUMERATED': 10, 'SEQUENCE': 16, 'SEQUENCE OF': 16, 'SET': 17, 'SET OF': 17,
}
STRING_TAGS = {'UTF8String': 12, 'NumericString': 18, 'PrintableString': 19, 'IA5String': 22, 'VisibleString': 26,
               'TeletexString': 20, 'GraphicString': 25, 'GeneralString': 27, 'ObjectDescriptor': 7,
               'BMPString': 30, 'UniversalString': 28}
MODELLED_STRINGS = {'UTF8String', 'NumericString', 'PrintableString', 'IA5String', 'VisibleString',
                    'TeletexString', 'GraphicString', 'GeneralString', 'ObjectDescriptor'}
CLASS_COQ = {'UNIVERSAL': 'Univ', 'APPLICATION': 'Appl', '': 'Ctx', 'PRIVATE': 'Priv'}
CLASS_ORDER = {'UNIVERSAL': 0, 'APPLICATION': 1, '': 2, 'PRIVATE': 3}
TAG_NUMBERS = [0, 1, 2, 3, 5, 30, 31, 32, 127, 128, 255, 16383, 16384, 2 ** 21 - 1, 2 ** 21, 2 ** 28 + 7]


def default_opts(**kw):
    o = dict(tag_modes=['AUTOMATIC', 'IMPLICIT', 'EXPLICIT'], explicit_tags=True,
             str_kinds=['IA5String', 'VisibleString', 'NumericString', 'PrintableString', 'UTF8String'],
             ext_constraints=True, int_max_bits=70)
    o.update(kw)
    return gen_asn1.Opts(**o)


# ---------------------------------------------------------------------------
# X.680 tagging, computed from the abstract module (never from the library)

def members_of(t):
    """all components of a SEQUENCE / SET / CHOICE in textual order"""
    if t['k'] == 'CHOICE':
        return list(t['root']) + list(t['ext'] or [])
    return gen_asn1.all_members(t)


def resolves_to_choice(rt_of, t):
    """untagged CHOICE behind references (a tagged named type is not followed)"""
    n = 0
    while t['k'] == 'REF':
        t = rt_of.named(t['name'])
        if t.get('tag'):
            return False
        n += 1
        assert n < 100
    return t['k'] == 'CHOICE'


def library_forces_explicit(rt_of, t):
    """what compiler.pre_process_tags_type does: the reference chain is followed
    through tagged named types as well"""
    return rt_of(t)['k'] == 'CHOICE'


class Resolver(object):
    def __init__(self, mod):
        self.mod = mod
        self.d = dict(mod['types'])

    def named(self, name):
        return self.d[name]

    def __call__(self, t):
        n = 0
        while t['k'] == 'REF':
            t = self.d[t['name']]
            n += 1
            assert n < 100
        return t


def automatic(mod, t):
    """automatic tagging applies to this SEQUENCE/SET/CHOICE"""
    return mod['tags'] == 'AUTOMATIC' and not any(m.get('tag') for m in members_of(t))


def effective_tag(mod, rt_of, holder, t, auto_index=None):
    """(class, number, explicit?) of a member / named type, or None"""
    tag = holder.get('tag')
    if tag is None and auto_index is None:
        return None
    if tag is None:
        cls, num, mode = '', auto_index, ''
    else:
        cls, num, mode = tag
    if mode == '':
        if resolves_to_choice(rt_of, t):
            mode = 'EXPLICIT'
        elif mod['tags'] == 'EXPLICIT':
            mode = 'EXPLICIT'
        else:
            mode = 'IMPLICIT'
    return (cls, num, mode == 'EXPLICIT')


def member_tags(mod, rt_of, t):
    """[(member, effective tag or None)] for the components of t"""
    ms = members_of(t)
    auto = automatic(mod, t)
    return [(m, effective_tag(mod, rt_of, m, m['t'], i if auto else None)) for i, m in enumerate(ms)]


def outer_tags(mod, rt_of, t, tag=None, seen=()):
    """set of (class, number) an encoding of this (possibly tagged) type can start with"""
    if tag is not None:
        return {(tag[0], tag[1])}
    k = t['k']
    if k == 'REF':
        if t['name'] in seen:
            return set()
        nt = rt_of.named(t['name'])
        return outer_tags(mod, rt_of, nt, effective_tag(mod, rt_of, nt, nt), seen + (t['name'],))
    if k == 'CHOICE':
        out = set()
        for m, tg in member_tags(mod, rt_of, t):
            out |= outer_tags(mod, rt_of, m['t'], tg, seen)
        return out
    if k == 'STRING':
        return {('UNIVERSAL', STRING_TAGS[t['sk']])}
    return {('UNIVERSAL', UNIVERSAL[k])}


def legal_components(mod, rt_of, t):
    """X.680 distinct-tag rules for one SEQUENCE / SET / CHOICE"""
    mt = member_tags(mod, rt_of, t)
    tags = [outer_tags(mod, rt_of, m['t'], tg) for m, tg in mt]
    if any(('UNIVERSAL', 0) in s for s in tags):
        return False
    n = len(mt)
    if t['k'] in ('SET', 'CHOICE'):
        return all(not (tags[i] & tags[j]) for i in range(n) for j in range(i + 1, n))
    nroot = len(t['root'])
    optional = [mt[i][0]['opt'] is not None or i >= nroot for i in range(n)]
    for i in range(n):
        for j in range(i + 1, n):
            if tags[i] & tags[j]:
                return False
            if not optional[j]:
                break
        # (components after the next mandatory one are not compared with i)
    return True


def walk_types(t, f):
    f(t)
    k = t['k']
    if k in ('SEQUENCE', 'SET', 'CHOICE'):
        for m in members_of(t):
            walk_types(m['t'], f)
    elif k in ('SEQUENCE OF', 'SET OF'):
        walk_types(t['elem'], f)


def random_tag(rng, allow_implicit):
    cls = rng.choice(['', '', '', 'APPLICATION', 'PRIVATE'] + (['UNIVERSAL'] if rng.random() < .15 else []))
    num = rng.choice(TAG_NUMBERS) if rng.random() < .7 else rng.randrange(0, 1 << rng.randrange(1, 30))
    if cls == 'UNIVERSAL':
        num = rng.choice([33, 40, 41, 100, 200, 16384])     # never a number the standard has assigned
    mode = rng.choice(['', '', 'IMPLICIT', 'EXPLICIT'] if allow_implicit else ['', '', 'EXPLICIT'])
    return (cls, num, mode)


def prepare_module(rng, mod, p_tag=0.35):
    """Tagging layer: decorate the generated module with explicit tags and make it
    legal ASN.1.  Also removes the constructs that belong to other properties'
    known findings (documented in notes/C03.md):
      * DEFAULT on a member whose type is a reference (C19: the default is not
        converted) becomes OPTIONAL."""
    rt_of = Resolver(mod)

    def fix_defaults(t):
        if t['k'] in ('SEQUENCE', 'SET'):
            for m in members_of(t):
                if m['opt'] not in (None, 'optional') and m['t']['k'] == 'REF' and rng.random() < .5:
                    m['opt'] = 'optional'
    for _, t in mod['types']:
        walk_types(t, fix_defaults)

    def decorate(t):
        if t['k'] in ('SEQUENCE', 'SET', 'CHOICE'):
            ms = members_of(t)
            r = rng.random()
            if r < p_tag and ms:
                # tag all, or a random subset of, the components
                sub = ms if rng.random() < .5 else [m for m in ms if rng.random() < .6]
                for m in sub:
                    m['tag'] = random_tag(rng, not library_forces_explicit(rt_of, m['t']))
    for _, t in mod['types']:
        walk_types(t, decorate)
        if rng.random() < p_tag / 2 and t['k'] != 'CHOICE':
            t['tag'] = random_tag(rng, not library_forces_explicit(rt_of, t))

    def legalise(t):
        if t['k'] in ('SEQUENCE', 'SET', 'CHOICE') and not legal_components(mod, rt_of, t):
            nums = rng.sample(range(0, 40), len(members_of(t))) if rng.random() < .5 else \
                list(range(len(members_of(t))))
            for m, n in zip(members_of(t), nums):
                m['tag'] = ('', n, '' if library_forces_explicit(rt_of, m['t']) else rng.choice(['', '', 'IMPLICIT', 'EXPLICIT']))
            assert legal_components(mod, rt_of, t)
    # children first: re-tagging the alternatives of an inner untagged CHOICE changes the tag set of the component
    # that holds it; repeat until nothing changes (named types can refer to each other)
    def post(t):
        k = t['k']
        if k in ('SEQUENCE', 'SET', 'CHOICE'):
            for m in members_of(t):
                post(m['t'])
        elif k in ('SEQUENCE OF', 'SET OF'):
            post(t['elem'])
        legalise(t)
    for _ in range(4):
        for _, t in mod['types']:
            post(t)
        if all(legal_components(mod, rt_of, x) for _, t in mod['types'] for x in _constructed(t)):
            break
    return mod


def _constructed(t):
    out = []
    walk_types(t, lambda x: out.append(x) if x['k'] in ('SEQUENCE', 'SET', 'CHOICE') else None)
    return out


def generate(rng, opts=None, name='M'):
    """(module, text, Gen) with the tagging layer applied"""
    opts = opts or default_opts()
    g = gen_asn1.Gen(rng, opts)
    mod = g.gen_module(name)
    prepare_module(rng, mod)
    return mod, gen_asn1.render_module(mod, gen_asn1.make_resolver(mod)), g


# ---------------------------------------------------------------------------
# hand-made corner modules (each one is the minimal shape of a defect found,
# or of a rule the random generator reaches rarely); values are listed with
# the type they belong to

def _m(name, t, opt=None, tag=None):
    m = {'name': name, 't': t, 'opt': opt}
    if tag is not None:
        m['tag'] = tag
    return m


def _mod(tags, types):
    return {'name': 'M', 'tags': tags, 'ext_implied': False, 'types': types, 'values': []}


def corner_modules():
    INT = {'k': 'INTEGER', 'c': None, 'named': None}
    BOOL = {'k': 'BOOLEAN'}
    NULL = {'k': 'NULL'}
    OCT = {'k': 'OCTET STRING', 'size': None}
    IA5 = {'k': 'STRING', 'sk': 'IA5String', 'size': None, 'alpha': None}
    UTF8 = {'k': 'STRING', 'sk': 'UTF8String', 'size': None, 'alpha': None}
    BITS = {'k': 'BIT STRING', 'size': None, 'named': None}
    NBITS = {'k': 'BIT STRING', 'size': None, 'named': [('x', 0), ('y', 3)]}
    ENUM = {'k': 'ENUMERATED', 'root': [('e0', 0), ('e1', 1)], 'ext': [('x0', 300)]}
    out = []
    # absent OPTIONAL component with a long tag, short last component (tag comparison at the end of the data)
    for tagnum in (31, 16384):
        for inner in (INT, OCT, IA5):
            t = {'k': 'SEQUENCE', 'root': [_m('a', dict(inner), 'optional', ('', tagnum, '')), _m('b', NULL)], 'ext': None}
            s = {'k': 'SET', 'root': [_m('a', dict(inner), 'optional', ('PRIVATE', tagnum, '')), _m('b', BOOL, None, ('', 0, ''))],
                 'ext': None}
            out.append((_mod('IMPLICIT', [('T0', t), ('T1', s)]),
                        [('T0', {'b': None}), ('T1', {'b': True})]))
    # extension additions absent / present, DEFAULT in additions and groups, nested (indefinite-length variants)
    inner = {'k': 'SEQUENCE', 'root': [_m('a', BOOL)],
             'ext': [{'member': _m('b', INT, 'optional')}, {'member': _m('c', BOOL, ('default', True))},
                     {'group': [_m('d', NBITS, ('default', (b'\x80', 1))), _m('e', OCT, ('default', b'\x10')),
                                _m('f', ENUM, ('default', 'e1'))]}]}
    outer = {'k': 'SEQUENCE', 'root': [_m('s', {'k': 'REF', 'name': 'T0'}), _m('n', NULL)],
             'ext': [{'member': _m('t', {'k': 'SEQUENCE OF', 'elem': {'k': 'REF', 'name': 'T0'}, 'size': None}, 'optional')}]}
    out.append((_mod('AUTOMATIC', [('T0', inner), ('T1', outer)]),
                [('T0', {'a': True}), ('T0', {'a': False, 'b': 5}), ('T0', {'a': True, 'b': -1, 'c': False}),
                 ('T0', {'a': True, 'd': (b'\x80\x00', 9), 'e': b'\x10', 'f': 'e1'}),
                 ('T0', {'a': True, 'c': True, 'd': (b'\x90', 4), 'e': b'', 'f': 'x0'}),
                 ('T1', {'s': {'a': True}, 'n': None}),
                 ('T1', {'s': {'a': True, 'b': 1}, 'n': None, 't': [{'a': False}, {'a': True, 'c': False}]}),
                 # an error inside a present addition (missing mandatory component of an element) is raised, not swallowed
                 ('T1', {'s': {'a': True}, 'n': None, 't': [{'b': 1}]})]))
    # SET with additions whose tags sort before / between the root components
    st = {'k': 'SET', 'root': [_m('m1', BOOL, None, ('APPLICATION', 16383, '')), _m('m2', NULL, None, ('', 0, ''))],
          'ext': [{'member': _m('a3', {'k': 'SET OF', 'elem': INT, 'size': None}, None, ('APPLICATION', 5, 'EXPLICIT'))},
                  {'member': _m('a4', IA5, 'optional', ('PRIVATE', 1, ''))},
                  {'member': _m('a5', INT, ('default', 7), ('UNIVERSAL', 40, ''))}]}
    out.append((_mod('EXPLICIT', [('T0', st)]),
                [('T0', {'m1': True, 'm2': None}), ('T0', {'m1': False, 'm2': None, 'a3': [300, -1, 5, 0]}),
                 ('T0', {'m1': True, 'm2': None, 'a3': [], 'a4': 'ab', 'a5': 7}),
                 ('T0', {'m1': True, 'm2': None, 'a3': [2 ** 64], 'a4': '', 'a5': -7})]))
    # SET components whose high tag numbers need different numbers of identifier octets (ordering must be by
    # the tag NUMBER, not by the octets: [300] < [16384], [16383] < [2097152], [127] < [128]), in both
    # declaration orders and for every class
    for cls in ('', 'APPLICATION', 'PRIVATE'):
        for lo, hi in ((300, 16384), (16383, 2097152), (127, 128), (30, 31), (128, 2097151)):
            s1 = {'k': 'SET', 'root': [_m('a', INT, None, (cls, lo, '')), _m('b', BOOL, None, (cls, hi, ''))], 'ext': None}
            s2 = {'k': 'SET', 'root': [_m('b', BOOL, None, (cls, hi, '')), _m('a', INT, None, (cls, lo, ''))], 'ext': None}
            out.append((_mod('IMPLICIT', [('T0', s1), ('T1', s2)]),
                        [('T0', {'a': 2, 'b': True}), ('T1', {'a': -2, 'b': False})]))
    # named bits with trailing zeros, unused bits, empty strings, long lengths, universal-class tags
    misc = {'k': 'SEQUENCE', 'root': [_m('nb', NBITS), _m('b', BITS, None, ('UNIVERSAL', 41, '')),
                                      _m('o', OCT, None, ('UNIVERSAL', 100, 'EXPLICIT')), _m('u', UTF8),
                                      _m('so', {'k': 'SET OF', 'elem': OCT, 'size': None})], 'ext': None}
    out.append((_mod('IMPLICIT', [('T0', misc)]),
                [('T0', {'nb': (b'\x80\x00', 16), 'b': (b'\xff\x80', 9), 'o': bytes(127), 'u': 'a\u00e5\u4e2d\U0001f600',
                         'so': [b'\x02', b'', b'\x01\x00', b'\x01']}),
                 ('T0', {'nb': (b'', 0), 'b': (b'', 0), 'o': bytes(range(200)), 'u': '', 'so': []}),
                 ('T0', {'nb': (b'\x00\x10', 13), 'b': (b'\x00', 1), 'o': bytes(256), 'u': 'x' * 130,
                         'so': [bytes(130), bytes(129), b'\x00']})]))
    # DEFAULT components under every tagging form (untagged, IMPLICIT, EXPLICIT, through a reference) holding the
    # default value written differently (named bits with trailing zero bits) and values next to the default:
    # DER omits exactly the components whose abstract value is the default
    NB = {'k': 'REF', 'name': 'T1'}
    dflt = ('default', (b'\x40', 2))
    dseq = {'k': 'SEQUENCE', 'root': [_m('i', INT),
                                      _m('u', dict(NBITS, named=[('read', 0), ('write', 1), ('z', 9)]), dflt),
                                      _m('im', dict(NBITS, named=[('read', 0), ('write', 1), ('z', 9)]), dflt, ('', 0, 'IMPLICIT')),
                                      _m('ex', dict(NBITS, named=[('read', 0), ('write', 1), ('z', 9)]), dflt, ('', 1, 'EXPLICIT')),
                                      _m('exr', NB, 'optional', ('', 2, 'EXPLICIT')),
                                      _m('exi', INT, ('default', 5), ('', 3, 'EXPLICIT')),
                                      _m('exo', OCT, ('default', b'\x00'), ('APPLICATION', 31, 'EXPLICIT'))], 'ext': None}
    out.append((_mod('IMPLICIT', [('T0', dseq), ('T1', dict(NBITS, named=[('read', 0), ('write', 1), ('z', 9)]))]),
                [('T0', {'i': 7}),
                 ('T0', {'i': 7, 'u': (b'\x40', 2), 'im': (b'\x40', 2), 'ex': (b'\x40', 2), 'exi': 5, 'exo': b'\x00'}),
                 ('T0', {'i': 7, 'u': (b'\x40', 8), 'im': (b'\x40\x00', 10), 'ex': (b'\x40', 8), 'exi': 5}),
                 ('T0', {'i': 7, 'u': (b'\x40\x00', 16), 'im': (b'\x40', 3), 'ex': (b'\x40\x00', 9), 'exr': (b'\x40', 8)}),
                 ('T0', {'i': 7, 'u': (b'\x60', 3), 'im': (b'\x00', 2), 'ex': (b'\xc0', 2), 'exi': 6, 'exo': b''}),
                 ('T0', {'i': 7, 'ex': (b'\x40\x40', 10), 'exi': -5, 'exo': b'\x00\x00'})]))
    # a DEFAULT on an explicitly tagged reference must not leak into other members of the same name and type
    # (shared compiled type; repaired defect explicit-default-leaks-into-shared-type)
    FREF = {'k': 'REF', 'name': 'T0'}
    leak1 = {'k': 'SEQUENCE', 'root': [_m('a', dict(FREF), ('default', 5), ('', 0, 'EXPLICIT'))], 'ext': None}
    leak2 = {'k': 'SEQUENCE', 'root': [_m('a', dict(FREF))], 'ext': None}
    leak3 = {'k': 'SET', 'root': [_m('a', dict(FREF), None, ('', 1, 'EXPLICIT')), _m('b', BOOL, None, ('', 2, ''))], 'ext': None}
    out.append((_mod('IMPLICIT', [('T0', dict(INT)), ('T1', leak1), ('T2', leak2), ('T3', leak3)]),
                [('T1', {}), ('T1', {'a': 5}), ('T2', {'a': 5}), ('T2', {'a': 6}), ('T3', {'a': 5, 'b': True})]))
    # content lengths around the short / long form boundaries (127/128, 255/256, 65535/65536), for the
    # contents of a primitive encoding and for the contents of the enclosing constructed ones
    wrap = {'k': 'SEQUENCE', 'root': [_m('o', OCT)], 'ext': None}
    wrap2 = {'k': 'SEQUENCE', 'root': [_m('w', {'k': 'REF', 'name': 'T1'}, None, ('', 3, 'EXPLICIT'))], 'ext': None}
    lens = [124, 125, 126, 127, 128, 129, 130, 251, 252, 253, 254, 255, 256, 257]
    out.append((_mod('IMPLICIT', [('T0', dict(OCT)), ('T1', wrap), ('T2', wrap2), ('T3', dict(IA5))]),
                [('T0', bytes(n)) for n in lens + [65535, 65536]] +
                [('T1', {'o': bytes(n % 256 for n in range(k))}) for k in lens] +
                [('T2', {'w': {'o': bytes(k)}}) for k in (118, 119, 120, 121, 122, 123, 124, 125, 126, 246, 247, 248, 249, 250)] +
                [('T3', 'a' * n) for n in (127, 128, 255, 256)]))
    return out


# ---------------------------------------------------------------------------
# export to Coq with tags

def coq_tag(tag):
    cls, num, explicit = tag
    return C('mkTag', C(CLASS_COQ[cls]), num, bool(explicit))


def wrap_tag(tag, term):
    return term if tag is None else C('TTag', coq_tag(tag), term)


def coq_member(mod, rt_of, m, tag, numeric):
    if m['opt'] is None:
        o = C('Mandatory')
    elif m['opt'] == 'optional':
        o = C('Optional')
    else:
        dv = m['opt'][1]
        rt = rt_of(m['t'])
        if numeric and rt['k'] == 'ENUMERATED':
            dv = dict(rt['root'] + (rt['ext'] or []))[dv]
        o = C('Default', coq_value(rt_of, m['t'], dv))
    return ((m['name'], wrap_tag(tag, coq_type(mod, rt_of, m['t'], numeric))), o)


def coq_type(mod, rt_of, t, numeric=False):
    k = t['k']
    if k in ('SEQUENCE', 'SET'):
        tags = dict((id(m), tg) for m, tg in member_tags(mod, rt_of, t))
        mem = lambda m: coq_member(mod, rt_of, m, tags[id(m)], numeric)
        ext = None
        if t['ext'] is not None:
            ext = C('Some', [((True, [mem(m) for m in a['group']]) if 'group' in a
                              else (False, [mem(a['member'])])) for a in t['ext']])
        return C('TSeq', k == 'SET', [mem(m) for m in t['root']], ext)
    if k == 'CHOICE':
        tags = dict((id(m), tg) for m, tg in member_tags(mod, rt_of, t))
        mem = lambda m: coq_member(mod, rt_of, m, tags[id(m)], numeric)
        return C('TChoice', [mem(m) for m in t['root']],
                 None if t['ext'] is None else C('Some', [mem(m) for m in t['ext']]))
    if k in ('SEQUENCE OF', 'SET OF'):
        return C('TSeqOf', k == 'SET OF', coq_type(mod, rt_of, t['elem'], numeric), gen_asn1.coq_size(t['size']))
    return gen_asn1.coq_type(rt_of, t, numeric)


def coq_named_type(mod, rt_of, t, numeric=False):
    return wrap_tag(effective_tag(mod, rt_of, t, t), coq_type(mod, rt_of, t, numeric))


def coq_env(mod, numeric=False):
    rt_of = Resolver(mod)
    return [(n, coq_named_type(mod, rt_of, t, numeric)) for n, t in mod['types']]


def coq_value(rt_of, t, v):
    """Python value -> Coq [value], directed by the type, fields in declaration order"""
    t = rt_of(t)
    k = t['k']
    if v is None:
        return C('VNone')
    if k in ('SEQUENCE', 'SET'):
        if not isinstance(v, dict):
            return C('VNone')
        return C('VSeq', [(m['name'], coq_value(rt_of, m['t'], v[m['name']])) for m in gen_asn1.all_members(t)
                          if m['name'] in v])
    if k in ('SEQUENCE OF', 'SET OF'):
        return C('VList', [coq_value(rt_of, t['elem'], x) for x in v])
    if k == 'CHOICE':
        if v[0] is None:
            return C('VUnknownChoice')
        byname = {m['name']: m for m in members_of(t)}
        return C('VChoice', v[0], coq_value(rt_of, byname[v[0]]['t'], v[1]))
    if k == 'BIT STRING':
        return C('VBits', bytes(v[0]), int(v[1]))
    if k == 'OCTET STRING':
        return C('VBytes', bytes(v))
    return gen_asn1.coq_value(rt_of, t, v)


def py_value(c):
    """parsed Coq [value] -> Python value as the library returns it"""
    if not isinstance(c, C):
        raise ValueError('py_value: %r' % (c,))
    n, a = c.name, c.args
    if n == 'VBool':
        return bool(a[0])
    if n == 'VInt':
        return a[0]
    if n == 'VNone':
        return None
    if n == 'VEnum':
        return a[0]
    if n == 'VBits':
        return (bytes(a[0]), a[1])
    if n == 'VBytes':
        return bytes(a[0])
    if n == 'VStr':
        return ''.join(chr(x) for x in a[0])
    if n == 'VOid':
        return '.'.join(str(x) for x in a[0])
    if n == 'VSeq':
        return {k: py_value(x) for k, x in a[0]}
    if n == 'VList':
        return [py_value(x) for x in a[0]]
    if n == 'VChoice':
        return (a[0], py_value(a[1]))
    if n == 'VUnknownChoice':
        return (None, None)
    raise ValueError('py_value: %r' % (c,))


def plain(v):
    """library value with bytearrays turned into bytes (Python == already identifies them)"""
    if isinstance(v, bytearray):
        return bytes(v)
    if isinstance(v, tuple):
        return tuple(plain(x) for x in v)
    if isinstance(v, list):
        return [plain(x) for x in v]
    if isinstance(v, dict):
        return {k: plain(x) for k, x in v.items()}
    return v


# ---------------------------------------------------------------------------
# scope

def scope_problems(mod, codec):
    """Reasons why a module lies outside the modelled / finding-free region.
    Each reason is either an unmodelled construct or a recorded known finding
    (known_findings/C03.json, C04.json)."""
    rt_of = Resolver(mod)
    out = []

    def visit(t):
        k = t['k']
        if k == 'STRING' and t['sk'] not in MODELLED_STRINGS:
            out.append('unmodelled string kind ' + t['sk'])
        if k == 'SEQUENCE' and t['ext']:
            mt = member_tags(mod, rt_of, t)
            nroot = len(t['root'])
            add_tags = set()
            for m, tg in mt[nroot:]:
                add_tags |= outer_tags(mod, rt_of, m['t'], tg)
            for m, tg in mt[:nroot]:
                if m['opt'] is not None and outer_tags(mod, rt_of, m['t'], tg) & add_tags:
                    out.append('finding sequence-retry-steals-addition')
        if k in ('SEQUENCE', 'SET', 'CHOICE'):
            for m, tg in member_tags(mod, rt_of, t):
                rt = rt_of(m['t'])
                untagged_choice = tg is None and rt['k'] == 'CHOICE' and not any(
                    x.get('tag') for x in ref_chain(rt_of, m['t']))
                if m.get('tag') and m['tag'][2] == 'IMPLICIT' and rt['k'] == 'CHOICE':
                    out.append('IMPLICIT tag on a CHOICE')
                if tg is not None and library_forces_explicit(rt_of, m['t']) and not resolves_to_choice(rt_of, m['t']) \
                        and not tg[2]:
                    out.append('finding tagged-named-choice-forced-explicit')
                if k in ('SEQUENCE', 'SET') and untagged_choice and rt['ext'] is not None and \
                        (m['opt'] is not None or k == 'SET' or in_additions(t, m)):
                    out.append('finding optional-extensible-choice')
                if k == 'SET' and untagged_choice and codec == 'ber':
                    out.append('finding ber-set-choice-member')
                if k in ('SEQUENCE', 'SET') and m['opt'] not in (None, 'optional') and rt['k'] == 'NULL':
                    out.append('NULL default')
    for _, t in mod['types']:
        walk_types(t, visit)
        if t.get('tag') and t['tag'][2] == 'IMPLICIT' and t['k'] == 'CHOICE':
            out.append('IMPLICIT tag on a CHOICE')
    return out


def ref_chain(rt_of, t):
    out = []
    n = 0
    while t['k'] == 'REF':
        t = rt_of.named(t['name'])
        out.append(t)
        n += 1
        assert n < 100
    return out


def in_additions(t, m):
    return all(m is not r for r in t['root'])


_scope_cache = {}


def module_in_scope(mod, codec):
    key = (id(mod), codec)
    if key not in _scope_cache:
        if len(_scope_cache) > 5000:
            _scope_cache.clear()
        _scope_cache[key] = (mod, not scope_problems(mod, codec))
    return _scope_cache[key][1]


def in_scope(mod, t, v):
    return module_in_scope(mod, CODEC)


# ---------------------------------------------------------------------------
# model expressions

def model_encode_expr(env_term, ty_term, value_term, numeric):
    return '(BerImpl.ber_encode %s %s %s %s %s)' % (to_coq(bool(numeric)), FUEL, env_term, ty_term, value_term)


def model_decode_expr(env_term, ty_term, data, numeric):
    return '(BerImpl.ber_decode %s %s %s %s %s)' % (to_coq(bool(numeric)), FUEL, env_term, ty_term,
                                                    to_coq(bytes(data)))


def outcome_term(r, rt_of=None, t=None, kind='enc'):
    """lib.attempt result -> Coq term of type [outcome ...] (Ber/BerCorr.v)"""
    if r[0] == 'ok':
        if kind == 'enc':
            return C('OOk', bytes(r[1]))
        v, n = r[1]
        return C('OOk', (coq_value(rt_of, t, plain(v)), Nat(n)))
    return C('OErr', r[1])


# ---------------------------------------------------------------------------
# parallel evaluation of case files

def eval_shards(ctx, name, imports, preamble, items, per_file=400, workers=8, wrap='bad_indices'):
    """items: list of Coq boolean expressions (True = agreement).  Returns the
    indices whose expression evaluated to false.  The expressions are spread
    over case files of at most [per_file] items evaluated by up to [workers]
    coqc processes."""
    shards = [items[i:i + per_file] for i in range(0, len(items), per_file)]

    def run(si):
        body = preamble + '\nDefinition checks : list bool := [\n  %s].\nEval vm_compute in %s checks.\n' % (
            ';\n  '.join(shards[si]), wrap)
        (bad,) = ctx.coq_eval('%s_%d' % (name, si), imports, body)
        return [si * per_file + i for i in bad]
    if not shards:
        return []
    # build the imports once, before the threads start
    ctx.coq_eval('%s_warm' % name, imports, 'Eval vm_compute in (@nil Z).\n')
    bad = []
    with concurrent.futures.ThreadPoolExecutor(max_workers=workers) as ex:
        for r in ex.map(run, range(len(shards))):
            bad += r
    return bad


# ---------------------------------------------------------------------------
# independent TLV layer

class Tlv(object):
    """One BER data value: class bits (0,0x40,0x80,0xc0), constructed flag, tag
    number and either contents octets or child TLVs."""

    def __init__(self, cls, constructed, number, content=None, children=None):
        self.cls = cls
        self.constructed = constructed
        self.number = number
        self.content = content
        self.children = children
        self.note = None        # 'octets' | 'bits' | 'set' (annotation by the typed walker)

    def tag(self):
        return (self.cls, self.number)

    def __repr__(self):
        if self.constructed:
            return 'C(%x,%d,%r)' % (self.cls, self.number, self.children)
        return 'P(%x,%d,%s)' % (self.cls, self.number, self.content.hex())


class TlvError(Exception):
    pass


def ident_octets(cls, constructed, number):
    first = cls | (0x20 if constructed else 0)
    if number < 31:
        return bytes([first | number])
    digs = []
    n = number
    while n:
        digs.append(n & 0x7f)
        n >>= 7
    digs.reverse()
    return bytes([first | 0x1f] + [0x80 | d for d in digs[:-1]] + [digs[-1]])


def length_octets(n, pad=0):
    """definite form; pad > 0 forces the long form with [pad] extra leading zero octets
    (pad = 1 on a short length gives 81 xx)"""
    if n < 128 and pad == 0:
        return bytes([n])
    b = n.to_bytes(max(1, (n.bit_length() + 7) // 8), 'big')
    if n >= 128 and pad > 0:
        b = bytes(pad) + b
    elif n < 128:
        b = bytes(pad - 1) + b
    return bytes([0x80 | len(b)]) + b


def parse_strict(data, pos=0, end=None, der=True):
    """Parse one TLV; with der=True insist on DER's canonical forms of the
    identifier and length octets (minimal tag number, definite minimal length)."""
    end = len(data) if end is None else end
    if pos >= end:
        raise TlvError('no identifier octet at %d' % pos)
    first = data[pos]
    pos += 1
    number = first & 0x1f
    if number == 0x1f:
        number = 0
        nd = 0
        while True:
            if pos >= end:
                raise TlvError('truncated tag number')
            b = data[pos]
            pos += 1
            if nd == 0 and b == 0x80:
                raise TlvError('tag number with leading zero digit')
            number = (number << 7) | (b & 0x7f)
            nd += 1
            if not b & 0x80:
                break
        if number < 31:
            raise TlvError('high tag number form used for %d' % number)
    if pos >= end:
        raise TlvError('no length octet')
    l0 = data[pos]
    pos += 1
    indefinite = False
    if l0 < 128:
        length = l0
    elif l0 == 128:
        if der:
            raise TlvError('indefinite length')
        indefinite = True
        length = None
    else:
        k = l0 & 0x7f
        if pos + k > end:
            raise TlvError('truncated length')
        length = int.from_bytes(data[pos:pos + k], 'big')
        if der and (data[pos] == 0 or length < 128):
            raise TlvError('non-minimal length octets %s' % data[pos - 1:pos + k].hex())
        pos += k
    constructed = bool(first & 0x20)
    cls = first & 0xc0
    if indefinite:
        if not constructed:
            raise TlvError('indefinite length on a primitive encoding')
        kids = []
        while True:
            if pos + 2 > end:
                raise TlvError('no end-of-contents')
            if data[pos] == 0 and data[pos + 1] == 0:
                pos += 2
                break
            kid, pos = parse_strict(data, pos, end, der)
            kids.append(kid)
        return Tlv(cls, True, number, children=kids), pos
    if pos + length > end:
        raise TlvError('contents exceed the data')
    if constructed:
        kids = []
        p = pos
        while p < pos + length:
            kid, p = parse_strict(data, p, pos + length, der)
            kids.append(kid)
        return Tlv(cls, True, number, children=kids), pos + length
    return Tlv(cls, False, number, content=bytes(data[pos:pos + length])), pos + length


def write_der(node):
    if node.constructed:
        body = b''.join(write_der(k) for k in node.children)
    else:
        body = node.content
    return ident_octets(node.cls, node.constructed, node.number) + length_octets(len(body)) + body


class Style(object):
    """How [write_variant] departs from the distinguished form."""

    def __init__(self, rng, indefinite=.4, pad=.4, segment=.6, permute=.7, depth=3):
        self.rng = rng
        self.indefinite = indefinite
        self.pad = pad
        self.segment = segment
        self.permute = permute
        self.depth = depth
        self.used = set()


CLASS_OF_BITS = {0: 'Univ', 0x40: 'Appl', 0x80: 'Ctx', 0xc0: 'Priv'}


def write_variant(node, st):
    """Re-serialise a DER tree in another form X.690 allows.  The tree carries
    the annotations of [annotate] ('octets', 'bits', 'set').  Returns the
    octets and the same data value as a Coq [X690.btlv] term."""
    rng = st.rng
    if node.constructed:
        kids = list(node.children)
        if node.note == 'set' and len(kids) > 1 and rng.random() < st.permute:
            rng.shuffle(kids)
            st.used.add('set-permuted')
        parts = [write_variant(k, st) for k in kids]
        return frame(node.cls, True, node.number, parts, st)
    if node.note in ('octets', 'bits') and rng.random() < st.segment:
        st.used.add('segmented-' + node.note)
        return frame(node.cls, True, node.number, segments(node.content, node.note == 'bits', st, 1), st)
    return frame(node.cls, False, node.number, node.content, st)


def frame(cls, constructed, number, body, st):
    """body: contents octets (primitive) or a list of (octets, term) children"""
    rng = st.rng
    ident = ident_octets(cls, constructed, number)
    if constructed:
        kids = [t for _, t in body]
        body = b''.join(b for b, _ in body)
    mk = (lambda lo: C('BCons', C(CLASS_OF_BITS[cls]), number, lo, kids)) if constructed else \
        (lambda lo: C('BPrim', C(CLASS_OF_BITS[cls]), number, lo.args[0], body))
    if constructed and rng.random() < st.indefinite:
        st.used.add('indefinite')
        return ident + b'\x80' + body + b'\x00\x00', mk(C('LIndef'))
    if rng.random() < st.pad:
        pad = rng.choice([1, 1, 2, 3, 4])
        lo = length_octets(len(body), pad)
        st.used.add('padded-length' if len(body) >= 128 or pad > 1 else 'long-form-short-length')
    else:
        lo = length_octets(len(body))
    return ident + lo + body, mk(C('LDef', lo))


def segments(content, bits, st, level):
    """children of a constructed OCTET/BIT/character string: a sequence of
    universal OCTET STRING (BIT STRING) encodings, themselves primitive or
    constructed up to the nesting depth"""
    rng = st.rng
    if bits:
        unused, data = content[0], content[1:]
    else:
        unused, data = 0, content
    nseg = rng.choice([0, 1, 1, 2, 2, 3, 4]) if len(data) == 0 else rng.choice([1, 2, 2, 3, 5])
    # (a final segment with unused bits must hold the octet they belong to)
    cuts = sorted(rng.randrange(0, len(data) + (0 if bits and unused else 1)) for _ in range(max(nseg - 1, 0)))
    parts = [data[a:b] for a, b in zip([0] + cuts, cuts + [len(data)])] if nseg else []
    out = []
    for i, p in enumerate(parts):
        last = i == len(parts) - 1
        c = (bytes([unused if last else 0]) + p) if bits else p
        if level < st.depth and rng.random() < .3:
            st.used.add('nested-segments-%d' % (level + 1))
            out.append(frame(0, True, 3 if bits else 4, segments(c, bits, st, level + 1), st))
        else:
            out.append(frame(0, False, 3 if bits else 4, c, st))
    return out


# ---------------------------------------------------------------------------
# typed walk of a DER tree (independent of the library): aligns TLVs with the
# abstract type to (a) annotate string / bit string / SET nodes for the
# rewriter and (b) check the DER structure rules that need the type.

CLS = {'UNIVERSAL': 0, 'APPLICATION': 0x40, '': 0x80, 'PRIVATE': 0xc0}


class Walk(object):
    def __init__(self, mod, der_checks=False):
        self.mod = mod
        self.rt_of = Resolver(mod)
        self.der_checks = der_checks
        self.problems = []

    def bad(self, msg):
        self.problems.append(msg)

    def named(self, name, node):
        t = self.rt_of.named(name)
        self.visit(t, effective_tag(self.mod, self.rt_of, t, t), node)

    def visit(self, t, tag, node, override=None):
        """node encodes a value of type t carrying the (effective) tag [tag];
        [override] is an implicit tag inherited from an enclosing prefix"""
        if tag is not None:
            cls, num, explicit = tag
            want = override or (CLS[cls], num)
            if explicit:
                if node.tag() != want or not node.constructed or len(node.children) != 1:
                    return self.bad('explicit tag %r: got %r' % (want, node))
                return self.visit(t, None, node.children[0])
            return self.visit(t, None, node, want)
        k = t['k']
        if k == 'REF':
            nt = self.rt_of.named(t['name'])
            return self.visit(nt, effective_tag(self.mod, self.rt_of, nt, nt), node, override)
        if k == 'CHOICE':
            if override is not None:
                return self.bad('implicit tag on CHOICE')
            for m, tg in member_tags(self.mod, self.rt_of, t):
                if node.tag() in {(CLS[c], n) for c, n in outer_tags(self.mod, self.rt_of, m['t'], tg)}:
                    return self.visit(m['t'], tg, node)
            return self.bad('no CHOICE alternative for %r' % (node,))
        univ = STRING_TAGS[t['sk']] if k == 'STRING' else UNIVERSAL[k]
        want = override or (0, univ)
        if node.tag() != want:
            return self.bad('%s: expected tag %r, got %r' % (k, want, node.tag()))
        constructed = k in ('SEQUENCE', 'SET', 'SEQUENCE OF', 'SET OF')
        if node.constructed != constructed:
            return self.bad('%s: constructed bit is %r' % (k, node.constructed))
        if k in ('OCTET STRING', 'STRING'):
            node.note = 'octets'
        elif k == 'BIT STRING':
            node.note = 'bits'
            if self.der_checks:
                c = node.content
                if not c or c[0] > 7 or (len(c) == 1 and c[0]):
                    self.bad('BIT STRING initial octet %s' % c[:1].hex())
                elif c[0] and c[-1] & ((1 << c[0]) - 1):
                    self.bad('BIT STRING unused bits not zero')
                elif t.get('named') and len(c) > 1 and (c[-1] >> c[0]) & 1 == 0:
                    self.bad('BIT STRING with named bits has a trailing zero bit')
        elif k == 'BOOLEAN' and self.der_checks and node.content not in (b'\x00', b'\xff'):
            self.bad('BOOLEAN contents %s' % node.content.hex())
        elif k in ('INTEGER', 'ENUMERATED') and self.der_checks:
            c = node.content
            if not c or (len(c) > 1 and ((c[0] == 0 and c[1] < 128) or (c[0] == 255 and c[1] >= 128))):
                self.bad('%s contents not minimal: %s' % (k, c.hex()))
        elif k == 'NULL' and node.content:
            self.bad('NULL with contents')
        elif k in ('SEQUENCE', 'SET'):
            if k == 'SET':
                node.note = 'set'
            mt = member_tags(self.mod, self.rt_of, t)
            remaining = list(mt)
            if self.der_checks and k == 'SET':
                keys = [(c.cls, c.number) for c in node.children]
                if keys != sorted(keys):
                    self.bad('SET components not in ascending tag order: %r' % (keys,))
            for child in node.children:
                hit = None
                for i, (m, tg) in enumerate(remaining):
                    if child.tag() in {(CLS[c], n) for c, n in outer_tags(self.mod, self.rt_of, m['t'], tg)}:
                        hit = i
                        break
                if hit is None:
                    self.bad('%s: no component for %r' % (k, child))
                    continue
                m, tg = remaining[hit]
                if k == 'SEQUENCE':
                    for sk, _ in remaining[:hit]:
                        if sk['opt'] is None and not in_additions(t, sk):
                            self.bad('SEQUENCE: mandatory %s skipped' % sk['name'])
                    remaining = remaining[hit + 1:]
                else:
                    remaining = remaining[:hit] + remaining[hit + 1:]
                self.visit(m['t'], tg, child)
            for sk, _ in remaining:
                if sk['opt'] is None and not in_additions(t, sk):
                    self.bad('%s: mandatory %s absent' % (k, sk['name']))
        elif k in ('SEQUENCE OF', 'SET OF'):
            for child in node.children:
                self.visit(t['elem'], None, child)
            if self.der_checks and k == 'SET OF':
                encs = [write_der(c) for c in node.children]
                if encs != sorted(encs):
                    self.bad('SET OF elements not in ascending order')


def annotate(mod, type_name, node, der_checks=False):
    w = Walk(mod, der_checks)
    w.named(type_name, node)
    return w.problems
