"""Shared machinery of the /verif checks.

Every property check is a module harness/cNN.py with a function run(ctx).  The
flow is the same for all of them (DESIGN.md section 1):

  regen coq/gen from /repo -> build the Coq development the property needs
  -> compile Props/CNN.v, audit Print Assumptions -> corpus replay
  -> correspondence model vs /repo -> property test on /repo
  -> classify failures against known_findings.json -> evidence -> exit code
"""
import hashlib
import json
import os
import random
import re
import subprocess
import sys
import time

VERIF = os.path.dirname(os.path.dirname(os.path.abspath(__file__)))
COQ = os.path.join(VERIF, 'coq')
REPO = os.environ.get('VERIF_REPO', '/repo')
COQ_FLAGS = ['-Q', 'theories', 'Asn1V', '-Q', 'gen', 'Asn1Gen',
             '-w', '-notation-overridden,-deprecated-hint-without-locality,'
                   '-deprecated-instance-without-locality']
STD_AXIOMS_OK = {
    # axioms declared by Coq's standard library that the development may rely on
    'functional_extensionality_dep', 'proof_irrelevance', 'classic', 'JMeq_eq',
    'Eqdep.Eq_rect_eq.eq_rect_eq', 'eq_rect_eq', 'propositional_extensionality',
    'constructive_indefinite_description', 'ClassicalDedekindReals.sig_forall_dec',
    'ClassicalDedekindReals.sig_not_dec', 'FunctionalExtensionality.functional_extensionality_dep',
}
FORBIDDEN = re.compile(
    r'\b(Admitted|admit|Axiom|Axioms|Parameter|Parameters|Conjecture|Conjectures|'
    r'Hypothesis|Hypotheses|Variable|Variables|Admit Obligations|bypass_check|'
    r'Unset Guard Checking|Unset Positivity Checking|Unset Universe Checking|'
    r'type-in-type|impredicative-set|native_compute)\b')


def sh(cmd, timeout=None, cwd=None, env=None, input=None):
    p = subprocess.run(cmd, shell=isinstance(cmd, str), cwd=cwd, env=env, input=input,
                       stdout=subprocess.PIPE, stderr=subprocess.STDOUT, timeout=timeout,
                       text=True)
    out = '\n'.join(l for l in p.stdout.splitlines() if 'conda.cli.condarc' not in l)
    return p.returncode, out


# --------------------------------------------------------------------------
# Python value <-> Coq term text

class C(object):
    """A Coq constructor application, e.g. C('Some', 3)."""

    def __init__(self, name, *args):
        self.name = name
        self.args = args

    def __repr__(self):
        return 'C(%r%s)' % (self.name, ''.join(', %r' % (a,) for a in self.args))

    def __eq__(self, other):
        return isinstance(other, C) and (self.name, self.args) == (other.name, other.args)

    def __hash__(self):
        return hash((self.name, self.args))


class Nat(int):
    """An int to be printed as a Coq nat literal."""


class Raw(str):
    """Coq text to be emitted verbatim."""


def to_coq(v):
    if isinstance(v, Raw):
        return str(v)
    if isinstance(v, bool):
        return 'true' if v else 'false'
    if isinstance(v, Nat):
        return '%d%%nat' % int(v)
    if isinstance(v, int):
        return '(%d)%%Z' % v
    if isinstance(v, str):
        return '"%s"%%string' % v.replace('"', '""')
    if isinstance(v, (bytes, bytearray)):
        return '(hex "%s"%%string)' % bytes(v).hex()
    if v is None:
        return 'None'
    if isinstance(v, list):
        return '[' + '; '.join(to_coq(x) for x in v) + ']'
    if isinstance(v, tuple):
        return '(' + ', '.join(to_coq(x) for x in v) + ')'
    if isinstance(v, C):
        if not v.args:
            return v.name
        return '(' + v.name + ' ' + ' '.join(to_coq(a) for a in v.args) + ')'
    raise TypeError('to_coq: %r' % (v,))


_TOK = re.compile(r'\s*(?:("(?:[^"]|"")*")|(-?\d+)(?:%\w+)?|([A-Za-z_][\w.\']*)|(.))')


def parse_coq(text):
    """Parse the term printed by [Eval vm_compute] (lists, tuples, numbers,
    strings, constructor applications) into Python values."""
    toks = []
    for m in _TOK.finditer(text):
        s, n, ident, ch = m.groups()
        if s is not None:
            toks.append(('s', s[1:-1].replace('""', '"')))
        elif n is not None:
            toks.append(('n', int(n)))
        elif ident is not None:
            toks.append(('i', ident))
        elif ch is not None and ch.strip():
            toks.append(('c', ch))
    pos = [0]

    def peek():
        return toks[pos[0]] if pos[0] < len(toks) else ('e', None)

    def nxt():
        t = peek()
        pos[0] += 1
        return t

    def atom():
        k, v = nxt()
        if k in 'sn':
            return v
        if k == 'i':
            if v == 'true':
                return True
            if v == 'false':
                return False
            if v == 'None':
                return None
            return C(v)
        if (k, v) == ('c', '['):
            items = []
            if peek() == ('c', ']'):
                nxt()
                return items
            while True:
                items.append(term())
                k2, v2 = nxt()
                if (k2, v2) == ('c', ']'):
                    return items
                assert (k2, v2) == ('c', ';'), (k2, v2)
        if (k, v) == ('c', '('):
            items = [term()]
            while True:
                k2, v2 = nxt()
                if (k2, v2) == ('c', ')'):
                    break
                assert (k2, v2) == ('c', ','), (k2, v2)
                items.append(term())
            return items[0] if len(items) == 1 else tuple(items)
        raise ValueError('parse_coq: unexpected %r' % ((k, v),))

    def term():
        head = atom()
        if isinstance(head, C) and not head.args:
            args = []
            while peek()[0] in 'sni' or peek() in (('c', '['), ('c', '(')):
                args.append(atom())
            if args:
                return C(head.name, *args)
        return head

    t = term()
    return t


def coq_results(out):
    """Split coqc output into the results of the successive Eval commands."""
    res = []
    for chunk in re.split(r'^\s*= ', out, flags=re.M)[1:]:
        # drop the trailing ": type" annotation
        m = re.search(r'\n\s*: [^\n]*(\n[^\n=]*)*$', chunk)
        body = chunk[:m.start()] if m else chunk
        res.append(parse_coq(body))
    return res


# --------------------------------------------------------------------------

class Ctx(object):
    def __init__(self, pid, tier, seed, replay=None):
        self.pid = pid
        self.tier = tier
        self.seed = seed
        self.replay = replay
        self.rng = random.Random(seed)
        self.t0 = time.time()
        self.level = 'proof'
        self.obligations = []       # (name, ok, detail)
        self.evaluations = 0
        self.distinct = set()
        self.samples = []
        self.violations = []
        self.known = []
        self.rule = ''
        self.extra = {}
        self.assumptions = []
        self.trusted_base = [
            'Coq 8.16.1 kernel and vm_compute (no native_compute)',
            'hand-written Gallina implementation model tied to /repo by the differential correspondence run of this check',
            'harness/common.py term printer/parser and the generated coq/cases/*.v files',
        ]
        self.checker_cmd = 'coq/build.sh <targets> && coqc Props/%s.v (Print Assumptions audit)' % pid
        self.histogram = {}
        self.quick = tier == 'quick'
        self._built = set()

    # ---- bookkeeping ------------------------------------------------------
    def count(self, key, n=1):
        self.histogram[key] = self.histogram.get(key, 0) + n

    def case(self, distinct_key=None, sample=None, n=1):
        self.evaluations += n
        if distinct_key is not None:
            self.distinct.add(distinct_key)
        if sample is not None and len(self.samples) < 8:
            self.samples.append(sample)

    def obligation(self, name, ok, detail=''):
        self.obligations.append((name, bool(ok), detail))

    def log(self, msg):
        print('[%s %6.1fs] %s' % (self.pid, time.time() - self.t0, msg), flush=True)

    # ---- violations ---------------------------------------------------------
    def violation(self, what, replay, no_input=False):
        """Record a violation.  [replay] is a JSON-able dict describing the
        concrete failing input (or, with no_input, the theorem/correspondence
        that no longer checks)."""
        body = json.dumps(replay, sort_keys=True, default=repr)
        h = hashlib.sha1(body.encode()).hexdigest()[:12]
        os.makedirs(os.path.join(VERIF, 'replays'), exist_ok=True)
        path = os.path.join('replays', '%s-%s.json' % (self.pid, h))
        doc = {'property': self.pid, 'what': what, 'seed': self.seed, 'tier': self.tier,
               'replay': replay, 'no_failing_input_found': bool(no_input)}
        with open(os.path.join(VERIF, path), 'w') as f:
            json.dump(doc, f, indent=1, sort_keys=True, default=repr)
        line = 'VIOLATION property=%s replay=%s' % (self.pid, path)
        if no_input:
            line += ' %s no-failing-input-found' % what.replace('\n', ' ')[:200]
        else:
            print('  what: %s' % what.replace('\n', ' ')[:400])
        print(line, flush=True)
        self.violations.append({'what': what, 'replay': path, 'no_input': no_input})

    def known_finding(self, fid, what):
        print('KNOWN-FINDING: property=%s %s: %s' % (self.pid, fid, what), flush=True)
        self.known.append(fid)

    # ---- Coq -----------------------------------------------------------------
    def dep_closure(self):
        """.v files the property's statement file depends on (from the make dependency file)."""
        dfile = os.path.join(COQ, '.Makefile.coq.d')
        deps = {}
        try:
            txt = open(dfile).read().replace('\\\n', ' ')
        except OSError:
            return None
        for line in txt.splitlines():
            if ':' not in line:
                continue
            lhs, rhs = line.split(':', 1)
            tgt = [t for t in lhs.split() if t.endswith('.vo')]
            if not tgt:
                continue
            deps[tgt[0]] = [d for d in rhs.split() if d.endswith('.vo')]
        start = 'theories/Props/%s.vo' % self.pid
        if start not in deps:
            return None
        seen, todo = set(), [start]
        while todo:
            x = todo.pop()
            if x in seen:
                continue
            seen.add(x)
            todo += deps.get(x, [])
        return {os.path.join(COQ, x[:-1]) for x in seen if x.startswith(('theories/', 'gen/'))}

    def gate(self):
        """Refuse forbidden vernacular in every file the property's theorems depend on (the whole
        development when the dependency file is unavailable)."""
        bad = []
        scope = self.dep_closure()
        for root, _, files in os.walk(COQ):
            if os.sep + 'cases' in root:
                continue
            for fn in files:
                if fn.endswith('.v') and not fn.startswith('Tmp_goal_'):
                    p = os.path.join(root, fn)
                    if scope is not None and p not in scope:
                        continue
                    txt = re.sub(r'\(\*.*?\*\)', '', open(p).read(), flags=re.S)
                    for m in FORBIDDEN.finditer(txt):
                        # Section variables are allowed (inside a Section only)
                        if m.group(1) in ('Variable', 'Variables', 'Hypothesis', 'Hypotheses'):
                            if _inside_section(txt, m.start()):
                                continue
                        bad.append('%s: %s' % (os.path.relpath(p, COQ), m.group(1)))
        self.extra['gate_scope_files'] = 'all' if scope is None else len(scope)
        self.obligation('gate:no-admitted-axiom-parameter', not bad, '; '.join(bad[:5]))
        return not bad

    def coq_build(self, targets):
        rc, out = sh([os.path.join(COQ, 'build.sh')] + list(targets), timeout=3000)
        ok = rc == 0
        if not ok:
            m = re.search(r'File "([^"]+)", line (\d+)[^\n]*\n(Error:[^\n]*(?:\n[^\n]+){0,6})', out)
            detail = (m.group(1) + ':' + m.group(2) + ' ' + m.group(3)) if m else out[-600:]
        else:
            detail = ''
        return ok, detail

    def coq_props(self, extra_targets=()):
        """Build everything Props/<pid>.v depends on, then compile that file
        and audit the axioms each theorem depends on.  Returns True when every
        obligation is discharged."""
        props = 'theories/Props/%s.v' % self.pid
        src = open(os.path.join(COQ, props)).read()
        theorems = re.findall(r'^\s*(?:Theorem|Lemma|Corollary|Example)\s+([\w\']+)', src, flags=re.M)
        # force recompilation of the Props file so that Print Assumptions output is produced now
        for ext in ('.vo', '.glob', '.vok', '.vos'):
            try:
                os.remove(os.path.join(COQ, props[:-2] + ext))
            except OSError:
                pass
        ok, detail = self.coq_build([props + 'o'] + list(extra_targets))
        self.gate()
        if not ok:
            for t in theorems:
                self.obligation(t, False, detail)
            self.broken_detail = detail
            return False
        rc, out = sh(['coqc'] + COQ_FLAGS + [props], cwd=COQ, timeout=1200)
        if rc != 0:
            for t in theorems:
                self.obligation(t, False, out[-400:])
            self.broken_detail = out[-600:]
            return False
        # audit: one Print Assumptions block per theorem, in order
        blocks = re.split(r'^(?=Closed under the global context|Axioms:)', out, flags=re.M)[1:]
        printed = re.findall(r'^\s*Print Assumptions\s+([\w\']+)', src, flags=re.M)
        allok = True
        axioms_seen = set()
        for t in theorems:
            if t not in printed:
                self.obligation(t, False, 'no Print Assumptions for this theorem')
                allok = False
                continue
            b = blocks[printed.index(t)] if printed.index(t) < len(blocks) else 'Axioms:\n ?'
            if b.startswith('Closed under the global context'):
                self.obligation(t, True, 'closed')
            else:
                names = re.findall(r'^([\w.\']+)\s*:', b, flags=re.M)
                bad = [n for n in names if n.split('.')[-1] not in STD_AXIOMS_OK and n not in STD_AXIOMS_OK]
                axioms_seen.update(names)
                self.obligation(t, not bad, 'axioms: ' + ', '.join(names))
                allok = allok and not bad
        self.extra['axioms_reported'] = sorted(axioms_seen)
        self.trusted_base.append('Print Assumptions: ' + (', '.join(sorted(axioms_seen)) if axioms_seen
                                                          else 'every property theorem is closed under the global context'))
        return allok and all(o[1] for o in self.obligations)

    def coq_eval(self, name, imports, body, timeout=900):
        """Evaluate generated Coq text (a cases file) and return the parsed
        results of its Eval commands."""
        d = os.path.join(COQ, 'cases')
        os.makedirs(d, exist_ok=True)
        need = tuple(sorted('theories/%s.vo' % i.replace('.', '/') for i in imports))
        if need not in self._built:
            ok, detail = self.coq_build(list(need))
            if not ok:
                raise RuntimeError('model does not build: ' + detail)
            self._built.add(need)
        path = os.path.join(d, '%s_%s.v' % (self.pid, name))
        with open(path, 'w') as f:
            f.write('From Asn1V Require Import %s.\n' % ' '.join(imports))
            f.write('Set Printing Depth 1000000.\nSet Printing Width 200.\n')
            f.write(body)
        rc, out = sh('ulimit -s unlimited 2>/dev/null; exec coqc ' + ' '.join("'%s'" % x for x in COQ_FLAGS) +
                     " -Q cases Asn1Cases 'cases/%s_%s.v'" % (self.pid, name), cwd=COQ, timeout=timeout)
        for ext in ('.vo', '.glob', '.vok', '.vos', '.aux'):
            for p in (path[:-2] + ext, os.path.join(d, '.%s_%s%s' % (self.pid, name, ext))):
                try:
                    os.remove(p)
                except OSError:
                    pass
        if rc != 0:
            raise RuntimeError('coqc failed on %s:\n%s' % (path, out[-2000:]))
        return coq_results(out)

    # ---- finish ---------------------------------------------------------------
    def finish(self):
        wall = time.time() - self.t0
        nob = len(self.obligations)
        ndis = sum(1 for o in self.obligations if o[1])
        cov = {
            'obligations': nob,
            'discharged': ndis,
            'checker_cmd': self.checker_cmd,
            'trusted_base': self.trusted_base,
            'evaluations': self.evaluations,
            'distinct_nontrivial': len(self.distinct),
            'rule': self.rule,
            'samples': self.samples[:8] if self.samples else ['(no sampled cases in this run)'],
            'obligation_list': [{'name': n, 'ok': ok, 'detail': d} for n, ok, d in self.obligations],
            'histogram': self.histogram,
            'known_findings_reobserved': self.known,
        }
        cov.update(self.extra)
        ev = {
            'property_id': self.pid, 'tier': self.tier, 'seed': self.seed, 'level': self.level,
            'coverage': cov, 'assumptions': self.assumptions, 'wall_s': round(wall, 2),
            'violations': len(self.violations),
        }
        # evidence/ describes runs against /repo itself; a run against another tree (VERIF_REPO = a scratch
        # worktree with a seeded change) must not overwrite it
        evdir = 'evidence' if os.path.realpath(REPO) == '/repo' else 'evidence_scratch'
        ev['repo'] = REPO
        os.makedirs(os.path.join(VERIF, evdir), exist_ok=True)
        with open(os.path.join(VERIF, evdir, '%s.json' % self.pid), 'w') as f:
            json.dump(ev, f, indent=1, sort_keys=True, default=repr)
        self.log('obligations %d/%d, evaluations %d, distinct non-trivial %d, violations %d, known findings %d'
                 % (ndis, nob, self.evaluations, len(self.distinct), len(self.violations), len(self.known)))
        return 1 if self.violations else 0


def _inside_section(txt, pos):
    opens = len(re.findall(r'^\s*Section\s+\w+', txt[:pos], flags=re.M))
    closes = len(re.findall(r'^\s*End\s+\w+', txt[:pos], flags=re.M))
    # Module ... End also closes with End; be conservative: count Module openings too
    mods = len(re.findall(r'^\s*Module\s+(?:Type\s+)?\w+', txt[:pos], flags=re.M))
    return opens + mods - closes > 0 and opens > 0


def load_findings(pid):
    p = os.path.join(VERIF, 'known_findings', '%s.json' % pid)
    if not os.path.exists(p):
        return []
    doc = json.load(open(p))
    return [f for f in doc.get('findings', []) if f.get('property') == pid and f.get('status') == 'open']


def proof_broken(ctx, found_input_fn=None):
    """An obligation failed to check: search for a concrete failing input with
    [found_input_fn]; when none was found report the broken theorem itself."""
    failed = [(n, d) for n, ok, d in ctx.obligations if not ok]
    if ctx.violations:
        return
    ctx.violation('proof obligation no longer checks: ' + '; '.join('%s (%s)' % (n, d[:160]) for n, d in failed[:4]),
                  {'broken_obligations': [{'theorem': n, 'detail': d} for n, d in failed]}, no_input=True)
