"""Generic model-vs-library correspondence and property tests for the binary
codecs.  A codec module (harness/codec_<c>.py) provides

  CODEC                      'uper' | 'per' | 'oer' | 'der' | 'ber'
  COQ_IMPORTS                list of Coq modules under Asn1V
  in_scope(mod, t, v)        documented predicate: modelled and not in a recorded finding region
  model_encode_expr(env, ty, val, numeric) -> Coq expr : result (list Z)
  model_decode_expr(env, ty, data, numeric) -> Coq expr : result (value * nat)
  OPTS                       gen_asn1.Opts for the generator (finding regions avoided)
"""
import concurrent.futures
import os

import common
from common import C, Nat, Raw, to_coq
import gen_asn1 as G
import lib

PRELUDE = '''
Definition err_class (e : err) : Z :=
  match e with
  | EDecode | EOutOfData | EMissing _ _ => 1 | EEncode => 2 | EConstraints => 3
  | EForeign _ => 4 | EFuel => 5 | EUnmodelled => 6 end.
(* expected outcome from the implementation: bytes or an error class; an
   unmodelled model outcome (class 6) is reported separately, never as a match *)
Definition enc_agree (m : result (list Z)) (x : result (list Z)) : bool :=
  match m, x with
  | Ok a, Ok b => zlist_eqb a b
  | Err e, Err f => err_class e =? err_class f
  | _, _ => false
  end.
Definition dec_agree (m : result (value * nat)) (x : result value) : bool :=
  match m, x with
  | Ok (a, _), Ok b => value_eqb a b
  | Err e, Err f => err_class e =? err_class f
  | _, _ => false
  end.
(* Err EFuel: the model's evaluation did not finish within its fuel (nesting deeper than the fuel; CPython stops such
   inputs with RecursionError at its own, much larger, limit): no verdict, counted like an unmodelled outcome *)
Definition unmodelled {A} (m : result A) : bool := match m with Err EUnmodelled | Err EFuel => true | _ => false end.
Fixpoint collect {A B} (agree : A -> B -> bool) (um : A -> bool) (l : list (A * B)) (i : Z) : list Z * list Z :=
  match l with
  | [] => ([], [])
  | (a, b) :: r =>
    let '(bad, un) := collect agree um r (i + 1) in
    if um a then (bad, i :: un) else if agree a b then (bad, un) else (i :: bad, un)
  end.
'''

ERRCLS = {'decode': 'EDecode', 'encode': 'EEncode', 'constraints': 'EConstraints'}


def expected_term(r, conv=lambda x: x):
    """lib.attempt result -> Coq term of type result _"""
    if r[0] == 'ok':
        return C('Ok', conv(r[1]))
    cls = r[1]
    if cls in ERRCLS:
        return C('Err', C(ERRCLS[cls]))
    return C('Err', C('EForeign', cls.split(':')[-1]))


def _expr(f, *args):
    """codec bindings may or may not take the fuel argument"""
    return f(*args) if f.__code__.co_argcount >= 5 else f(*args[:4])


class Case(object):
    __slots__ = ('mod', 'text', 'tname', 't', 'value', 'numeric', 'rt', 'meta', 'gen')

    def __init__(self, mod, text, tname, t, value, numeric, gen=None, meta=None):
        self.mod, self.text, self.tname, self.t, self.value, self.numeric = mod, text, tname, t, value, numeric
        self.rt = G.make_resolver(mod)
        self.meta = meta or {}
        self.gen = gen

    def api_value(self):
        return G.to_numeric(self.rt, self.t, self.value) if self.numeric else self.value

    def replay(self, **kw):
        d = dict(spec=self.text, type=self.tname, value=repr(self.api_value()), numeric_enums=self.numeric)
        d.update(kw)
        return d


def gen_cases(ctx, opts, n_modules, values_per_type, numeric_choices=(False, True)):
    cases = []
    for _ in range(n_modules):
        mod, text, g = G.generate(ctx.rng, opts)
        numeric = ctx.rng.choice(numeric_choices)
        for tn, t in mod['types']:
            for _ in range(values_per_type):
                v = g.gen_value(t)
                cases.append(Case(mod, text, tn, t, v, numeric, g))
    return cases


def run_shards(ctx, name, imports, shards):
    """Evaluate several generated case files in parallel; returns the list of
    parsed results per shard."""
    def one(i_body):
        i, body = i_body
        return ctx.coq_eval('%s_%d' % (name.replace('-', '_'), i), imports, body)
    # build imports once, sequentially (coq_eval builds lazily under a lock)
    if shards:
        first = one((0, shards[0]))
    out = [first] if shards else []
    with concurrent.futures.ThreadPoolExecutor(max_workers=8) as ex:
        out += list(ex.map(one, list(enumerate(shards))[1:]))
    return out


def corr_encode_decode(ctx, cm, cases, fuel=40, shard=250, tag='corr'):
    """Model vs library on the same (type, value): encoder bytes / error class,
    and decoder result on the encoder's bytes.  Reports every disagreement as a
    violation with the concrete input; returns the list of (case, lib bytes)."""
    codec = cm.CODEC
    rows = []
    for c in cases:
        if not cm.in_scope(c.mod, c.t, c.value):
            ctx.count('%s:%s:out-of-scope' % (tag, codec))
            continue
        r = lib.attempt(lib.compile_string, c.text, codec, numeric_enums=c.numeric)
        if r[0] != 'ok':
            ctx.violation('generated in-scope module does not compile for %s: %s %s' % (codec, r[1], r[2][:200]),
                          c.replay(codec=codec, kind='compile'))
            continue
        spec = r[1]
        e = lib.attempt(spec.encode, c.tname, c.api_value(), check_constraints=False)
        d = None
        if e[0] == 'ok':
            d = lib.attempt(spec.decode, c.tname, e[1])
        rows.append((c, e, d))
        ctx.count('%s:%s:enc-%s' % (tag, codec, 'ok' if e[0] == 'ok' else e[1]))
        ctx.case((tag, codec, G.shape(c.rt, c.t), repr(c.value)[:40], c.numeric),
                 dict(kind=tag, codec=codec, spec=c.text, type=c.tname, value=repr(c.api_value())[:200],
                      bytes=e[1].hex()[:80] if e[0] == 'ok' else e[1]))
    shards = []
    index = []
    for s in range(0, len(rows), shard):
        part = rows[s:s + shard]
        envs = {}
        lines = [PRELUDE]
        enc_pairs, dec_pairs = [], []
        for c, e, d in part:
            key = (id(c.mod), c.numeric)
            if key not in envs:
                envs[key] = 'env%d' % len(envs)
                lines.append('Definition %s : env := %s.' % (envs[key], to_coq(G.coq_env(c.mod, c.numeric))))
            en = envs[key]
            ty = to_coq(G.coq_type(c.rt, c.t, c.numeric))
            val = to_coq(G.coq_value(c.rt, c.t, c.api_value()))
            enc_pairs.append('(%s, %s)' % (_expr(cm.model_encode_expr, en, ty, val, c.numeric, fuel), to_coq(expected_term(e, bytes))))
            if d is not None:
                if d[0] == 'ok':
                    try:
                        exp = C('Ok', G.coq_value(c.rt, c.t, d[1]))
                    except Exception:
                        exp = C('Err', C('EUnmodelled'))   # the library returned an ill-shaped value
                else:
                    exp = expected_term(d)
                dec_pairs.append('(%s, %s)' % (_expr(cm.model_decode_expr, en, ty, to_coq(bytes(e[1])), c.numeric, fuel), to_coq(exp)))
            else:
                dec_pairs.append(None)
        lines.append('Eval vm_compute in collect enc_agree unmodelled [%s] 0.' % ';\n '.join(enc_pairs))
        lines.append('Eval vm_compute in collect dec_agree unmodelled [%s] 0.' % ';\n '.join(p for p in dec_pairs if p))
        shards.append('\n'.join(lines) + '\n')
        index.append((part, [i for i, p in enumerate(dec_pairs) if p]))
    results = run_shards(ctx, '%s_%s' % (tag, codec), ['Base.Prelude', 'Base.Corr', 'Syntax.Asn1'] + cm.COQ_IMPORTS, shards)
    n_un = 0
    for (part, dec_idx), res in zip(index, results):
        (ebad, eun), (dbad, dun) = res
        n_un += len(eun) + len(dun)
        for i in ebad:
            c, e, d = part[i]
            ctx.violation('%s encoder: model and library disagree (library: %s)' % (
                codec, e[1].hex()[:80] if e[0] == 'ok' else e[1:3]),
                c.replay(codec=codec, kind='corr-encode', lib=e[1].hex() if e[0] == 'ok' else list(e[1:3])))
        for j in dbad:
            c, e, d = part[dec_idx[j]]
            ctx.violation('%s decoder: model and library disagree on %s (library: %s)' % (
                codec, e[1].hex()[:80], repr(d[1:])[:160]),
                c.replay(codec=codec, kind='corr-decode', data=e[1].hex(), lib=repr(d[1:])[:400]))
    ctx.count('%s:%s:model-unmodelled' % (tag, codec), n_un)
    return rows


def corr_decode_bytes(ctx, cm, items, fuel=40, shard=300, tag='corr-mal'):
    """Model vs library decoders on arbitrary byte strings.
    items: list of (case, data bytes)."""
    codec = cm.CODEC
    rows = []
    for c, data in items:
        spec = lib.compile_string(c.text, codec, numeric_enums=c.numeric)
        d = lib.attempt(spec.decode, c.tname, data)
        rows.append((c, data, d))
        ctx.count('%s:%s:%s' % (tag, codec, 'value' if d[0] == 'ok' else d[1]))
        ctx.case((tag, codec, G.shape(c.rt, c.t), data.hex()[:24]), None)
    shards, index = [], []
    for s in range(0, len(rows), shard):
        part = rows[s:s + shard]
        envs = {}
        lines = [PRELUDE]
        pairs = []
        for c, data, d in part:
            key = (id(c.mod), c.numeric)
            if key not in envs:
                envs[key] = 'env%d' % len(envs)
                lines.append('Definition %s : env := %s.' % (envs[key], to_coq(G.coq_env(c.mod, c.numeric))))
            ty = to_coq(G.coq_type(c.rt, c.t, c.numeric))
            if d[0] == 'ok':
                try:
                    exp = C('Ok', G.coq_value(c.rt, c.t, d[1]))
                except Exception:
                    exp = C('Err', C('EUnmodelled'))    # a value shape the exporter cannot express
            else:
                exp = expected_term(d)
            pairs.append('(%s, %s)' % (_expr(cm.model_decode_expr, envs[key], ty, to_coq(bytes(data)), c.numeric, fuel), to_coq(exp)))
        lines.append('Eval vm_compute in collect dec_agree unmodelled [%s] 0.' % ';\n '.join(pairs))
        shards.append('\n'.join(lines) + '\n')
        index.append(part)
    results = run_shards(ctx, '%s_%s' % (tag.replace('-', '_'), codec),
                         ['Base.Prelude', 'Base.Corr', 'Syntax.Asn1'] + cm.COQ_IMPORTS, shards)
    n_un = 0
    for part, res in zip(index, results):
        ((bad, un),) = res
        n_un += len(un)
        for i in bad:
            c, data, d = part[i]
            ctx.violation('%s decoder on arbitrary bytes: model and library disagree on %s (library: %s)' % (
                codec, data.hex()[:80], repr(d[1:])[:160]),
                c.replay(codec=codec, kind='corr-decode-bytes', data=data.hex(), lib=repr(d[1:])[:400]))
    ctx.count('%s:%s:model-unmodelled' % (tag, codec), n_un)
    return rows


def mutate_bytes(rng, data, other=None):
    """One malformed variant of a valid encoding."""
    b = bytearray(data)
    k = rng.randrange(8)
    if k == 0 and b:
        i = rng.randrange(len(b))
        b[i] ^= 1 << rng.randrange(8)
    elif k == 1 and b:
        del b[rng.randrange(len(b)):]
    elif k == 2:
        b.insert(rng.randrange(len(b) + 1), rng.randrange(256))
    elif k == 3 and other:
        i = rng.randrange(len(b) + 1)
        b[i:] = other[rng.randrange(len(other) + 1):]
    elif k == 4 and b:
        i = rng.randrange(len(b))
        b[i] = rng.choice([0x80, 0xff, 0x7f, 0x00, 0xc1, 0xc4, 0x84, 0x30, 0x31])
    elif k == 5:
        b = bytearray(rng.randrange(256) for _ in range(rng.randrange(0, 24)))
    elif k == 6 and b:
        i = rng.randrange(len(b))
        b[i:i + 1] = bytes([b[i]]) * rng.randrange(2, 5)
    else:
        b += bytes(rng.randrange(256) for _ in range(rng.randrange(1, 5)))
    return bytes(b)
