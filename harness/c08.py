"""C08 — decoding arbitrary bytes always terminates within bounded time and memory."""
import json
import os
import subprocess
import sys

import common
from common import to_coq
import codec_common as CC
import gen_asn1 as G
import lib
import xcodec as X

DECODING = X.BINARY + X.TEXT


def run_worker(jobs):
    env = dict(os.environ)
    p = subprocess.Popen(['/venv/bin/python', '-W', 'ignore', os.path.join(common.VERIF, 'harness', 'c08_worker.py'),
                          common.REPO], stdin=subprocess.PIPE, stdout=subprocess.PIPE, stderr=subprocess.DEVNULL,
                         text=True, env=env)
    inp = ''.join(json.dumps(j) + '\n' for j in jobs)
    try:
        out, _ = p.communicate(inp, timeout=60 + sum(j['deadline'] for j in jobs))
    except subprocess.TimeoutExpired:
        p.kill()
        out, _ = p.communicate()
    res = {}
    for line in out.splitlines():
        try:
            r = json.loads(line)
            res[r['id']] = r
        except ValueError:
            pass
    return res


def oer_zero_width(rt, t, seen=()):
    """Can a value of this type have an OER encoding of zero octets?"""
    t0 = t
    while t0['k'] == 'REF':
        if t0['name'] in seen:
            return False
        seen = seen + (t0['name'],)
        t0 = rt(t0)
    k = t0['k']
    if k == 'NULL':
        return True
    if k in ('OCTET STRING', 'STRING', 'BIT STRING'):
        s = t0['size']
        return s is not None and not s['ext'] and s['lo'] == 0 and s['hi'] == 0
    if k in ('SEQUENCE', 'SET'):
        return t0['ext'] is None and all(m['opt'] is None and oer_zero_width(rt, m['t'], seen) for m in t0['root'])
    return False


def oer_unbounded_array(rt, t, seen=()):
    """Known finding C08 oer-zero-width-array: a SEQUENCE OF / SET OF whose elements may occupy no octets
    makes the decoder loop 'quantity' times, and the quantity field is an arbitrary big integer."""
    k = t['k']
    if k == 'REF':
        return False if t['name'] in seen else oer_unbounded_array(rt, rt(t), seen + (t['name'],))
    if k in ('SEQUENCE OF', 'SET OF'):
        return oer_zero_width(rt, t['elem']) or oer_unbounded_array(rt, t['elem'], seen)
    if k in ('SEQUENCE', 'SET'):
        return any(oer_unbounded_array(rt, m['t'], seen) for m in G.all_members(t))
    if k == 'CHOICE':
        return any(oer_unbounded_array(rt, m['t'], seen) for m in t['root'] + (t['ext'] or []))
    return False


def per_zero_width(rt, t, seen=()):
    """Can a value of this type have a PER/UPER encoding of zero bits?"""
    t0 = t
    while t0['k'] == 'REF':
        if t0['name'] in seen:
            return False
        seen = seen + (t0['name'],)
        t0 = rt(t0)
    k = t0['k']
    if k == 'NULL':
        return True
    if k == 'INTEGER':
        c = t0.get('c')
        return bool(c) and not c.get('ext') and c.get('lo') is not None and c.get('lo') == c.get('hi')
    if k == 'ENUMERATED':
        return t0['ext'] is None and len(t0['root']) == 1
    if k in ('OCTET STRING', 'STRING', 'BIT STRING'):
        sz = t0['size']
        if sz is None or sz['ext'] or sz['lo'] != sz['hi']:
            return False
        return sz['lo'] == 0 or (k == 'STRING' and t0.get('alpha') is not None and len(t0['alpha']) == 1)
    if k in ('SEQUENCE', 'SET'):
        return t0['ext'] is None and all(m['opt'] is None and per_zero_width(rt, m['t'], seen) for m in t0['root'])
    if k == 'CHOICE':
        return t0['ext'] is None and len(t0['root']) == 1 and per_zero_width(rt, t0['root'][0]['t'], seen)
    if k in ('SEQUENCE OF', 'SET OF'):
        sz = t0['size']
        return sz is not None and not sz['ext'] and sz['lo'] == sz['hi'] and \
            (sz['lo'] == 0 or per_zero_width(rt, t0['elem'], seen))
    return False


def per_unbounded_array(rt, t, seen=()):
    """Known finding C08 uper-zero-width-array-amplification: a SEQUENCE OF / SET OF of zero-width elements whose
    count comes from an unconstrained (fragmented) length determinant: 65536 elements per input octet."""
    k = t['k']
    if k == 'REF':
        return False if t['name'] in seen else per_unbounded_array(rt, rt(t), seen + (t['name'],))
    if k in ('SEQUENCE OF', 'SET OF'):
        sz = t['size']
        open_count = sz is None or sz['ext'] or sz['hi'] is None or sz['hi'] >= 65536
        return (open_count and per_zero_width(rt, t['elem'])) or per_unbounded_array(rt, t['elem'], seen)
    if k in ('SEQUENCE', 'SET'):
        return any(per_unbounded_array(rt, m['t'], seen) for m in G.all_members(t))
    if k == 'CHOICE':
        return any(per_unbounded_array(rt, m['t'], seen) for m in t['root'] + (t['ext'] or []))
    return False


def tlv_parse(data, pos=0, end=None):
    """Definite-length TLV forest of a DER/BER encoder output: [(identifier octets, children | None, contents)]."""
    end = len(data) if end is None else end
    out = []
    while pos < end:
        start = pos
        first = data[pos]
        pos += 1
        if first & 0x1f == 0x1f:
            while data[pos] & 0x80:
                pos += 1
            pos += 1
        ident = data[start:pos]
        l0 = data[pos]
        pos += 1
        if l0 & 0x80:
            n = l0 & 0x7f
            length = int.from_bytes(data[pos:pos + n], 'big')
            pos += n
        else:
            length = l0
        body = data[pos:pos + length]
        kids = None
        if first & 0x20:
            try:
                kids = tlv_parse(data, pos, pos + length)
            except Exception:
                kids = None
        out.append([bytes(ident), kids, bytes(body)])
        pos += length
    return out


def tlv_write(nodes, rng, st):
    out = b''
    for ident, kids, body in nodes:
        if kids is not None:
            content = tlv_write(kids, rng, st)
            if st.get('indef') is not None and st['count'] == st['indef']:
                # this constructed node becomes indefinite length; optionally without end-of-contents
                st['count'] += 1
                out += ident + b'\x80' + content + (b'' if st.get('drop_eoc') else b'\x00\x00')
                continue
            st['count'] += 1
        else:
            content = body
        n = len(content)
        le = bytes([n]) if n < 128 else bytes([0x80 | ((n.bit_length() + 7) // 8)]) + n.to_bytes((n.bit_length() + 7) // 8, 'big')
        out += ident + le + content
    return out


def count_constructed(nodes):
    return sum(1 + count_constructed(k) for _, k, _ in nodes if k is not None)


def retag_one(nodes, rng):
    flat = []

    def walk(ns):
        for n in ns:
            flat.append(n)
            if n[1] is not None:
                walk(n[1])
    walk(nodes)
    if not flat:
        return
    n = rng.choice(flat)
    b = bytearray(n[0])
    b[0] = (b[0] & 0x20) | rng.choice([0x01, 0x02, 0x04, 0x05, 0x0c, 0x10, 0x80, 0x81, 0x40, 0xc3, 0x1e])
    if b[0] & 0x1f == 0x1f:
        b[0] ^= 1
    n[0] = bytes(b[:1])


def constructed_leaf(nodes, rng):
    """A primitive leaf rewritten in CONSTRUCTED form (the form BER allows for strings and the encoder never emits):
    its contents become segments, one of them with a foreign tag, or the original contents are left to be read as
    segments.  A decoder that retries a mismatching segment at the same offset never returns."""
    flat = []

    def walk(ns):
        for n in ns:
            if n[1] is None:
                flat.append(n)
            else:
                walk(n[1])
    walk(nodes)
    if not flat:
        return
    n = rng.choice(flat)
    body = n[2]
    b = bytearray(n[0])
    b[0] |= 0x20
    n[0] = bytes(b)

    def seg(t, c):
        return bytes([t, len(c) & 0x7f]) + c[:127]
    x = rng.random()
    if x < .3:
        return                                   # contents as they are, now read as a list of segments
    own = (b[0] & 0x1f) if (b[0] & 0xc0) == 0 and (b[0] & 0x1f) in (3, 4, 12, 18, 19, 22, 26) else 4
    if own == 3:
        body = body[1:] if body else body
    wrong = rng.choice([0x02, 0x05, 0x01, 0x0c if own != 0x0c else 0x04, 0x30, 0x80, 0x24])
    h = rng.randrange(0, len(body) + 1)
    pre = (b'\x00' if own == 3 else b'')
    parts = [seg(own, pre + body[:h]), seg(wrong, b'\x12'), seg(own, pre + body[h:])]
    if x < .5:
        parts = parts[1:]                        # the foreign segment comes first
    elif x < .6:
        parts = parts[:2]                        # ... or last
    n[2] = b''.join(parts)


def tlv_hostile(rng, enc):
    """TLV-aware hostile variant of a valid BER/DER encoding: a constructed node rewritten to indefinite
    length (with or without end-of-contents), a substituted tag somewhere, or both."""
    try:
        nodes = tlv_parse(enc)
    except Exception:
        return None
    k = count_constructed(nodes)
    st = {'count': 0, 'indef': rng.randrange(k) if k and rng.random() < .8 else None, 'drop_eoc': rng.random() < .25}
    if rng.random() < .35:
        constructed_leaf(nodes, rng)
    elif rng.random() < .7 or st['indef'] is None:
        retag_one(nodes, rng)
    try:
        return tlv_write(nodes, rng, st)
    except Exception:
        return None


def hostile_inputs(ctx, c, enc, others, n, codec=None):
    rng = ctx.rng
    out = []
    for _ in range(n):
        p = rng.random()
        if codec in ('ber', 'der') and p < .35:
            d = tlv_hostile(rng, enc)
            if d is None:
                d = CC.mutate_bytes(rng, enc)
        elif p < .12:
            # count amplifiers: a valid prefix followed by a run of maximal fragment markers (PER/UPER) or a huge
            # quantity / length field (OER, BER)
            cut = rng.choice([0, 0, 1, rng.randrange(0, len(enc) + 1)])
            k = rng.choice([3, 16, 200, 1000, 4000])
            filler = {'uper': b'\xc4', 'per': b'\xc4', 'oer': b'\x84\xff\xff\xff\xff', 'ber': b'\x30\x84\xff\xff\xff\xff',
                      'der': b'\x30\x84\xff\xff\xff\xff'}.get(codec, b'[')
            if codec == 'oer' and rng.random() < .6:
                # a quantity field (length-of-quantity octet + quantity) announcing 2^24 .. 2^32 elements
                q = rng.choice([b'\x04\x04\x00\x00\x00', b'\x04\x10\x00\x00\x00', b'\x03\xff\xff\xff', b'\x04\xff\xff\xff\xff',
                                b'\x05\x01\x00\x00\x00\x00'])
                d = enc[:cut] + q + bytes(rng.randrange(256) for _ in range(rng.choice([0, 3, 16, 200])))
            else:
                d = (enc[:cut] + filler * k)[:4096] + bytes(rng.randrange(256) for _ in range(rng.choice([0, 1, 4])))
        elif p < .7:
            d = CC.mutate_bytes(rng, enc, rng.choice(others) if others else None)
            if rng.random() < .3:
                d = CC.mutate_bytes(rng, d)
        elif p < .9:
            d = bytes(rng.randrange(256) for _ in range(rng.choice([0, 1, 2, 3, 8, 16, 64, 200])))
        else:
            d = bytes(rng.randrange(256) for _ in range(rng.choice([1000, 4096])))
        out.append(d)
    return out


PRIMS = ('read_bit', 'read_bits', 'read_non_negative_binary_integer', 'skip_bits')


def python_primitive_reads(spec, tname, data):
    """Number of primitive read calls per.Decoder performs while decoding [data] (success or error): the quantity the
    cost model's unit over-approximates.  Counted by wrapping the four leaf readers for the duration of one call."""
    import asn1tools.codecs.per as P
    count = [0]
    saved = {}
    depth = [0]

    def wrap(name):
        f = getattr(P.Decoder, name)
        saved[name] = f

        def g(self, *a):
            if depth[0] == 0:
                count[0] += 1
            depth[0] += 1
            try:
                return f(self, *a)
            finally:
                depth[0] -= 1
        setattr(P.Decoder, name, g)
    for n in PRIMS:
        wrap(n)
    try:
        out = lib.attempt(spec.decode, tname, data)
    finally:
        for n, f in saved.items():
            setattr(P.Decoder, n, f)
    return count[0], out


def cost_tie(ctx, cm, items):
    """Ties the step count of Per/UperCost.v to the code: on the same inputs the model's count is never below the
    number of primitive reads Python performs, and (theorem C08_uper_decode_cost_bound, re-evaluated here as a
    sanity check of the printed numbers) never above K * (8 * octets + 1)."""
    rows = []
    for c, data in items:
        spec = lib.compile_string(c.text, cm.CODEC, numeric_enums=c.numeric)
        n, out = python_primitive_reads(spec, c.tname, data)
        rows.append((c, data, n, out))
    shards, index = [], []
    for s0 in range(0, len(rows), 60):
        part = rows[s0:s0 + 60]
        envs, lines, cells = {}, [], []
        for c, data, n, out in part:
            key = (id(c.mod), c.numeric)
            if key not in envs:
                envs[key] = 'env%d' % len(envs)
                lines.append('Definition %s : env := %s.' % (envs[key], to_coq(G.coq_env(c.mod, c.numeric))))
            ty = to_coq(G.coq_type(c.rt, c.t, c.numeric))
            cells.append('(Z.of_N (snd (uper_decode_cost %s 40 %s %s %s)), Z.of_N (K %s 40 %s))' % (
                'true' if c.numeric else 'false', envs[key], ty, to_coq(bytes(data)), envs[key], ty))
        lines.append('Eval vm_compute in [%s].' % ';\n '.join(cells))
        shards.append('\n'.join(lines) + '\n')
        index.append(part)
    res = CC.run_shards(ctx, 'cost_uper', ['Base.Prelude', 'Base.Corr', 'Syntax.Asn1'] + cm.COQ_IMPORTS +
                        ['Per.UperCost', 'Per.UperCostProofs'], shards)
    worst = 0.0
    for part, r in zip(index, res):
        (cells,) = r
        for (c, data, n, out), (cost, k) in zip(part, cells):
            ctx.evaluations += 1
            ctx.count('cost-tie:%s' % ('value' if out[0] == 'ok' else out[1]))
            if cost:
                worst = max(worst, n / float(cost))
            rep = c.replay(codec='uper', kind='cost-tie', data=data.hex(), python_reads=n, model_cost=cost, K=k)
            if n > cost:
                ctx.violation('uper: Python performs %d primitive reads on a %d-octet input, the cost model of '
                              'Per/UperCost.v counts only %d steps' % (n, len(data), cost), rep)
            if cost > k * (8 * len(data) + 1):
                ctx.violation('uper: model cost %d exceeds K * (8 * octets + 1) = %d' % (cost, k * (8 * len(data) + 1)), rep)
    ctx.extra['cost_tie_max_python_reads_per_model_step'] = round(worst, 3)


BER_UNIT = 4
BER_PRIMS = ('decode_length', 'is_end_of_data', 'detect_end_of_contents_tag', 'skip_tag', 'skip_tag_length_contents',
             'read_tag')


def python_ber_steps(spec, tname, data):
    """Number of decode() calls of compiled BER types plus calls of ber.py's scanning primitives (outermost only)
    during one decode: the quantity the step count of Ber/BerCost.v over-approximates."""
    import asn1tools.codecs.ber as B
    count = [0]
    saved_f, saved_m = {}, []
    depth = [0]

    def wrap_prim(name):
        f = getattr(B, name, None)
        if f is None:
            return
        saved_f[name] = f

        def g(*a, **kw):
            if depth[0] == 0:
                count[0] += 1
            depth[0] += 1
            try:
                return f(*a, **kw)
            finally:
                depth[0] -= 1
        setattr(B, name, g)

    def wrap_decode(cls):
        f = cls.__dict__['decode']
        saved_m.append((cls, f))

        def g(self, *a, **kw):
            count[0] += 1
            d0 = depth[0]
            depth[0] = 0
            try:
                return f(self, *a, **kw)
            finally:
                depth[0] = d0
        setattr(cls, 'decode', g)
    for n in BER_PRIMS:
        wrap_prim(n)
    for cls in list(vars(B).values()):
        if isinstance(cls, type) and 'decode' in cls.__dict__ and callable(cls.__dict__['decode']) and cls.__name__ != 'Compiler':
            wrap_decode(cls)
    try:
        out = lib.attempt(spec.decode, tname, data)
    finally:
        for n, f in saved_f.items():
            setattr(B, n, f)
        for cls, f in saved_m:
            setattr(cls, 'decode', f)
    return count[0], out


def cost_tie_ber(ctx, items):
    """The BER analogue of cost_tie: decode() calls + scanning primitives of ber.py never exceed the step count of
    Ber/BerCost.v on the same input, which in turn stays below Kber * (octets + 1) (theorem, re-evaluated)."""
    import codec_ber as CB
    rows = []
    for c, data in items:
        if not CB.module_in_scope(c.mod, 'ber'):
            continue
        spec = lib.compile_string(c.text, 'ber', numeric_enums=c.numeric)
        n, out = python_ber_steps(spec, c.tname, data)
        rows.append((c, data, n, out))
    shards, index = [], []
    for s0 in range(0, len(rows), 50):
        part = rows[s0:s0 + 50]
        envs, lines, cells = {}, [], []
        for c, data, n, out in part:
            key = (id(c.mod), c.numeric)
            rt_of = CB.Resolver(c.mod)
            if key not in envs:
                envs[key] = 'env%d' % len(envs)
                lines.append('Definition %s : env := %s.' % (envs[key], to_coq(CB.coq_env(c.mod, c.numeric))))
            ty = to_coq(CB.coq_named_type(c.mod, rt_of, c.t, c.numeric))
            nm = 'true' if c.numeric else 'false'
            cells.append('(Z.of_N (snd (ber_decode_cost %s %s %s %s %s)), Z.of_N (Kber %s %s %s))' % (
                nm, CB.FUEL, envs[key], ty, to_coq(bytes(data)), envs[key], CB.FUEL, ty))
        lines.append('Eval vm_compute in [%s].' % ';\n '.join(cells))
        shards.append('\n'.join(lines) + '\n')
        index.append(part)
    if not shards:
        return
    res = CC.run_shards(ctx, 'cost_ber', ['Base.Prelude', 'Base.Corr'] + CB.COQ_IMPORTS + ['Ber.DerImpl', 'Ber.BerCost', 'Ber.BerCostProofs'], shards)
    worst = 0.0
    for part, r in zip(index, res):
        (cells,) = r
        for (c, data, n, out), (cost, k) in zip(part, cells):
            ctx.evaluations += 1
            ctx.count('cost-tie-ber:%s' % ('value' if out[0] == 'ok' else out[1]))
            if cost:
                worst = max(worst, n / float(cost))
            rep = c.replay(codec='ber', kind='cost-tie', data=data.hex(), python_steps=n, model_cost=cost, K=k)
            # one model step stands for at most UNIT Python calls (a decode() of a wrapper type plus the tag and
            # length primitives it calls before the model's next step); the observed maximum is reported
            if n > BER_UNIT * cost:
                ctx.violation('ber: Python performs %d decode calls / scanning primitives on a %d-octet input, the cost '
                              'model of Ber/BerCost.v counts only %d steps (more than %d calls per step)'
                              % (n, len(data), cost, BER_UNIT), rep)
            if cost > k * (len(data) + 1):
                ctx.violation('ber: model cost %d exceeds Kber * (octets + 1) = %d' % (cost, k * (len(data) + 1)), rep)
    ctx.extra['cost_tie_ber_max_python_steps_per_model_step'] = round(worst, 3)


def run(ctx):
    if ctx.replay:
        doc = json.load(open(ctx.replay))['replay']
        job = dict(id=0, spec=doc['spec'], codec=doc['codec'], numeric=doc.get('numeric_enums', False),
                   type=doc['type'], data=doc['data'], deadline=doc.get('deadline', 5.0), sentinel=doc.get('sentinel'))
        print(run_worker([job]))
        return
    ctx.rule = ('hostile inputs = mutations of valid encodings (bit flips, truncation, insertion, splicing, '
                'length/tag tampering, repetition, appended bytes) and uniformly random strings up to 4 KiB, for '
                'generated modules x every decoding codec; each is decoded in a child with a wall deadline and an '
                'address-space limit, followed by a sentinel valid decode on the same compiled specification; '
                'distinct by (codec, type shape, input prefix); non-trivial = mutated valid encoding')
    ok = ctx.coq_props()
    mods = X.models()
    ctx.extra['modelled_codecs'] = sorted(mods)
    ctx.extra['codecs_covered'] = list(X.BINARY)
    ctx.extra['codecs_not_yet_covered'] = [c for c in X.ALL_BINARY if c not in X.BINARY]
    n = 12 if ctx.quick else 150
    per_case = 6 if ctx.quick else 12
    jobs, meta = [], {}
    corr_items = {c: [] for c in mods}
    ber_items = []
    for codec in DECODING:
        opts = X.union_opts([codec] if codec in X.BINARY else [], mods, xml_safe=(codec == 'xer'))
        cases = CC.gen_cases(ctx, opts, n, 2, numeric_choices=(False,))
        encs = []
        for c in cases:
            if codec == 'oer' and oer_unbounded_array(c.rt, c.t):
                ctx.count('hostile:oer:skipped-known-finding-region')
                continue
            if codec in ('uper', 'per') and per_unbounded_array(c.rt, c.t):
                ctx.count('hostile:%s:skipped-known-finding-region' % codec)
                continue
            spec = lib.attempt(lib.compile_string, c.text, codec)
            if spec[0] != 'ok':
                continue
            v = c.value
            e = lib.attempt(spec[1].encode, c.tname, v)
            if e[0] != 'ok':
                continue
            encs.append((c, e[1]))
        for c, enc in encs:
            others = [x for _, x in encs[:20]]
            for d in hostile_inputs(ctx, c, enc, others, per_case, codec):
                jid = len(jobs)
                deadline = 4.0 + 0.004 * len(d)
                jobs.append(dict(id=jid, spec=c.text, codec=codec, numeric=False, type=c.tname, data=d.hex(),
                                 deadline=deadline, sentinel=enc.hex()))
                meta[jid] = (c, codec, d, enc)
                if codec in mods and len(d) < 300 and X.scope_ok(codec, mods, c):
                    corr_items[codec].append((c, d))
                if codec == 'ber' and len(d) < 300:
                    ber_items.append((c, d))
    # run in parallel workers
    import concurrent.futures
    chunks = [jobs[i::12] for i in range(12)]
    results = {}
    with concurrent.futures.ThreadPoolExecutor(max_workers=12) as ex:
        for r in ex.map(run_worker, chunks):
            results.update(r)
    sentinel_expect = {}
    for jid, (c, codec, d, enc) in meta.items():
        ctx.case(('hostile', codec, G.shape(c.rt, c.t), d.hex()[:16]),
                 dict(kind='hostile', codec=codec, spec=c.text, type=c.tname, data=d.hex()[:80]))
        r = results.get(jid)
        rep = c.replay(codec=codec, kind='hostile', data=d.hex(), sentinel=enc.hex(), deadline=jobs[jid]['deadline'])
        if r is None:
            ctx.violation('%s: decoder worker died (memory/crash) on %d-octet input' % (codec, len(d)), rep)
            continue
        ctx.count('hostile:%s:%s' % (codec, r['out'][0].split(':')[0]))
        if r['out'][0] == 'timeout':
            ctx.violation('%s: decode of a %d-octet input did not finish within %.1f s' % (codec, len(d), jobs[jid]['deadline']), rep)
        elif r['out'][0] == 'memory':
            ctx.violation('%s: decode of a %d-octet input exhausted the address-space limit' % (codec, len(d)), rep)
        elif r.get('rss_growth_kb', 0) > 65536 + 64 * len(d):
            # more than 64 MiB (+ 64 KiB per input octet) of new peak memory for one decode
            ctx.violation('%s: decode of a %d-octet input raised the peak memory of the process by %d MiB'
                          % (codec, len(d), r['rss_growth_kb'] // 1024), rep)
        ctx.extra['max_rss_growth_mib'] = max(ctx.extra.get('max_rss_growth_mib', 0), r.get('rss_growth_kb', 0) // 1024)
        key = (c.text, codec, c.tname, enc)
        if r['sentinel'] is not None:
            if key not in sentinel_expect:
                spec = lib.compile_string(c.text, codec)
                try:
                    sentinel_expect[key] = repr(spec.decode(c.tname, enc))
                except Exception as e:  # noqa  (a value the library cannot read back is C01's subject: same text as the worker's)
                    sentinel_expect[key] = 'EXC ' + lib.classify(e) + ' ' + str(e)[:80]
            if r['sentinel'] != sentinel_expect[key]:
                ctx.violation('%s: after a hostile input the same specification decodes a valid message differently: %s'
                              % (codec, r['sentinel'][:120]), rep)
    for codec, items in corr_items.items():
        CC.corr_decode_bytes(ctx, mods[codec], items[:400 if ctx.quick else 4000], tag='corr-hostile')
    if 'uper' in mods:
        cost_tie(ctx, mods['uper'], corr_items['uper'][:120 if ctx.quick else 1500])
    cost_tie_ber(ctx, ber_items[:100 if ctx.quick else 1200])
    ctx.extra['max_decode_seconds'] = max([r['dt'] for r in results.values()] or [0])
    for f in common.load_findings(ctx.pid):
        w = f['witness']
        job = dict(id=0, spec=w['spec'], codec=w['codec'], numeric=False, type=w['type'], data=w['data'], deadline=5.0)
        r = run_worker([job]).get(0)
        if r is None or r['out'][0] in ('timeout', 'memory'):
            ctx.known_finding(f['id'], f['what'])
    if not ok:
        common.proof_broken(ctx)
