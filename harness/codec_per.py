"""Aligned PER: binding of the Coq model Per/PerImpl.v for the generic drivers."""
import codec_uper
import gen_asn1 as G

GENERIC = True      # usable by the generic drivers of codec_common
CODEC = 'per'
COQ_IMPORTS = ['Base.Bits', 'Base.Utf8', 'Per.UperImpl', 'Per.PerImpl']

# same finding regions as UPER, plus: a known-multiplier string outside an extensible SIZE raises
# NotImplementedError in aligned PER (already 'str_ext_outside')
AVOID = set(codec_uper.AVOID)
OPTS = dict(avoid=AVOID, str_kinds=G.KM_KINDS + ['UTF8String'])


def in_scope(mod, t, v):
    return True


def model_encode_expr(env, ty, val, numeric, fuel=40):
    return '(per_encode %s %d %s %s %s)' % ('true' if numeric else 'false', fuel, env, ty, val)


def model_decode_expr(env, ty, data, numeric, fuel=40):
    return '(per_decode %s %d %s %s %s)' % ('true' if numeric else 'false', fuel, env, ty, data)
