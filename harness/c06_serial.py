"""C06, round 5 — serial application of constraints at reference sites.

Region: a constraint written ON A REFERENCE to an already constrained type
(`Level ::= Uint8 (0..10, ...)`, `n Uint8 (1..8, ...)`, `SEQUENCE OF Str (SIZE(4))`,
a CHOICE alternative), extensible or not, narrowing, with MIN / MAX, several levels
deep, for INTEGER value ranges and for SIZE on OCTET STRING / BIT STRING / the
known-multiplier strings / UTF8String / SEQUENCE OF.  The shared generator and the
universe of Syntax/Asn1.v only have constraints on the built-in type itself.

What the octets must be is NOT decided here: a module is exported as a *surface
environment* (Oer/OerSerial.v: every entry an ordinary type or `DCon parent c`),
Coq's `elab_env` computes the effective OER-visible constraints (X.680 serial
application + X.696 8.2) and the existing X.696 specification model and the
implementation model run on the elaborated environment.  This file only
  * draws the chains (deterministic corners + ctx.rng),
  * renders the ASN.1 text for the library and the surface environment for Coq,
  * keeps its own interval bookkeeping to pick VALUES of the types (root of the
    last constraint; values outside the root when that constraint is extensible)
    and to give harness/c06.py a python view of the value shapes (`types`).
A constrained component / element / alternative site becomes an anonymous entry
`#k` of the surface environment that the constructed type refers to; the name never
reaches the library (the text has `Parent (constraint)` in that place).
"""
import gen_asn1 as G
import codec_oer as O
from common import C, to_coq

FUEL = O.FUEL

INT_POINTS = [-2 ** 63 - 1, -2 ** 63, -2 ** 31 - 1, -2 ** 31, -32769, -32768, -129, -128, -5, -1, 0, 1, 5, 10, 100, 127, 128,
              200, 255, 256, 300, 32767, 32768, 65535, 65536, 2 ** 31 - 1, 2 ** 31, 2 ** 32 - 1, 2 ** 32, 2 ** 63 - 1,
              2 ** 63, 2 ** 64 - 1, 2 ** 64]

# (lo, hi, ext) of the built-in type; None = MIN / MAX (no bound); None as a whole = no constraint
INT_BASES = [(0, 255, False), (0, 65535, False), (0, 2 ** 32 - 1, False), (0, 2 ** 64 - 1, False), (0, 2 ** 64, False),
             (-128, 127, False), (-32768, 32767, False), (-2 ** 31, 2 ** 31 - 1, False), (-2 ** 63, 2 ** 63 - 1, False),
             (-2 ** 63 - 1, 2 ** 63 - 1, False), (0, None, False), (1, None, False), (-1, None, False), (None, 100, False),
             (None, -1, False), None, (5, 300, False), (0, 10, True), (0, 255, True), (-128, 127, True), (0, 70000, True)]

SIZE_BASES = [None, (5, 5, False), (1, 5, False), (0, 8, False), (5, 5, True), (1, 5, True), (0, None, False),
              (3, None, False), (2, 20, False), (0, 300, False)]

SIZED_KINDS = ['OCTET STRING', 'BIT STRING', 'IA5String', 'VisibleString', 'NumericString', 'PrintableString',
               'UTF8String', 'SEQUENCE OF']


def lo_max(a, b):
    return b if a is None else a if b is None else max(a, b)


def hi_min(a, b):
    return b if a is None else a if b is None else min(a, b)


class IntInfo(object):
    """python bookkeeping for one INTEGER name: root of the type (value set without additions), whether the last
    constraint had a marker, and what the non-extensible constraints leave (used to pick values only)."""
    kind = 'int'

    def __init__(self):
        self.rlo = self.rhi = self.vlo = self.vhi = None
        self.ext = False

    def step(self, c):
        n = IntInfo()
        lo, hi, ext = c
        lo = self.rlo if lo is None else lo
        hi = self.rhi if hi is None else hi
        n.rlo, n.rhi, n.ext = lo_max(self.rlo, lo), hi_min(self.rhi, hi), ext
        n.vlo, n.vhi = (self.vlo, self.vhi) if ext else (lo_max(self.vlo, lo), hi_min(self.vhi, hi))
        return n

    def pytype(self):
        if self.vlo is None and self.vhi is None:
            return {'k': 'INTEGER', 'c': None, 'named': None}
        return {'k': 'INTEGER', 'c': {'lo': self.vlo, 'hi': self.vhi, 'ext': False}, 'named': None}

    def inside_root(self, x):
        return (self.rlo is None or x >= self.rlo) and (self.rhi is None or x <= self.rhi)

    def inside_vis(self, x):
        return (self.vlo is None or x >= self.vlo) and (self.vhi is None or x <= self.vhi)

    def values(self, rng, n):
        pts = INT_POINTS + [2 ** 70, -2 ** 70]
        for b in (self.rlo, self.rhi):
            if b is not None:
                pts += [b - 1, b, b + 1]
        if self.rlo is not None and self.rhi is not None:
            pts.append((self.rlo + self.rhi) // 2)
        ok = self.inside_vis if self.ext else self.inside_root     # extensible: any number the parents allow
        cand = sorted({x for x in pts if ok(x)})
        if not cand:
            return []
        edge = [x for x in cand if x in (self.rlo, self.rhi)]
        # for the variable-length forms the octets differ between signed and unsigned only from 128 on
        hot = [x for x in cand if x >= 128 or x < 0]
        out = edge[:2] + (rng.sample(hot, min(len(hot), 2)) if hot else [])
        while len(out) < n and len(out) < len(cand):
            x = rng.choice(cand)
            if x not in out:
                out.append(x)
        return out[:max(n, 2)]


class SizeInfo(object):
    kind = 'size'

    def __init__(self, base):
        self.base = base            # python type dict of the built-in type without size
        self.rlo, self.rhi, self.ext = 0, None, False
        self.any, self.vlo, self.vhi = False, 0, None

    def step(self, c):
        n = SizeInfo(self.base)
        lo, hi, ext = c
        n.rlo, n.rhi, n.ext = max(self.rlo, lo), hi_min(self.rhi, hi), ext
        if ext:
            n.any, n.vlo, n.vhi = self.any, self.vlo, self.vhi
        else:
            n.any, n.vlo, n.vhi = True, max(self.vlo, lo), hi_min(self.vhi, hi)
        return n

    def pytype(self):
        t = dict(self.base)
        t['size'] = {'lo': self.vlo, 'hi': self.vhi, 'ext': False} if self.any else None
        return t

    def values(self, rng, n):
        lens = {self.rlo, self.rhi if self.rhi is not None else self.rlo + 3,
                (self.rlo + (self.rhi if self.rhi is not None else self.rlo + 6)) // 2}
        if self.ext:                      # extensible: lengths outside the root, inside what the parents allow
            lens |= {x for x in (0, self.rlo - 1, (self.rhi or 0) + 2, 130)
                     if x >= self.vlo and (self.vhi is None or x <= self.vhi)}
        lens = sorted(x for x in lens if 0 <= x <= 400)
        if len(lens) > n:
            lens = sorted(rng.sample(lens, n))
        return [sized_value(rng, self.base, k) for k in lens]


def sized_value(rng, base, n):
    k = base['k']
    if k == 'OCTET STRING':
        return bytes(rng.randrange(256) for _ in range(n))
    if k == 'BIT STRING':
        data = bytearray(rng.randrange(256) for _ in range((n + 7) // 8))
        return (bytes(data), n)
    if k == 'STRING':
        pool = {'NumericString': '0123456789 ', 'PrintableString': 'abcXYZ019 \'()+,-./:=?',
                'UTF8String': 'a\xe5€\U0001f600z'}.get(base['sk'], 'abcXYZ~ 019!')
        return ''.join(rng.choice(pool) for _ in range(n))
    if k == 'SEQUENCE OF':
        return [rng.random() < .5 for _ in range(n)]
    raise AssertionError(k)


def sized_base(kind):
    if kind == 'OCTET STRING':
        return {'k': 'OCTET STRING', 'size': None}
    if kind == 'BIT STRING':
        return {'k': 'BIT STRING', 'size': None, 'named': None}
    if kind == 'SEQUENCE OF':
        return {'k': 'SEQUENCE OF', 'elem': {'k': 'BOOLEAN'}, 'size': None}
    return {'k': 'STRING', 'sk': kind, 'size': None, 'alpha': None}


# ---------------------------------------------------------------------------
# constraints at a site: drawn inside the root of the parent (a narrowing), extensible or not, MIN / MAX keywords

def int_site(rng, info, force_ext=None, keywords=True):
    pts = [x for x in INT_POINTS if info.inside_root(x)]
    for b in (info.rlo, info.rhi):
        if b is not None:
            pts += [x for x in (b, b + 1, b - 1, b + 10, b - 10) if info.inside_root(x)]
    pts = sorted(set(pts))
    if not pts:
        return None
    a, b = rng.choice(pts), rng.choice(pts)
    lo, hi = min(a, b), max(a, b)
    p = rng.random()
    if p < .2:
        lo = info.rlo if info.rlo is not None else lo        # same lower bound as the parent
    elif p < .3:
        hi = info.rhi if info.rhi is not None else hi
    elif p < .4:
        lo, hi = (info.rlo, info.rhi) if info.rlo is not None and info.rhi is not None else (lo, hi)   # same range
    ext = rng.random() < .5 if force_ext is None else force_ext
    if keywords:
        q = rng.random()
        if q < .12:
            lo = None                                         # MIN: the smallest value of the parent type
        elif q < .24:
            hi = None                                         # MAX
        elif q < .28:
            lo = hi = None
    if lo is None and hi is None and info.rlo is None and info.rhi is None and ext:
        ext = False                                           # (MIN..MAX, ...) on an unconstrained type: nothing to see
    return (lo, hi, ext)


def size_site(rng, info, force_ext=None):
    top = info.rhi if info.rhi is not None else info.rlo + rng.choice([2, 6, 20])
    a, b = rng.randint(info.rlo, top), rng.randint(info.rlo, top)
    lo, hi = min(a, b), max(a, b)
    p = rng.random()
    if p < .4:
        hi = lo                                               # single value: the fixed-length form when visible
    elif p < .5 and info.rhi is None:
        hi = None                                             # lo..MAX
    elif p < .6:
        lo, hi = info.rlo, info.rhi                           # the same size constraint again
    ext = (rng.random() < .45 if force_ext is None else force_ext) and hi is not None
    return (lo, hi, ext)


def render_int_con(c):
    lo, hi, ext = c
    if lo is not None and lo == hi:
        return '(%d%s)' % (lo, ', ...' if ext else '')
    return '(%s..%s%s)' % ('MIN' if lo is None else lo, 'MAX' if hi is None else hi, ', ...' if ext else '')


def render_size_con(c):
    lo, hi, ext = c
    return G.render_size({'lo': lo, 'hi': hi, 'ext': ext}).strip()


def coq_int_con(c):
    lo, hi, ext = c
    opt = lambda x: None if x is None else C('Some', x)
    return C('CInt', C('IcRange', opt(lo), opt(hi), bool(ext)))


def coq_size_con(c):
    lo, hi, ext = c
    return C('CSize', G.coq_size({'lo': lo, 'hi': hi, 'ext': ext}))


# ---------------------------------------------------------------------------

class Builder(object):
    """One module: surface entries, rendered text, python view, values."""

    def __init__(self, rng, name):
        self.rng = rng
        self.name = name
        self.entries = []      # (name, ('ty', gdict, render_dict) | ('con', parent, con))
        self.info = {}         # name -> IntInfo | SizeInfo (constrainable names only)
        self.hidden = set()
        self.vals = {}
        self.n = 0

    def fresh(self, p):
        self.n += 1
        return '%s%d' % (p, self.n)

    def base_int(self, c):
        n = self.fresh('I')
        t = {'k': 'INTEGER', 'c': None if c is None else {'lo': c[0], 'hi': c[1], 'ext': c[2]}, 'named': None}
        self.entries.append((n, ('ty', t, t)))
        self.info[n] = IntInfo() if c is None else IntInfo().step(c)
        return n

    def base_sized(self, kind, c):
        n = self.fresh('Z')
        t = sized_base(kind)
        t['size'] = None if c is None else {'lo': c[0], 'hi': c[1], 'ext': c[2]}
        self.entries.append((n, ('ty', t, t)))
        b = SizeInfo(sized_base(kind))
        self.info[n] = b if c is None else b.step(c)
        return n

    def con_text(self, parent, con):
        return '%s %s' % (parent, render_int_con(con) if self.info[parent].kind == 'int' else render_size_con(con))

    def derive(self, parent, con, hidden=False):
        """`New ::= parent (con)` (or an anonymous site when hidden)"""
        n = '#%d' % (len(self.hidden) + 1) if hidden else self.fresh('D')
        if hidden:
            self.hidden.add(n)
        self.entries.append((n, ('con', parent, con)))
        self.info[n] = self.info[parent].step(con)
        return n

    def site(self, parent, con):
        """-> (python/Coq type dict, dict for the renderer) of a constrained reference inside a constructed type"""
        h = self.derive(parent, con, hidden=True)
        return {'k': 'REF', 'name': h}, {'k': 'REF', 'name': self.con_text(parent, con)}

    def add_type(self, name, t, rt):
        self.entries.append((name, ('ty', t, rt)))

    # -- exports -----------------------------------------------------------
    def text(self):
        rmod = {'name': self.name, 'tags': 'AUTOMATIC', 'ext_implied': False, 'values': [], 'types': []}
        for n, e in self.entries:
            if n in self.hidden:
                continue
            if e[0] == 'ty':
                rmod['types'].append((n, e[2]))
            else:
                rmod['types'].append((n, {'k': 'REF', 'name': self.con_text(e[1], e[2])}))
        return G.render_module(rmod, lambda t: t)

    def pymod(self):
        types = []
        for n, e in self.entries:
            types.append((n, e[1] if e[0] == 'ty' else self.info[n].pytype()))
        mod = {'name': self.name, 'tags': 'AUTOMATIC', 'ext_implied': False, 'values': [], 'types': types,
               'hidden': set(self.hidden), 'no_older': True}
        rt_of = G.make_resolver(mod)
        senv = []
        for n, e in self.entries:
            if e[0] == 'ty':
                senv.append((n, C('DTy', O.coq_type(rt_of, e[1], False))))
            else:
                senv.append((n, C('DCon', e[1], coq_int_con(e[2]) if self.info[n].kind == 'int' else coq_size_con(e[2]))))
        mod['coq_env'] = '(elab_env %d%%nat %s)' % (FUEL, to_coq(senv))
        return mod


def leaf_values(b, name, n):
    return b.info[name].values(b.rng, n)


def container_value(b, members):
    """members: [(member name, hidden site name, optional?)] -> a value with every constrained member at an edge"""
    v = {}
    for mn, h, opt in members:
        if opt and b.rng.random() < .3:
            continue
        xs = leaf_values(b, h, 2)
        if not xs:
            return None
        v[mn] = b.rng.choice(xs)
    return v


def build_module(rng, idx, chains, quick):
    """chains: list of (kind, base constraint, [site constraints drawn lazily]) realised in one module."""
    b = Builder(rng, 'SR%d' % idx)
    leaves = []
    for kind, base, depth, force in chains:
        root = b.base_int(base) if kind == 'INTEGER' else b.base_sized(kind, base)
        cur = root
        names = [root]
        for d in range(depth):
            info = b.info[cur]
            fe = force[d] if d < len(force) else None
            con = int_site(rng, info, fe) if kind == 'INTEGER' else size_site(rng, info, fe)
            if con is None:
                break
            cur = b.derive(cur, con)
            names.append(cur)
        leaves.append((kind, names))
        for n in names:
            b.vals[n] = leaf_values(b, n, 3 if quick else 6)
    # sites inside constructed types: component (mandatory / OPTIONAL / extension addition), element, alternative
    seq_members, seq_r, seq_v = [], [], []
    adds, adds_r = [], []
    alts, alts_r, alt_sites = [], [], []
    for i, (kind, names) in enumerate(leaves):
        parent = rng.choice(names)
        info = b.info[parent]
        con = int_site(rng, info) if kind == 'INTEGER' else size_site(rng, info)
        if con is None:
            continue
        t, rt = b.site(parent, con)
        mn = 'm%d' % i
        where = rng.choice(['root', 'root', 'optional', 'addition'])
        if where == 'addition':
            adds.append({'member': {'name': mn, 't': t, 'opt': 'optional'}})
            adds_r.append({'member': {'name': mn, 't': rt, 'opt': 'optional'}})
            seq_v.append((mn, t['name'], True))
        else:
            opt = 'optional' if where == 'optional' else None
            seq_members.append({'name': mn, 't': t, 'opt': opt})
            seq_r.append({'name': mn, 't': rt, 'opt': opt})
            seq_v.append((mn, t['name'], opt is not None))
        # element site
        con2 = int_site(rng, info) if kind == 'INTEGER' else size_site(rng, info)
        if con2 is not None:
            t2, rt2 = b.site(parent, con2)
            ln = b.fresh('L')
            b.add_type(ln, {'k': 'SEQUENCE OF', 'elem': t2, 'size': None}, {'k': 'SEQUENCE OF', 'elem': rt2, 'size': None})
            xs = leaf_values(b, t2['name'], 3)
            b.vals[ln] = [xs, xs[:1]] if xs else []
        # alternative site
        con3 = int_site(rng, info) if kind == 'INTEGER' else size_site(rng, info)
        if con3 is not None:
            t3, rt3 = b.site(parent, con3)
            alts.append({'name': 'a%d' % i, 't': t3, 'opt': None})
            alts_r.append({'name': 'a%d' % i, 't': rt3, 'opt': None})
            alt_sites.append(('a%d' % i, t3['name']))
    if seq_v:
        sn = b.fresh('S')
        ext = adds if adds or rng.random() < .3 else None
        b.add_type(sn, {'k': 'SEQUENCE', 'root': seq_members, 'ext': ext},
                   {'k': 'SEQUENCE', 'root': seq_r, 'ext': adds_r if ext is not None else None})
        vs = [container_value(b, seq_v) for _ in range(3 if quick else 8)]
        full = container_value(b, [(mn, h, False) for mn, h, _ in seq_v])
        b.vals[sn] = [v for v in vs + [full] if v is not None and all(mn in v for mn, _, o in seq_v if not o)]
    if alts:
        cn = b.fresh('C')
        k = rng.randrange(1, len(alts) + 1)
        extensible = k < len(alts) or rng.random() < .3
        b.add_type(cn, {'k': 'CHOICE', 'root': alts[:k], 'ext': alts[k:] if extensible else None},
                   {'k': 'CHOICE', 'root': alts_r[:k], 'ext': alts_r[k:] if extensible else None})
        cv = []
        for an, h in alt_sites:
            for x in leaf_values(b, h, 2):
                cv.append((an, x))
        b.vals[cn] = cv
    mod = b.pymod()
    vals = {n: vs for n, vs in b.vals.items() if vs}
    for n, _ in mod['types']:
        vals.setdefault(n, [])
    return mod, b.text(), vals


def corner_chains():
    """Deterministic corners: every base with (a) an extensible narrowing, (b) a non-extensible narrowing, (c) both in
    either order — the `force` list fixes the markers, the bounds come from the generator."""
    out = []
    for base in INT_BASES:
        for force in ([True], [False], [False, True], [True, False]):
            out.append(('INTEGER', base, len(force), force))
    for kind in SIZED_KINDS:
        for base in SIZE_BASES:
            for force in ([True], [False], [False, True], [True, False]):
                out.append((kind, base, len(force), force))
    return out


def serial_modules(ctx, quick):
    """-> [(python module view, ASN.1 text, {type name: [values]})]"""
    rng = ctx.rng
    chains = corner_chains()
    if quick:
        ints = [c for c in chains if c[0] == 'INTEGER']
        sized = [c for c in chains if c[0] != 'INTEGER']
        # always: a marker on top of a fixed SIZE (every sized kind) and on top of every visible INTEGER form
        must = [c for c in sized if c[1] == (5, 5, False) and c[3] in ([True], [False, True])]
        must += [c for c in ints if c[1] is not None and not c[1][2] and c[3] == [True] and c[1][0] is not None]
        rest_i = [c for c in ints if c not in must]
        rest_s = [c for c in sized if c not in must]
        chains = must + rng.sample(rest_i, 14) + rng.sample(rest_s, 12)
    n_random = 20 if quick else 1200
    for _ in range(n_random):
        if rng.random() < .55:
            chains.append(('INTEGER', rng.choice(INT_BASES), rng.choice([1, 2, 3]), []))
        else:
            chains.append((rng.choice(SIZED_KINDS), rng.choice(SIZE_BASES), rng.choice([1, 2, 3]), []))
    rng.shuffle(chains)
    out = []
    per = 6
    for i in range(0, len(chains), per):
        out.append(build_module(rng, i // per, chains[i:i + per], quick))
    return out
