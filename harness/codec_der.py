"""DER side of the codec adapters (see codec_ber.py for the shared machinery).

    CODEC, COQ_IMPORTS, in_scope(mod, t, v),
    model_encode_expr(env_term, ty_term, value_term, numeric)  -> Coq expr : result (list Z)
    model_decode_expr(env_term, ty_term, data, numeric)         -> Coq expr : result (value * nat)
"""
from common import to_coq
import codec_ber
from codec_ber import (generate, default_opts, prepare_module, coq_env, coq_named_type, coq_type, coq_value,  # noqa: F401
                       py_value, plain, Resolver, outcome_term, eval_shards, scope_problems, module_in_scope)

CODEC = 'der'
COQ_IMPORTS = ['Base.Prelude', 'Syntax.Asn1', 'Ber.Header', 'Ber.BerCommon', 'Ber.DerImpl']
FUEL = 'DerImpl.corr_fuel'


def in_scope(mod, t, v):
    return module_in_scope(mod, CODEC)


def model_encode_expr(env_term, ty_term, value_term, numeric):
    return '(DerImpl.der_encode %s %s %s %s %s)' % (to_coq(bool(numeric)), FUEL, env_term, ty_term, value_term)


def model_decode_expr(env_term, ty_term, data, numeric):
    return '(DerImpl.der_decode %s %s %s %s %s)' % (to_coq(bool(numeric)), FUEL, env_term, ty_term,
                                                    to_coq(bytes(data)))


def spec_encode_expr(env_term, ty_term, value_term, numeric):
    """the independent X.690 encoder (Ber/X690.v): option (list Z)"""
    return '(X690.der_encode %s %s %s %s %s)' % (to_coq(bool(numeric)), env_term, FUEL, ty_term, value_term)
