"""C19 correspondence: abstract specifications / arrangements -> Coq terms of
Compile/Resolve.v ([senv]), and a structural dump of the types /repo's PER
compiler builds (asn1tools.codecs.per) into the shape of Compile/Flatten.v's
[fty], truncated at a constructor depth, for comparison with
[compile_named crepaired].

Modelled subset (the exporter fails closed with Unsupported outside it): no
named bits / named numbers, no [[ ]] groups, no COMPONENTS OF, no tags on
assignments, character strings other than IA5String without FROM.  Written tags
are not visible in the compiled PER types and are erased on both sides; the
tagging default and the EXTENSIBILITY IMPLIED flag are taken from the
specification for the dump.
"""
from common import C

from asn1tools.codecs import per


class Unsupported(Exception):
    pass


def some(x):
    return C('Some', x)


# ---------------------------------------------------------------------------
# abstract -> senv

def ex_bound(b, dflt):
    if b is None:
        return C(dflt)
    if isinstance(b, tuple):
        return C('BVal', b[1])
    return C('BNum', b)


def ex_cons(c, lo_dflt='BMin', hi_dflt='BMax'):
    if c is None:
        return None
    return some(C('Cons', ex_bound(c['lo'], lo_dflt), ex_bound(c['hi'], hi_dflt), bool(c['ext'])))


def ex_default(rt, opt):
    v = opt[1]
    k = rt['k']
    if len(opt) > 2:
        raise Unsupported('named-bit DEFAULT')
    if k == 'BOOLEAN':
        return C('TTrue') if v else C('TFalse')
    if k == 'INTEGER':
        return C('TNum', v)
    if k == 'ENUMERATED':
        return C('TIdent', v)
    if k == 'BIT STRING':
        data, n = v
        return C('TBin', ''.join('{:08b}'.format(b) for b in data)[:n])
    if k == 'OCTET STRING':
        return C('THex', v.hex().upper())
    raise Unsupported('DEFAULT of kind ' + k)


def ex_member(m, rt_of):
    if 'compof' in m:
        raise Unsupported('COMPONENTS OF')
    if m['opt'] is None:
        o = C('SMandatory')
    elif m['opt'] == 'optional':
        o = C('SOptional')
    else:
        o = C('SDefault', ex_default(rt_of(m['t']), m['opt']))
    tag = None
    if m.get('tag'):
        cls, num, mode = m['tag']
        tag = some(C('STag', cls, num, some(mode) if mode else None))
    return (m['name'], tag, ex_type(m['t'], rt_of), o)


def ex_type(t, rt_of):
    k = t['k']
    if t.get('tag'):
        raise Unsupported('tag on an assignment')
    if k == 'BOOLEAN':
        return C('SBool')
    if k == 'NULL':
        return C('SNull')
    if k == 'INTEGER':
        if t.get('named'):
            raise Unsupported('named numbers')
        return C('SInt', ex_cons(t['c']))
    if k == 'ENUMERATED':
        return C('SEnum', list(t['root']) + list(t['ext'] or []), t['ext'] is not None)
    if k == 'BIT STRING':
        if t.get('named'):
            raise Unsupported('named bits')
        return C('SBits', ex_cons(t['size'], 'BMin', 'BMax'))
    if k == 'OCTET STRING':
        return C('SOctets', ex_cons(t['size']))
    if k == 'STRING':
        if t['sk'] != 'IA5String' or t['alpha']:
            raise Unsupported('string kind')
        return C('SStr', ex_cons(t['size']))
    if k in ('SEQUENCE', 'SET', 'CHOICE'):
        root = [ex_member(m, rt_of) for m in t['root']]
        ext = None
        if t['ext'] is not None:
            ext = []
            for a in t['ext']:
                if 'group' in a:
                    raise Unsupported('addition group')
                ext.append(ex_member(a['member'] if 'member' in a else a, rt_of))
            ext = some(ext)
        if k == 'CHOICE':
            return C('SChoice', root, ext)
        return C('SSeq', k == 'SET', root, ext)
    if k in ('SEQUENCE OF', 'SET OF'):
        return C('SSeqOf', k == 'SET OF', ex_type(t['elem'], rt_of), ex_cons(t['size']))
    if k == 'REF':
        return C('SRef', t['name'], ex_cons(t.get('size')), ex_cons(t.get('c')))
    raise Unsupported(k)


def ex_env(mods):
    """Concrete modules (c13c19_gen.arrange output) -> senv, IMPORTS as render() computes them."""
    import c13c19_gen as G
    tdef, vdef, alltypes = {}, {}, {}
    for m in mods:
        for n, t in m['types']:
            tdef[n] = m['name']
            alltypes[n] = t
        for n, _ in m['values']:
            vdef[n] = m['name']

    def rt_of(t):
        n = 0
        while t['k'] == 'REF':
            t = alltypes[t['name']]
            n += 1
            assert n < 100
        return t
    out = []
    for m in mods:
        imports = {}
        for _, t in m['types']:
            for n in G.refs_of(t):
                if tdef[n] != m['name']:
                    imports.setdefault(tdef[n], set()).add(n)
            for n in G.value_refs_of(t):
                if vdef[n] != m['name']:
                    imports.setdefault(vdef[n], set()).add(n)
        out.append(C('SModule', m['name'], m['tags'], bool(m['ext_implied']),
                     [(mn, sorted(ns)) for mn, ns in sorted(imports.items())],
                     [(n, ex_type(t, rt_of)) for n, t in m['types']],
                     [(n, v) for n, v in m['values']]))
    return out


# ---------------------------------------------------------------------------
# compiled PER type -> fty-shaped tree (normalised)

def d_size(t):
    if getattr(t, 'minimum', None) is None and getattr(t, 'maximum', None) is None:
        return None
    lo = t.minimum
    hi = t.maximum
    return some(C('FCons', C('FNum', lo) if isinstance(lo, int) else C('FMin'),
                  C('FNum', hi) if isinstance(hi, int) else C('FMax'), bool(t.has_extension_marker)))


def d_default(v):
    if v is True or v is False:
        return C('VB', v)
    if isinstance(v, int):
        return C('VI', v)
    if isinstance(v, str):
        return C('VE', v)
    if isinstance(v, tuple) and len(v) == 2:
        data, n = v
        bits = [bool((data[i // 8] >> (7 - i % 8)) & 1) for i in range(n)]
        return C('VBitsV', bits)
    if isinstance(v, (bytes, bytearray)):
        return C('VBytesV', list(v))
    return C('VRaw', repr(v))


def d_member(m, depth, flags):
    if m.optional:
        o = C('FOptional')
    elif m.default is not None:
        # below the depth limit the model answers the raw token (see Flatten.v wf_default)
        o = C('FDefault', d_default(m.default) if depth > 0 else C('VRaw', '?'))
    else:
        o = C('FMandatory')
    return (m.name, None, d_type(m, depth, flags), o)


def d_type(t, depth, flags):
    n = 0
    while isinstance(t, per.Recursive):
        t = t._inner
        n += 1
        assert n < 50
    if depth == 0:
        return C('FCut')
    if isinstance(t, per.Boolean):
        return C('FBool')
    if isinstance(t, per.Null):
        return C('FNull')
    if isinstance(t, per.Integer):
        return C('FInt', int_cons(t.minimum, t.maximum, t.has_extension_marker))
    if isinstance(t, per.Enumerated):
        return C('FEnum')          # items are not compared (kept by the model from the text)
    if isinstance(t, per.BitString):
        return C('FBits', d_size(t))
    if isinstance(t, per.OctetString):
        return C('FOctets', d_size(t))
    if isinstance(t, per.IA5String):
        return C('FStr', d_size(t))
    if isinstance(t, (per.Sequence, per.Set)):
        root = [d_member(m, depth - 1, flags) for m in t.root_members]
        ext = None if t.additions is None else some([d_member(m, depth - 1, flags) for m in t.additions])
        return C('FSeq', isinstance(t, per.Set), flags[0], flags[1], root, ext)
    if isinstance(t, (per.SequenceOf, per.SetOf)):
        return C('FSeqOf', isinstance(t, per.SetOf), d_type(t.element_type, depth - 1, flags), d_size(t))
    if isinstance(t, per.Choice):
        root = [d_member(t.root_index_to_member[i], depth - 1, flags) for i in sorted(t.root_index_to_member)]
        ext = None
        if t.additions_index_to_member is not None:
            ext = some([d_member(t.additions_index_to_member[i], depth - 1, flags)
                        for i in sorted(t.additions_index_to_member)])
        return C('FChoice', flags[0], flags[1], root, ext)
    raise Unsupported(type(t).__name__)


def int_cons(lo, hi, ext):
    """per.Integer keeps no bounds when one of them is MIN / MAX."""
    if lo is None or hi is None:
        return ('open', bool(ext))
    return ('closed', lo, hi, bool(ext))


# the model's answer, normalised the same way

def n_model(t):
    """Normalise a parsed [fty] printed by Coq."""
    if not isinstance(t, C):
        return t
    if t.name == 'FInt':
        c = t.args[0]
        if c is None:
            return C('FInt', ('open', False))
        lo, hi, e = c.args[0].args
        if lo.name != 'FNum' or hi.name != 'FNum':
            return C('FInt', ('open', e))
        return C('FInt', ('closed', lo.args[0], hi.args[0], e))
    if t.name == 'FEnum':
        return C('FEnum')
    if t.name in ('FSeq', 'FChoice'):
        if t.name == 'FSeq':
            isset, tags, ei, root, ext = t.args
        else:
            tags, ei, root, ext = t.args
        root = [n_member(m) for m in root]
        ext = None if ext is None else some([n_member(m) for m in ext.args[0]])
        if ext is None and ei:
            ext = some([])                    # EXTENSIBILITY IMPLIED
        return C('FSeq', isset, tags, ei, root, ext) if t.name == 'FSeq' else C('FChoice', tags, ei, root, ext)
    if t.name == 'FSeqOf':
        return C('FSeqOf', t.args[0], n_model(t.args[1]), t.args[2])
    return t


def n_member(m):
    name, tag, f, o = m
    if isinstance(o, C) and o.name == 'FDefault':
        v = o.args[0]
        if v.name == 'VRaw':
            o = C('FDefault', C('VRaw', '?'))
    return (name, None, n_model(f), o)


def n_dump(t):
    """VRaw payloads are not comparable (Python repr vs Coq token)."""
    if not isinstance(t, C):
        return t
    if t.name in ('FSeq', 'FChoice'):
        args = list(t.args)
        args[-2] = [n_dump_member(m) for m in args[-2]]
        if args[-1] is not None:
            args[-1] = some([n_dump_member(m) for m in args[-1].args[0]])
        return C(t.name, *args)
    if t.name == 'FSeqOf':
        return C('FSeqOf', t.args[0], n_dump(t.args[1]), t.args[2])
    return t


def n_dump_member(m):
    name, tag, f, o = m
    if isinstance(o, C) and o.name == 'FDefault' and o.args[0].name == 'VRaw':
        o = C('FDefault', C('VRaw', '?'))
    return (name, None, n_dump(f), o)
