"""C13, round 5 — histories whose compile_dict calls follow each other DIRECTLY.

Region closed here.  harness/c13.py's history runner compiles its reference
object (a deep copy of the pristine parse) right after every compile step of
the history, so between two compilations of the dictionary under test there
was always a compilation of ANOTHER dictionary object.  Any process-global
state of the compile pipeline that is about "the dictionary compiled last"
(module-level memo, cache keyed by the identity of the dictionary, by the
identity plus a subset of the options ...) was flushed before it could be
consulted, and the codec objects produced earlier in a history were never
looked at again after later compilations.

What this file adds (all randomness from ctx.rng):

* sequential histories: 2..5 compile_dict calls on ONE dictionary object with
  nothing in between (options toggled between consecutive calls most of the
  time, codec changed or kept), optionally with pformat/eval / deepcopy steps
  and with FOREIGN steps (compile_dict of an equal-content copy, of a fresh
  parse of the same text, of an unrelated dictionary; any codec and option);
  every codec object of the history is kept and probed only AFTER the whole
  history, against reference objects that are compiled after the history from
  deep copies of the pristine parse or from a fresh parse of the text;
* the probe covers the checkers: encode with the default check_types=True,
  with check_constraints=True, with check_types=False; CompiledType.check_types
  / check_constraints directly; values in the representation the step's option
  requires, in the OTHER representation (names vs numbers of ENUMERATED) and
  generically ill-typed values; results are compared including the exception
  MESSAGE (the path of the offending member); decode of the reference bytes;
* an absolute oracle next to the differential one (a stale reference would be
  stale in the same way when the state is keyed by content): the model
  Compile/HistoryCheckers.v ([observe_flags ... MNone], evaluated by vm_compute
  on the exported dictionary and the same history, foreign steps included)
  says with which numeric_enums setting the codec and the type checkers of
  every compiled object of the history were compiled; on /repo that setting
  is observed from outside (which representation of a value holding an
  ENUMERATED the type checker / the codec accepts) and compared.
  Compile/HistoryCheckersProofs.v proves history independence of the triple
  (codec, type checkers, constraints checkers) for that model without a memo
  and with a memo keyed by (identity, numeric_enums), and refutes it for a memo
  keyed by the identity alone.
"""
import copy
import pprint

import common
from common import to_coq
import lib
import gen_asn1
import c13c19_gen as G
import c13c19_export as X

import asn1tools

COQ_CODEC = {'ber': 'Ber', 'der': 'Der', 'per': 'Per', 'uper': 'Uper', 'oer': 'Oer', 'jer': 'Jer', 'xer': 'Xer',
             'gser': 'Gser'}
IMPORTS = ['Base.Prelude', 'Compile.Descr', 'Compile.Preprocess', 'Compile.HistoryCheckers']
FUEL = 60

# an unrelated dictionary for foreign steps (with an ENUMERATED of its own)
OTHER_TEXT = ('Zz DEFINITIONS AUTOMATIC TAGS ::= BEGIN Q ::= SEQUENCE { k ENUMERATED { u(1), v(4), ... , w(9) }, '
              'n INTEGER (0..7) OPTIONAL } R ::= SEQUENCE OF Q END')

ENUM_KINDS = {'ENUMERATED', 'INTEGER', 'BOOLEAN', 'SEQUENCE', 'SET', 'CHOICE', 'SEQUENCE OF', 'SET OF', 'REF',
              'OCTET STRING'}


def enum_spec_opts():
    return G.SpecOpts(n_types=4, max_depth=2, recursion=False, tree_family=0, value_refs=False,
                      base_opts={'kinds': set(ENUM_KINDS)})


def with_enum(maker, tries=6):
    """A case maker that retries until the specification text holds an ENUMERATED."""
    def mk(ctx):
        for _ in range(tries):
            out = maker(ctx)
            if 'ENUMERATED' in out[2]:
                break
        return out
    return mk


def gen_seq_history(rng):
    """['compile', codec, ne] | 'pformat' | 'deepcopy' | ['foreign', what, codec, ne] with
    what in copy / parse / other."""
    n = rng.randrange(2, 6)
    mode = rng.random()
    plain = mode < .45                 # nothing at all between the compile steps
    toggle = rng.random() < .7
    ne = rng.random() < .5
    codec = rng.choice(G.CODECS)
    hist = []
    for i in range(n):
        if i:
            if toggle or rng.random() < .5:
                ne = not ne
            if rng.random() < .6:
                codec = rng.choice(G.CODECS)
            if not plain:
                p = rng.random()
                if p < .25:
                    hist.append(['foreign', rng.choice(['copy', 'parse', 'other']), rng.choice(G.CODECS),
                                 rng.random() < .5])
                elif p < .35:
                    hist.append(rng.choice(['pformat', 'deepcopy']))
        hist.append(['compile', codec, ne])
    return hist


def coq_history(hist, d_term, other_term):
    out = []
    for s in hist:
        if s == 'pformat' or s == 'deepcopy':
            out.append(common.C('WCopy'))
        elif s[0] == 'compile':
            out.append(common.C('WCompile', common.C(COQ_CODEC[s[1]]), bool(s[2])))
        else:
            out.append(common.C('WForeign', common.C('fd_other') if s[1] == 'other' else common.C('fd_same'),
                                common.C(COQ_CODEC[s[2]]), bool(s[3])))
    return out


def full(r):
    """Comparable form of a lib.attempt result: everything, messages included."""
    if r[0] == 'ok':
        v = r[1]
        return ('ok', v.hex() if isinstance(v, (bytes, bytearray)) else repr(v))
    return tuple(r[:3])


def ill_typed(v):
    """A generically ill-typed variant of an API value (wrong Python type at some position)."""
    if isinstance(v, dict) and v:
        k = sorted(v)[len(v) // 2]
        out = dict(v)
        out[k] = ill_typed(v[k]) if isinstance(v[k], (dict, list)) and v[k] else 1.5
        return out
    if isinstance(v, list) and v:
        return v[:-1] + [ill_typed(v[-1]) if isinstance(v[-1], (dict, list)) and v[-1] else 1.5]
    if isinstance(v, tuple) and len(v) == 2 and isinstance(v[0], str):
        return (v[0], 1.5)
    return 1.5


def probe(ctx, here, obj, ref, ne, names, vals, eff, rt_of):
    """Compare the codec object [obj] of a history with the reference [ref] (differential oracle)."""
    for n in names:
        for v in vals[n]:
            vnum = lib.attempt(gen_asn1.to_numeric, rt_of, eff[n], v)
            vnum = vnum[1] if vnum[0] == 'ok' else v
            has_enum = vnum != v
            mine, other = (vnum, v) if ne else (v, vnum)
            variants = [('own', mine), ('ill', ill_typed(mine))] + ([('other', other)] if has_enum else [])
            for what, x in variants:
                for kw in ({}, {'check_constraints': True}, {'check_types': False}):
                    ctx.evaluations += 1
                    a = lib.attempt(obj.encode, n, x, **kw)
                    b = lib.attempt(ref.encode, n, x, **kw)
                    if full(a) != full(b):
                        ctx.violation('encode(%s) of a value in the %s representation differs after the history: %r, '
                                      'from the fresh parse %r' % (', '.join('%s=%s' % i for i in kw.items()) or 'defaults',
                                                                   what, full(a), full(b)),
                                      dict(here, type=n, value=repr(x), kwargs=kw, after=full(a), fresh=full(b)))
                        return False
                for meth in ('check_types', 'check_constraints'):
                    ctx.evaluations += 1
                    a = lib.attempt(getattr(obj.types[n], meth), x) if n in obj.types else ('ok', 'no such type')
                    b = lib.attempt(getattr(ref.types[n], meth), x) if n in ref.types else ('ok', 'no such type')
                    if full(a) != full(b):
                        ctx.violation('%s of a value in the %s representation differs after the history: %r, from the '
                                      'fresh parse %r' % (meth, what, full(a), full(b)),
                                      dict(here, type=n, value=repr(x), method=meth, after=full(a), fresh=full(b)))
                        return False
            e = lib.attempt(ref.encode, n, mine)
            if e[0] == 'ok':
                ctx.evaluations += 1
                a = lib.attempt(obj.decode, n, e[1])
                b = lib.attempt(ref.decode, n, e[1])
                if full(a) != full(b):
                    ctx.violation('decode differs after the history: %r, from the fresh parse %r' % (full(a), full(b)),
                                  dict(here, type=n, data=e[1].hex(), after=full(a), fresh=full(b)))
                    return False
    return True


def observe(obj, names, vals, eff, rt_of):
    """Which representation of ENUMERATED values do the codec / the type checkers of [obj] accept:
    (codec flag, type checker flag), each True (numbers) / False (names) / None (not observable: no value
    holding an ENUMERATED, or no representation encodes) / a string when the object is inconsistent."""
    codec_flag = tc_flag = None
    for n in names:
        if n not in obj.types:
            continue
        for v in vals[n]:
            vnum = lib.attempt(gen_asn1.to_numeric, rt_of, eff[n], v)
            if vnum[0] != 'ok' or vnum[1] == v:
                continue
            vnum = vnum[1]
            tn = lib.attempt(obj.types[n].check_types, v)[0] == 'ok'
            tm = lib.attempt(obj.types[n].check_types, vnum)[0] == 'ok'
            f = tm if tn != tm else ('both' if tn else 'neither')
            tc_flag = f if tc_flag in (None, f) else 'mixed'
            cn = lib.attempt(obj.encode, n, v, check_types=False)[0] == 'ok'
            cm = lib.attempt(obj.encode, n, vnum, check_types=False)[0] == 'ok'
            if cn != cm:
                codec_flag = cm if codec_flag in (None, cm) else 'mixed'
    return codec_flag, tc_flag


def run_seq_history(ctx, text, d0, hist, names, vals, eff, rt_of, other_d):
    """Returns the list of observed (codec flag, type checker flag) per compile step, or None when the
    history stopped early (violation or compile error)."""
    d = copy.deepcopy(d0)
    pristine = copy.deepcopy(d0)
    objs = []
    keep = []                   # objects of the history stay alive in half of the cases (then no identity is
    alive = ctx.rng.random() < .5   # recycled); otherwise they are dropped as a caller would drop them
    for si, step in enumerate(hist):
        if step == 'pformat':
            keep.append(d)
            d = eval(pprint.pformat(d))
        elif step == 'deepcopy':
            keep.append(d)
            d = copy.deepcopy(d)
        elif step[0] == 'foreign':
            fd = {'copy': lambda: copy.deepcopy(pristine), 'parse': lambda: asn1tools.parse_string(text),
                  'other': lambda: copy.deepcopy(other_d)}[step[1]]()
            keep.append(fd)
            keep.append(lib.attempt(asn1tools.compile_dict, fd, step[2], None, step[3]))
            del fd
        else:
            objs.append((si, step[1], step[2], lib.attempt(asn1tools.compile_dict, d, step[1], None, step[2])))
        if not alive:
            del keep[:]
    # the history is over; only now the references are compiled and the objects probed
    flags = []
    complete = True
    diff_ok = True              # one differential violation per history is enough
    for k, (si, codec, ne, r) in enumerate(objs):
        here = dict(kind='seq-history', spec=text, history=hist, step=si)
        if k % 3 == 2:
            f = lib.attempt(asn1tools.compile_string, text, codec, None, ne)
        else:
            f = lib.attempt(asn1tools.compile_dict, copy.deepcopy(pristine), codec, None, ne)
        ctx.case()
        ctx.count('seq:compile:%s:%s' % (codec, 'numeric' if ne else 'names'))
        if r[0] != f[0] or (r[0] == 'err' and r[1:3] != f[1:3]):
            ctx.violation('compile_dict in the history %s, from the fresh parse %s' % (
                'succeeds' if r[0] == 'ok' else 'raises %s: %s' % r[1:3],
                'succeeds' if f[0] == 'ok' else 'raises %s: %s' % f[1:3]), here)
            return None
        if r[0] == 'err':
            ctx.count('seq:compile-error-both')
            complete = False
            flags.append(None)
            continue
        flags.append(observe(r[1], names, vals, eff, rt_of))
        if diff_ok:
            diff_ok = probe(ctx, here, r[1], f[1], ne, names, vals, eff, rt_of)
    return flags if complete else None


def run_seq_cases(ctx, ncases, case_makers, prepare):
    """[case_makers]: functions ctx -> (spec, value generator, text) (harness/c13.py's spec_case /
    ref_default_case); [prepare]: c13.prepare."""
    rng = ctx.rng
    other_d = asn1tools.parse_string(OTHER_TEXT)
    other_ex = X.ex_dict(other_d)
    cases = []
    for i in range(ncases):
        mk = case_makers[i % len(case_makers)]
        spec, vg, text = mk(ctx)
        r = lib.attempt(asn1tools.parse_string, text)
        if r[0] != 'ok':
            ctx.violation('generated specification does not parse: %s' % (r[1:],), dict(kind='parse', spec=text))
            continue
        d0 = r[1]
        hist = gen_seq_history(rng)
        names, vals, eff, rt_of = prepare(vg, spec, 2, rng)
        try:
            before = X.ex_dict(d0)
        except X.Unsupported:
            before = None
        flags = run_seq_history(ctx, text, d0, hist, names, vals, eff, rt_of, other_d)
        has_enum = 'ENUMERATED' in text
        ctx.case(('seq', spec.tags, has_enum, tuple(tuple(s) if isinstance(s, list) else s for s in hist)),
                 dict(kind='seq-history', spec=text[:300], history=hist))
        ctx.count('seq:plain' if all(isinstance(s, list) and s[0] == 'compile' for s in hist) else 'seq:interleaved')
        ctx.count('seq:with-enum' if has_enum else 'seq:no-enum')
        toggles = [s[2] for s in hist if isinstance(s, list) and s[0] == 'compile']
        if any(a != b for a, b in zip(toggles, toggles[1:])):
            ctx.count('seq:option-toggled-between-consecutive-compiles')
        if flags is not None and before is not None:
            cases.append(dict(text=text, hist=hist, before=before, flags=flags))
    if not cases:
        return
    # the model's prediction for the same histories (one coqc run)
    body = 'Definition fd_other : dict := %s.\n' % to_coq(other_ex)
    parts = []
    for k, c in enumerate(cases):
        body += 'Definition d%d : dict := %s.\n' % (k, to_coq(c['before']))
        h = to_coq(coq_history(c['hist'], None, None))
        parts.append('(let fd_same := d%d in observe_flags %d repaired MNone %s d%d)' % (k, FUEL, h, k))
    body += 'Eval vm_compute in [%s].\n' % '; '.join(parts)
    (res,) = ctx.coq_eval('seq', IMPORTS, body)
    agree = 0
    for c, m in zip(cases, res):
        here = dict(kind='seq-history', spec=c['text'], history=c['hist'])
        if not (isinstance(m, common.C) and m.name == 'Ok'):
            ctx.violation('every compile_dict of the history succeeds on /repo, the stateful model answers %r' % (m,), here)
            continue
        want = m.args[0]
        if len(want) != len(c['flags']):
            ctx.violation('the stateful model compiles %d objects, /repo %d' % (len(want), len(c['flags'])), here)
            continue
        ok = True
        for k, ((mc, mt, _mcc), (oc, ot)) in enumerate(zip(want, c['flags'])):
            ctx.evaluations += 1
            for which, mo, ob in (('codec', mc, oc), ('type checkers', mt, ot)):
                if ob is None:
                    continue            # no value holding an ENUMERATED, or (codec) no representation encodes
                if ob != mo:
                    ok = False
                    ctx.violation('compile step %d of the history: the %s of the compiled object behave as compiled with '
                                  'numeric_enums=%s, the model (no state between compile_dict calls) says %s'
                                  % (k + 1, which, ob, mo), dict(here, compile_index=k))
                    break
            if not ok:
                break
        agree += ok
    mv = ctx.extra.setdefault('stateful_model_vs_implementation', {'cases': 0, 'agree': 0})
    mv['cases'] += len(cases)
    mv['agree'] += agree
    ctx.log('sequential histories: %d run, %d/%d agree with the stateful model (numeric_enums setting of codec and '
            'type checkers per compiled object)' % (ncases, agree, len(cases)))


def replay(ctx, r, prepare_values=None):
    """Replay of a 'seq-history' violation."""
    text, hist = r['spec'], r['history']
    d = asn1tools.parse_string(text)
    pristine = copy.deepcopy(d)
    other_d = asn1tools.parse_string(OTHER_TEXT)
    keep, objs = [], {}
    for si, step in enumerate(hist):
        if step == 'pformat':
            keep.append(d)
            d = eval(pprint.pformat(d))
        elif step == 'deepcopy':
            keep.append(d)
            d = copy.deepcopy(d)
        elif step[0] == 'foreign':
            fd = {'copy': lambda: copy.deepcopy(pristine), 'parse': lambda: asn1tools.parse_string(text),
                  'other': lambda: copy.deepcopy(other_d)}[step[1]]()
            keep.append(fd)
            keep.append(lib.attempt(asn1tools.compile_dict, fd, step[2], None, step[3]))
        else:
            objs[si] = (step, lib.attempt(asn1tools.compile_dict, d, step[1], None, step[2]))
    si = r.get('step', max(objs))
    if si not in objs:
        si = sorted(objs)[r.get('compile_index', len(objs) - 1)]
    step, a = objs[si]
    b = lib.attempt(asn1tools.compile_dict, copy.deepcopy(pristine), step[1], None, step[2])
    print('history step %d %r: after history %s, fresh %s' % (si, step, a[0], b[0]))
    if a[0] == b[0] == 'ok' and 'value' in r:
        v = eval(r['value'])
        kw = r.get('kwargs', {})
        if 'method' in r:
            print('%s after history:' % r['method'], full(lib.attempt(getattr(a[1].types[r['type']], r['method']), v)))
            print('%s fresh        :' % r['method'], full(lib.attempt(getattr(b[1].types[r['type']], r['method']), v)))
        else:
            print('encode after history:', full(lib.attempt(a[1].encode, r['type'], v, **kw)))
            print('encode fresh        :', full(lib.attempt(b[1].encode, r['type'], v, **kw)))
    if a[0] == b[0] == 'ok' and 'data' in r:
        data = bytes.fromhex(r['data'])
        print('decode after history:', full(lib.attempt(a[1].decode, r['type'], data)))
        print('decode fresh        :', full(lib.attempt(b[1].decode, r['type'], data)))
