"""Abstract specifications and their textual arrangements (C13 / C19).

Layer on top of gen_asn1: an *abstract specification* is one flat list of named
types and integer values together with ONE module tagging default and ONE
EXTENSIBILITY IMPLIED flag.  An *arrangement* is a concrete list of modules
(with IMPORTS computed from the references) obtained from the abstract
specification by meaning-preserving reorganisations only:

  permute assignments, permute modules, distribute the definitions over 1..3
  modules (IMPORTS), inline a type reference (incl. one that carries a SIZE /
  range constraint, OPTIONAL, DEFAULT or a tag), extract an inline sub-type into
  a new named type (optionally leaving its SIZE / range constraint on the
  reference), replace a value reference by its number, expand COMPONENTS OF.

Abstract types are the dicts of gen_asn1 ({'k': kind, ...}) extended with

  {'k': 'REF', 'name': N, 'size': s | None, 'c': c | None}   constrained reference
  {'compof': N}                                             a COMPONENTS OF item in 'root'
  bounds that are value references: ('ref', name) in place of an int
  member['tag'] / type['tag'] = (class, number, mode)

All randomness comes from the rng passed in.
"""
import copy

import gen_asn1
from gen_asn1 import Gen, Opts, KM_KINDS

CODECS = ['ber', 'der', 'per', 'uper', 'oer', 'jer', 'xer', 'gser']


# ---------------------------------------------------------------------------
# helpers on abstract types

def members_of(t):
    """All member dicts of a SEQUENCE/SET/CHOICE (root, additions, groups)."""
    out = [m for m in t['root'] if 'compof' not in m]
    for a in t['ext'] or []:
        if 'group' in a:
            out += a['group']
        elif 'member' in a:
            out.append(a['member'])
        else:
            out.append(a)
    return out


def children(t):
    """(holder, key) slots that contain a sub-type of t."""
    k = t['k']
    if k in ('SEQUENCE', 'SET', 'CHOICE'):
        return [(m, 't') for m in members_of(t)]
    if k in ('SEQUENCE OF', 'SET OF'):
        return [(t, 'elem')]
    return []


def walk(t, f):
    f(t)
    for h, key in children(t):
        walk(h[key], f)


def refs_of(t):
    """Type names referenced by t (REF and COMPONENTS OF)."""
    out = []

    def f(x):
        if x['k'] == 'REF':
            out.append(x['name'])
        if x['k'] in ('SEQUENCE', 'SET'):
            out.extend(m['compof'] for m in x['root'] if 'compof' in m)
    walk(t, f)
    return out


def bval(b, values):
    if isinstance(b, tuple):
        return values[b[1]]
    return b


def value_refs_of(t):
    out = []

    def one(s, keys):
        if s:
            for k in keys:
                if isinstance(s.get(k), tuple):
                    out.append(s[k][1])

    def f(x):
        one(x.get('size'), ('lo', 'hi'))
        one(x.get('c'), ('lo', 'hi'))
    walk(t, f)
    return out


def reaches(types, start, target, seen=None):
    seen = seen if seen is not None else set()
    if start in seen:
        return False
    seen.add(start)
    for n in refs_of(types[start]):
        if n == target or reaches(types, n, target, seen):
            return True
    return False


class Spec(object):
    """Abstract specification."""

    def __init__(self, tags, ext_implied, types, values):
        self.tags = tags
        self.ext_implied = ext_implied
        self.has_tree = False         # add_tree_family was applied
        self.types = types            # list of (name, T)
        self.values = values          # list of (name, int)

    def tdict(self):
        return dict(self.types)

    def vdict(self):
        return dict(self.values)


# ---------------------------------------------------------------------------
# generation of an abstract specification

class SpecOpts(object):
    def __init__(self, **kw):
        self.n_types = 5
        self.max_depth = 2
        self.tag_modes = ['AUTOMATIC', 'AUTOMATIC', 'IMPLICIT', 'EXPLICIT']
        self.ext_implied = True
        self.compof = True
        self.crefs = True            # constrained references
        self.value_refs = True
        self.explicit_tags = True
        self.top_tags = True
        self.recursion = True
        # known finding size-on-element-reference: a SIZE constraint applied to a type reference is
        # honoured only when the reference is the type of a SEQUENCE/SET/CHOICE member
        self.size_on_elem_ref = False
        self.base_opts = {}          # overrides for gen_asn1.Opts
        self.reuse_member_names = True
        self.ref_defaults = True      # DEFAULTs on members whose type is a reference (BOOLEAN / INTEGER / ...)
        self.tree_family = .3         # probability of adding a recursive list family with a constrained reference to it
        self.tree_keep_names = False  # (was True while the finding recursive-placeholder-shared-through-cache was open; repaired in a9607b8)
        self.__dict__.update(kw)


def gen_spec(rng, so=None):
    so = so or SpecOpts()
    tags = rng.choice(so.tag_modes)
    o = Opts(n_types=so.n_types, max_depth=so.max_depth, tag_modes=[tags], recursion=so.recursion,
             str_kinds=list(KM_KINDS) + ['UTF8String'], int_max_bits=40, max_members=3)
    o.__dict__.update(so.base_opts)
    g = Gen(rng, o)
    mod = g.gen_module('M')
    types = [(n, t) for n, t in mod['types']]
    for _, t in types:
        walk(t, lambda x: x.update(size=None, c=None) if x['k'] == 'REF' else None)
    values = []
    spec = Spec(tags, so.ext_implied and rng.random() < .3, types, values)
    td = spec.tdict()

    def rt(t):
        n = 0
        while t['k'] == 'REF':
            t = td[t['name']]
            n += 1
            assert n < 50
        return t

    # a recursive list whose cycle goes through an alias, and a type that refers to it with a SIZE constraint:
    #   Lk ::= SEQUENCE OF Nk   Nk ::= SEQUENCE { id .., kids Ck OPTIONAL }   Ck ::= Lk   Dk ::= SEQUENCE { .., roots Lk (SIZE(a..b)) }
    if so.recursion and rng.random() < so.tree_family:
        add_tree_family(rng, g, spec, len(types))
        td = spec.tdict()

    # DEFAULT on members whose type is a reference to a BOOLEAN / INTEGER / ENUMERATED / BIT STRING / OCTET STRING type
    if so.ref_defaults:
        for _, t in types:
            def rd(x):
                if x['k'] in ('SEQUENCE', 'SET'):
                    for m in members_of(x):
                        if m['t']['k'] == 'REF' and m['opt'] is None and rng.random() < .5 and \
                                not reaches(td, m['t']['name'], m['t']['name']):
                            r = rt(m['t'])
                            if r['k'] in ('BOOLEAN', 'INTEGER', 'ENUMERATED', 'OCTET STRING', 'BIT STRING'):
                                m['opt'] = ('default', g.gen_value(r, simple=True))
            walk(t, rd)

    # named-bit defaults given as identifier lists
    for _, t in types:
        def nb(x):
            if x['k'] in ('SEQUENCE', 'SET'):
                for m in members_of(x):
                    r = rt(m['t'])
                    if r['k'] == 'BIT STRING' and r.get('named') and isinstance(m['opt'], tuple) and rng.random() < .6:
                        names = [n for n, _ in r['named'] if rng.random() < .5]
                        m['opt'] = ('default', bits_of_names(r, names), {'names': names})
        walk(t, nb)

    # constrained references: a reference to an unconstrained type carries the constraint
    if so.crefs:
        for i, (name, t) in enumerate(list(types)):
            def cr(x):
                for h, key in children(x):
                    c = h[key]
                    if c['k'] == 'REF' and rng.random() < .5 and c['name'] != name and not reaches(td, c['name'], name):
                        r = rt(c)
                        if r['k'] in ('SEQUENCE OF', 'SET OF', 'OCTET STRING', 'BIT STRING', 'STRING') and \
                                r.get('size') is None and not chain_has(td, c, 'size') and not r.get('named') and \
                                (key == 't' or so.size_on_elem_ref):
                            s = g.size_constraint()
                            if s is not None and default_fits(h, r, s, None):
                                c['size'] = s
                        elif r['k'] == 'INTEGER' and r.get('c') is None and not chain_has(td, c, 'c'):
                            ic = g.int_constraint()
                            if ic is not None and default_fits(h, r, None, ic):
                                c['c'] = ic
            walk(t, cr)

    # value references in bounds
    if so.value_refs:
        cnt = [0]

        def vr(x):
            for key in ('size', 'c'):
                s = x.get(key)
                if s:
                    for b in ('lo', 'hi'):
                        if isinstance(s.get(b), int) and rng.random() < .2 and not (key == 'size' and s['lo'] == s['hi']):
                            cnt[0] += 1
                            vn = 'val%d' % cnt[0]
                            values.append((vn, s[b]))
                            s[b] = ('ref', vn)
        for _, t in types:
            walk(t, vr)

    # the same member names in several constructed types (the compiled-type cache is keyed by member name)
    if so.reuse_member_names:
        def rn(x):
            if x['k'] in ('SEQUENCE', 'SET', 'CHOICE') and rng.random() < .4:
                if so.tree_keep_names and any(m.get('keepname') for m in members_of(x)):
                    return      # known finding recursive-placeholder-shared-through-cache
                for i, m in enumerate(members_of(x)):
                    m['name'] = 'abcdefghijklmnop'[i % 16] + ('' if i < 16 else str(i))
        for _, t in types:
            walk(t, rn)

    # explicit tags
    mk_tags(rng, spec, so)

    # COMPONENTS OF
    if so.compof:
        for name, t in types:
            def co(x):
                if x is t and x['k'] in ('SEQUENCE', 'SET') and rng.random() < .3:
                    cands = [n for n, d in types if d['k'] in ('SEQUENCE', 'SET') and n != name and
                             not reaches(td, n, name) and not d.get('tag') and
                             not (so.tree_keep_names and any(m.get('keepname') for m in members_of(d)))]
                    used = {m['name'] for m in members_of(x)}
                    cands = [n for n in cands if not ({m['name'] for m in expand_root(td, td[n])} & used)]
                    if cands:
                        src = rng.choice(cands)
                        if tags != 'AUTOMATIC' and x['k'] == 'SET':
                            return      # copied members would collide with the explicit tags of the SET
                        x['root'].insert(rng.randrange(len(x['root']) + 1), {'compof': src})
                        if tags != 'AUTOMATIC':
                            retag(x, td)
            walk(t, co)
    return spec, g


def add_tree_family(rng, g, spec, k, force_size=False):
    """Appends Lk / Nk / Ck (/ Dk) to spec.types (see gen_spec)."""
    leaf = lambda: g.gen_type(99, allow_ref=False)
    L, N, C, D = 'L%d' % k, 'N%d' % k, 'C%d' % k, 'D%d' % k
    ref = lambda n: {'k': 'REF', 'name': n, 'size': None, 'c': None}
    steps = rng.choice([0, 1, 1, 2])                 # alias steps from the node back to the list
    back = L
    fam = []
    for i in range(steps):
        an = C if i == 0 else '%sx%d' % (C, i)
        fam.append((an, ref(back)))
        back = an
    node_members = [{'name': 'id', 't': leaf(), 'opt': None},
                    {'name': 'kids', 't': ref(back), 'opt': 'optional', 'keepname': True}]
    if rng.random() < .3:
        node = {'k': 'CHOICE', 'root': [{'name': 'leaf', 't': leaf(), 'opt': None},
                                        {'name': 'kids', 't': ref(back), 'opt': None, 'keepname': True}], 'ext': None}
    else:
        node = {'k': 'SEQUENCE', 'root': node_members, 'ext': None}
    lst = {'k': rng.choice(['SEQUENCE OF', 'SEQUENCE OF', 'SET OF']), 'elem': ref(N), 'size': None}
    fam += [(L, lst), (N, node)]
    lo = rng.choice([0, 1, 1, 2])
    size = {'lo': lo, 'hi': lo + rng.choice([0, 1, 3, 6]), 'ext': rng.random() < .2}
    user_ref = ref(rng.choice([L, back]))
    if force_size or rng.random() < .8:
        user_ref['size'] = size
    doc = {'k': 'SEQUENCE', 'root': [{'name': 'title', 't': leaf(), 'opt': None},
                                     {'name': 'roots', 't': user_ref, 'opt': None, 'keepname': True}], 'ext': None}
    fam.append((D, doc))
    rng.shuffle(fam)
    spec.types.extend(fam)
    spec.has_tree = True


def chain_has(td, ref, key):
    t = ref
    n = 0
    while t['k'] == 'REF':
        t = td[t['name']]
        if t.get(key) is not None:
            return True
        n += 1
        assert n < 50
    return False


def default_fits(holder, r, size, ic):
    opt = holder.get('opt')
    if not isinstance(opt, tuple):
        return True
    v = opt[1]
    if size is not None:
        n = v[1] if r['k'] == 'BIT STRING' else len(v)
        return size['lo'] <= n and (size['hi'] is None or n <= size['hi'])
    if ic is not None:
        return (ic['lo'] is None or ic['lo'] <= v) and (ic['hi'] is None or v <= ic['hi'])
    return True


def bits_of_names(r, names):
    by = dict(r['named'])
    if not names:
        return (b'', 0)
    n = max(by[x] for x in names) + 1
    b = bytearray((n + 7) // 8)
    for x in names:
        b[by[x] // 8] |= 0x80 >> (by[x] % 8)
    return (bytes(b), n)


def expand_root(td, t, depth=0):
    """Root members of a SEQUENCE/SET with COMPONENTS OF expanded."""
    assert depth < 30
    out = []
    for m in t['root']:
        if 'compof' in m:
            out += [copy.deepcopy(x) for x in expand_root(td, td[m['compof']], depth + 1)]
        else:
            out.append(m)
    return out


def mk_tags(rng, spec, so):
    """Explicit tags.  In IMPLICIT/EXPLICIT modules every SET and CHOICE gets
    distinct context tags (so that the codecs can tell the members apart) and
    SEQUENCE members are tagged at random; in AUTOMATIC modules a few
    constructed types have explicit tags on all members (which switches
    automatic tagging off for them)."""
    auto = spec.tags == 'AUTOMATIC'

    def mode():
        return rng.choice(['', '', 'IMPLICIT', 'EXPLICIT'])

    def f(x):
        if x['k'] not in ('SEQUENCE', 'SET', 'CHOICE'):
            return
        ms = members_of(x)
        if auto:
            if so.explicit_tags and ms and rng.random() < .15:
                base = rng.choice([0, 3, 28])
                for i, m in enumerate(ms):
                    m['tag'] = ('', base + i, mode())
            return
        if x['k'] in ('SET', 'CHOICE') or (so.explicit_tags and rng.random() < .6):
            base = rng.choice([0, 0, 5, 29])
            for i, m in enumerate(ms):
                m['tag'] = ('', base + i, mode())
    for _, t in spec.types:
        walk(t, f)
    if so.top_tags and not auto:
        for i, (_, t) in enumerate(spec.types):
            if rng.random() < .2:
                t['tag'] = (rng.choice(['APPLICATION', 'PRIVATE', '']), rng.choice([1, 30, 31, 200]), mode())


def retag(x, td):
    """After inserting COMPONENTS OF into a tagged member list keep tags distinct."""
    ms = members_of(x)
    if any(m.get('tag') for m in ms):
        for i, m in enumerate(ms):
            if m.get('tag'):
                m['tag'] = (m['tag'][0], 40 + i, m['tag'][2])


# ---------------------------------------------------------------------------
# effective types (the Python analogue of Compile/Flatten.v) for value generation

def effective_types(spec):
    td = spec.tdict()
    vd = spec.vdict()

    def num(b):
        return vd[b[1]] if isinstance(b, tuple) else b

    def con(s):
        if s is None:
            return None
        s = dict(s)
        s['lo'] = num(s['lo'])
        s['hi'] = num(s['hi'])
        return s

    def eff(t, stack):
        k = t['k']
        if k == 'REF':
            if t['name'] in stack:
                return {'k': 'REF', 'name': t['name']}
            e = eff(td[t['name']], stack + (t['name'],))
            e = dict(e)
            if t.get('size') is not None:
                e['size'] = con(t['size'])
            if t.get('c') is not None:
                e['c'] = con(t['c'])
            return e
        e = dict(t)
        e.pop('tag', None)
        if 'size' in e:
            e['size'] = con(e['size'])
        if k == 'INTEGER':
            e['c'] = con(e['c'])
        if k in ('SEQUENCE', 'SET'):
            e['root'] = [mem(m, stack) for m in expand_root(td, t)]
        if k == 'CHOICE':
            e['root'] = [mem(m, stack) for m in t['root']]
        if k in ('SEQUENCE', 'SET', 'CHOICE') and t['ext'] is not None:
            ext = []
            for a in t['ext']:
                if 'group' in a:
                    ext.append({'group': [mem(m, stack) for m in a['group']]})
                elif 'member' in a:
                    ext.append({'member': mem(a['member'], stack)})
                else:
                    ext.append(mem(a, stack))
            e['ext'] = ext
        if k in ('SEQUENCE OF', 'SET OF'):
            e['elem'] = eff(t['elem'], stack)
        return e

    def mem(m, stack):
        m2 = dict(m)
        m2['t'] = eff(m['t'], stack)
        if isinstance(m2.get('opt'), tuple):
            m2['opt'] = m2['opt'][:2]
        return m2

    return [(n, eff(t, (n,))) for n, t in spec.types]


def value_gen(rng, spec):
    g = Gen(rng, Opts(big=False))
    g.types = effective_types(spec)
    g.pending = {}
    return g


# ---------------------------------------------------------------------------
# reorganisations (all act on a deep copy)

def inline_some(rng, spec, p=.5, log=None):
    td = spec.tdict()
    auto = spec.tags == 'AUTOMATIC'

    def go(owner, t):
        for h, key in children(t):
            c = h[key]
            if c['k'] == 'REF' and rng.random() < p:
                tgt = c['name']
                if tgt == owner or reaches(td, tgt, owner) or reaches(td, tgt, tgt):
                    continue
                d = copy.deepcopy(td[tgt])
                if d['k'] in ('SEQUENCE', 'SET'):
                    # COMPONENTS OF in a nested (unnamed) SEQUENCE is not expanded by the library
                    # (known finding compof-nested): expand it in the copy
                    d['root'] = [copy.deepcopy(y) for y in expand_root(td, d)]
                tag = d.pop('tag', None)
                if tag is not None:
                    if key != 't' or h.get('tag') is not None or auto:
                        continue
                    h['tag'] = tag
                if c.get('size') is not None:
                    d['size'] = c['size']
                if c.get('c') is not None:
                    d['c'] = c['c']
                h[key] = d
                if log is not None:
                    log.append('inline %s in %s%s' % (tgt, owner, ' [elem]' if key == 'elem' else ''))
            go(owner, h[key])
    for n, t in spec.types:
        if t['k'] == 'REF' and t.get('size') is None and t.get('c') is None and rng.random() < p and \
                not reaches(td, t['name'], n) and not reaches(td, t['name'], t['name']) and \
                not (td[t['name']].get('tag') and t.get('tag')):
            d = copy.deepcopy(td[t['name']])
            if t.get('tag'):
                d['tag'] = t['tag']
            if log is not None:
                log.append('inline %s at top of %s' % (t['name'], n))
            t.clear()
            t.update(d)
        go(n, t)


def extract_some(rng, spec, p=.3, log=None, size_on_elem_ref=False):
    new = []
    cnt = [0]

    def go(t):
        for h, key in children(t):
            c = h[key]
            go(c)
            if c['k'] != 'REF' and rng.random() < p:
                cnt[0] += 1
                nn = 'X%d' % cnt[0]
                ref = {'k': 'REF', 'name': nn, 'size': None, 'c': None}
                d = c
                r = rng.random()
                if r < .5 and d.get('size') is not None and not d.get('named') and (key == 't' or size_on_elem_ref):
                    # leave the SIZE constraint on the reference
                    ref['size'] = d['size']
                    d = dict(d, size=None)
                elif r < .5 and d['k'] == 'INTEGER' and d.get('c') is not None and not d.get('named'):
                    ref['c'] = d['c']
                    d = dict(d, c=None)
                new.append((nn, d))
                h[key] = ref
                if log is not None:
                    log.append('extract %s %s%s' % (nn, d['k'], ' [elem]' if key == 'elem' else ''))
    for _, t in spec.types:
        go(t)
    spec.types.extend(new)


def alias_some(rng, spec, p=.3, log=None, recursive_ok=True):
    """Replace a reference to N by a reference to a new alias  A ::= N  (so that types are reached
    through chains of references; after splitting into modules only the first name of a chain is
    imported by the referencing module).  References that close a cycle are left alone unless
    [recursive_ok] (known finding recursion-through-imported-alias)."""
    new = []
    cnt = [0]
    td = spec.tdict()

    def go(owner, t):
        for h, key in children(t):
            c = h[key]
            go(owner, c)
            if c['k'] == 'REF' and rng.random() < p:
                if not recursive_ok and (c['name'] == owner or reaches(td, c['name'], owner)):
                    continue
                cnt[0] += 1
                an = 'A%d' % (cnt[0] + 100 * len(spec.types))
                new.append((an, {'k': 'REF', 'name': c['name'], 'size': None, 'c': None}))
                td[an] = new[-1][1]
                c['name'] = an
                if log is not None:
                    log.append('alias %s%s' % (an, ' [elem]' if key == 'elem' else ''))
    for n, t in spec.types:
        go(n, t)
    spec.types.extend(new)


def expand_compof_some(rng, spec, p=.5, log=None):
    td = spec.tdict()

    def f(x):
        if x['k'] in ('SEQUENCE', 'SET'):
            out = []
            for m in x['root']:
                if 'compof' in m and rng.random() < p:
                    out += [copy.deepcopy(y) for y in td[m['compof']]['root']]
                    if log is not None:
                        log.append('expand COMPONENTS OF %s' % m['compof'])
                else:
                    out.append(m)
            x['root'] = out
    for _, t in spec.types:
        walk(t, f)


def inline_values_some(rng, spec, p=.4):
    vd = spec.vdict()

    def f(x):
        for key in ('size', 'c'):
            s = x.get(key)
            if s:
                for b in ('lo', 'hi'):
                    if isinstance(s.get(b), tuple) and rng.random() < p:
                        s[b] = vd[s[b][1]]
    for _, t in spec.types:
        walk(t, f)


ALL_KINDS = ('inline', 'extract', 'alias', 'compof', 'values', 'split', 'permute')


def arrange(rng, spec, nmods=None, reorganise=True, log=None, keep_compof_order=False, kinds=ALL_KINDS):
    """-> list of concrete modules [{'name','tags','ext_implied','types','values'}]"""
    s = copy.deepcopy(spec)
    if reorganise:
        if 'inline' in kinds and rng.random() < .7:
            inline_some(rng, s, rng.choice([.3, .6, 1.0]), log)
        if 'extract' in kinds and rng.random() < .7:
            extract_some(rng, s, rng.choice([.2, .5]), log)
        if 'inline' in kinds and rng.random() < .4:
            inline_some(rng, s, .3, log)
        if 'alias' in kinds and rng.random() < .6:
            alias_some(rng, s, rng.choice([.3, .7]), log)
            if rng.random() < .5:
                alias_some(rng, s, .5, log)          # chains of length >= 2
        if 'compof' in kinds and rng.random() < .5:
            expand_compof_some(rng, s, rng.choice([.5, 1.0]), log)
        if 'values' in kinds and rng.random() < .5:
            inline_values_some(rng, s)
    k = nmods if nmods is not None else (rng.choice([1, 1, 2, 3]) if 'split' in kinds else 1)
    names = ['Ma', 'Mb', 'Mc'][:k]
    mods = [{'name': n, 'tags': s.tags, 'ext_implied': s.ext_implied, 'types': [], 'values': []} for n in names]
    types = list(s.types)
    values = list(s.values)
    if reorganise and 'permute' in kinds:
        rng.shuffle(types)
        rng.shuffle(values)
    for nt in types:
        rng.choice(mods)['types'].append(nt)
    for nv in values:
        rng.choice(mods)['values'].append(nv)
    if reorganise and 'permute' in kinds:
        rng.shuffle(mods)
    if keep_compof_order:
        mods = compof_order(mods)
    if log is not None:
        log.append('modules ' + ' '.join('%s[%s]' % (m['name'], ','.join(n for n, _ in m['types'])) for m in mods))
    return mods


def compof_order(mods):
    """Stable re-ordering so that a module that uses COMPONENTS OF of a type in
    another module comes BEFORE that module (see known finding
    compof-module-order; the library expands COMPONENTS OF from whatever state
    the source module happens to be in)."""
    where = {}
    for m in mods:
        for n, _ in m['types']:
            where[n] = m['name']

    def uses(m):
        out = set()
        for _, t in m['types']:
            def f(x):
                if x['k'] in ('SEQUENCE', 'SET'):
                    for y in x['root']:
                        if 'compof' in y and where[y['compof']] != m['name']:
                            out.add(where[y['compof']])
            walk(t, f)
        return out
    order = []
    rest = list(mods)
    guard = 0
    while rest and guard < 20:
        guard += 1
        for m in list(rest):
            # place m when no remaining module uses COMPONENTS OF from m ... i.e. users first
            if not any(m['name'] in uses(o) for o in rest if o is not m):
                order.append(m)
                rest.remove(m)
    return order + rest


def has_cross_module_compof(mods):
    where = {}
    for m in mods:
        for n, _ in m['types']:
            where[n] = m['name']
    found = []
    for m in mods:
        for _, t in m['types']:
            def f(x):
                if x['k'] in ('SEQUENCE', 'SET'):
                    for y in x['root']:
                        if 'compof' in y and where[y['compof']] != m['name']:
                            found.append(y['compof'])
            walk(t, f)
    return bool(found)


# ---------------------------------------------------------------------------
# rendering

def r_bound(b, dflt):
    if b is None:
        return dflt
    if isinstance(b, tuple):
        return b[1]
    return '%d' % b


def r_size(s):
    if s is None:
        return ''
    if s['lo'] == s['hi'] and not isinstance(s['lo'], tuple):
        body = '%d' % s['lo']
    else:
        body = '%s..%s' % (r_bound(s['lo'], '0'), r_bound(s['hi'], 'MAX'))
    return ' (SIZE(%s%s))' % (body, ', ...' if s['ext'] else '')


def r_range(c):
    if c is None:
        return ''
    return ' (%s..%s%s)' % (r_bound(c['lo'], 'MIN'), r_bound(c['hi'], 'MAX'), ', ...' if c['ext'] else '')


def r_tag(tag):
    if not tag:
        return ''
    cls, num, mode = tag
    return '[%s%d] %s' % (cls + ' ' if cls else '', num, mode + ' ' if mode else '')


def r_value(rt, opt):
    v = opt[1]
    if len(opt) > 2 and 'names' in opt[2]:
        return '{ %s }' % ', '.join(opt[2]['names']) if opt[2]['names'] else '{ }'
    return gen_asn1.render_value(rt, v)


def r_type(t, rt_of, ind=0):
    k = t['k']
    pad = '  ' * (ind + 1)
    if k == 'REF':
        return t['name'] + r_size(t.get('size')) + r_range(t.get('c'))
    if k in ('BOOLEAN', 'NULL', 'OBJECT IDENTIFIER'):
        return k
    if k == 'INTEGER':
        s = 'INTEGER'
        if t.get('named'):
            s += ' { %s }' % ', '.join('%s(%d)' % nv for nv in t['named'])
        return s + r_range(t['c'])
    if k == 'ENUMERATED':
        items = ['%s(%d)' % nv for nv in t['root']]
        if t['ext'] is not None:
            items.append('...')
            items += ['%s(%d)' % nv for nv in t['ext']]
        return 'ENUMERATED { %s }' % ', '.join(items)
    if k == 'OCTET STRING':
        return 'OCTET STRING' + r_size(t['size'])
    if k == 'BIT STRING':
        s = 'BIT STRING'
        if t.get('named'):
            s += ' { %s }' % ', '.join('%s(%d)' % nv for nv in t['named'])
        return s + r_size(t['size'])
    if k == 'STRING':
        s = t['sk'] + r_size(t['size'])
        if t['alpha']:
            s += ' (FROM (%s))' % ' | '.join('"%s"' % c for c in t['alpha'])
        return s
    if k in ('SEQUENCE OF', 'SET OF'):
        return '%s%s OF %s' % (k.split()[0], r_size(t['size']), r_type(t['elem'], rt_of, ind))
    if k in ('SEQUENCE', 'SET', 'CHOICE'):
        items = [r_member(m, rt_of, ind + 1) for m in t['root']]
        if t['ext'] is not None:
            items.append('...')
            for a in t['ext']:
                if 'group' in a:
                    items.append('[[ %s ]]' % ', '.join(r_member(m, rt_of, ind + 1) for m in a['group']))
                elif 'member' in a:
                    items.append(r_member(a['member'], rt_of, ind + 1))
                else:
                    items.append(r_member(a, rt_of, ind + 1))
        if not items:
            return '%s { }' % k
        return '%s {\n%s%s\n%s}' % (k, pad, (',\n' + pad).join(items), '  ' * ind)
    raise AssertionError(k)


def r_member(m, rt_of, ind):
    if 'compof' in m:
        return 'COMPONENTS OF %s' % m['compof']
    s = '%s %s%s' % (m['name'], r_tag(m.get('tag')), r_type(m['t'], rt_of, ind))
    if m['opt'] == 'optional':
        s += ' OPTIONAL'
    elif m['opt'] is not None:
        s += ' DEFAULT ' + r_value(rt_of(m['t']), m['opt'])
    return s


def render(mods, compof_imports=True):
    """Text of all modules (in the given order), IMPORTS computed."""
    tdef = {}
    vdef = {}
    alltypes = {}
    for m in mods:
        for n, t in m['types']:
            tdef[n] = m['name']
            alltypes[n] = t
        for n, _ in m['values']:
            vdef[n] = m['name']

    def rt_of(t):
        n = 0
        while t['k'] == 'REF':
            t = alltypes[t['name']]
            n += 1
            assert n < 100
        return t
    out = []

    def compof_needs(t, acc_t, acc_v, depth=0):
        """Names used by the root members that COMPONENTS OF copies out of t: the library copies
        them textually and resolves them in the scope of the using module (known finding
        compof-cross-module-scope), so the using module imports them as well."""
        assert depth < 30
        for y in t['root']:
            if 'compof' in y:
                acc_t.append(y['compof'])
                compof_needs(alltypes[y['compof']], acc_t, acc_v, depth + 1)
            else:
                acc_t.extend(refs_of(y['t']))
                acc_v.extend(value_refs_of(y['t']))

    for m in mods:
        imports = {}
        for _, t in m['types']:
            tn = refs_of(t)
            vn = value_refs_of(t)
            if compof_imports:
                def f(x):
                    if x['k'] in ('SEQUENCE', 'SET'):
                        for y in x['root']:
                            if 'compof' in y:
                                compof_needs(alltypes[y['compof']], tn, vn)
                walk(t, f)
            for n in tn:
                if tdef[n] != m['name']:
                    imports.setdefault(tdef[n], set()).add(n)
            for n in vn:
                if vdef[n] != m['name']:
                    imports.setdefault(vdef[n], set()).add(n)
        lines = ['%s DEFINITIONS %s TAGS %s::= BEGIN' % (m['name'], m['tags'],
                                                         'EXTENSIBILITY IMPLIED ' if m['ext_implied'] else '')]
        if imports:
            lines.append('IMPORTS ' + ' '.join('%s FROM %s' % (', '.join(sorted(ns)), mn)
                                               for mn, ns in sorted(imports.items())) + ';')
        for n, v in m['values']:
            lines.append('%s INTEGER ::= %d' % (n, v))
        for n, t in m['types']:
            lines.append('%s ::= %s%s' % (n, r_tag(t.get('tag')), r_type(t, rt_of)))
        lines.append('END')
        out.append('\n'.join(lines) + '\n')
    return out


def render_text(mods, compof_imports=True):
    return '\n'.join(render(mods, compof_imports))
