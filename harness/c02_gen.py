"""C02 — generator layer, tree abstractions and Coq exporters for the text codecs.

Built on harness/gen_asn1.py (shared, read-only).  What this layer adds:

  * REAL.  The shared universe has no REAL; here a REAL type is the abstract
    type {'k': 'REF', 'name': 'REAL', 'real': True}: the shared renderer prints
    the reserved word REAL, the shared exporter prints [TRef "REAL"] (which
    Text/Universe.v [of_ty] maps to XTReal) and the resolver of this module
    maps it to {'k': 'REAL'}.
  * Values the text codecs accept: mandatory members of extension additions are
    always present (jer/xer raise EncodeError otherwise - by design).
  * Documented exclusions (each one is a recorded finding, see
    known_findings/C02.json, and is replayed from there, not from the stream):
      - [default_bool_through_ref]: DEFAULT on a member whose type is a
        reference to BOOLEAN (the parser keeps the string 'TRUE'; C19/C01);
        such a member is generated OPTIONAL instead.
      - [jer_bits_fixed_ext]: JER, BIT STRING (SIZE (n, ...)) with a value whose
        length is not n: the value is given n bits for JER.
      - [xer_cr]: XER, CARRIAGE RETURN inside a character string: replaced.
      - REAL values are floats (an int given for a REAL is C02-jer-real-int).
    Strings for XER are restricted to XML 1.0 Char (the property says so):
    other code points are mapped into the legal range, deterministically.
"""
import math
import struct
import xml.etree.ElementTree as ET
import json

import gen_asn1
from gen_asn1 import Gen, Opts, all_members
from common import C, Raw, to_coq

REAL_T = {'k': 'REF', 'name': 'REAL', 'real': True}

SPECIAL_REALS = [float('inf'), float('-inf'), float('nan'), 0.0, -0.0]
HARD_REALS = [1e300, 1.2345678901234567e300, 5e-324, 1.7976931348623157e308, 2.2250738585072014e-308,
              1e-7, 1e16, 1e22, 1e23, 9.999999999999999e22, 123456.789, 0.1, 0.31, -9.99, 10.0, 100.0, 1230.0,
              -1.0, 1.0, 2.5e-5, 9.999999999999999, 10.000000000000002, 99999999999999.98, 1e15, 1e17,
              4.9406564584124654e-324 * 3, 2 ** 53 + 2.0, -2.0 ** 1023, 3.0e-310]

SPICY_STRINGS = ['<a>&amp;</a>', ' ', '  x  ', 'a\nb', '\t', ']]>', '&#13;', '\'"', '<!-- x -->', '&', '<', '>',
                 '<![CDATA[x]]>', '\n', ' \n ', 'a  b', '\\u0041', '\\', '"', '/', '{"a":1}', '[]', 'null']


def is_real(t):
    return t.get('k') == 'REF' and t.get('real')


class Gen02(Gen):
    """gen_asn1.Gen plus REAL, completed extension additions, spicy strings."""

    def __init__(self, rng, opts=None, p_real=.12):
        Gen.__init__(self, rng, opts)
        self.p_real = p_real

    def gen_type(self, depth=0, allow_ref=True):
        if self.rng.random() < self.p_real:
            return dict(REAL_T)
        return Gen.gen_type(self, depth, allow_ref)

    def resolve(self, t):
        seen = 0
        while t['k'] == 'REF':
            if t.get('real'):
                return {'k': 'REAL'}
            t = dict(self.types)[t['name']] if t['name'] in dict(self.types) else self.pending[t['name']]
            seen += 1
            assert seen < 50
        return t

    def gen_member(self, depth, prefix, in_ext=False):
        m = Gen.gen_member(self, depth, prefix, in_ext)
        # exclusion [default_bool_through_ref]
        if m['opt'] not in (None, 'optional') and m['t']['k'] == 'REF' and self.resolve(m['t'])['k'] == 'BOOLEAN':
            m['opt'] = 'optional'
        return m

    def gen_real(self):
        r = self.rng
        p = r.random()
        if p < .3:
            return r.choice(SPECIAL_REALS)
        if p < .6:
            return r.choice(HARD_REALS) * r.choice([1, 1, -1])
        if p < .8:
            while True:
                v = struct.unpack('>d', struct.pack('>Q', r.getrandbits(64)))[0]
                if math.isfinite(v):
                    return v
        if p < .9:
            return r.uniform(-1e6, 1e6)
        e = r.randrange(-320, 308)
        return float('%de%d' % (r.choice([1, 5, 9, 10, 99, 123456789]), e))

    def gen_value(self, t, simple=False, depth=0):
        rt = self.resolve(t)
        k = rt['k']
        if k == 'REAL':
            return self.gen_real()
        if k == 'STRING' and not simple and rt['size'] is None and not rt['alpha'] and \
                rt['sk'] in ('UTF8String', 'IA5String', 'VisibleString') and self.rng.random() < .25:
            return self.rng.choice(SPICY_STRINGS)
        v = Gen.gen_value(self, t, simple, depth)
        if k in ('SEQUENCE', 'SET') and rt['ext'] is not None:
            for a in rt['ext']:
                for m in (a['group'] if 'group' in a else [a['member']]):
                    if m['opt'] is None and m['name'] not in v:
                        v[m['name']] = self.gen_value(m['t'], depth=depth + 1)
        return v


def make_resolver(mod):
    d = dict(mod['types'])

    def resolve(t):
        n = 0
        while t['k'] == 'REF':
            if t.get('real'):
                return {'k': 'REAL'}
            t = d[t['name']]
            n += 1
            assert n < 100
        return t
    return resolve


def effective_module(mod):
    """The module as the compiler sees it after pre_process_extensibility_implied: with
    EXTENSIBILITY IMPLIED every SEQUENCE/SET/CHOICE reachable through members and through the
    elements of SEQUENCE OF / SET OF (since the repair a305b52; not ENUMERATED) has an extension
    marker.  Used for the Coq export only."""
    if not mod.get('ext_implied'):
        return mod
    import copy
    mod = copy.deepcopy(mod)

    def visit(t):
        if t['k'] in ('SEQUENCE OF', 'SET OF'):
            visit(t['elem'])
            return
        if t['k'] not in ('SEQUENCE', 'SET', 'CHOICE'):
            return
        ms = list(t['root'])
        for a in (t['ext'] or []):
            if 'group' in a:
                ms += a['group']
            elif 'member' in a:
                ms.append(a['member'])
            else:
                ms.append(a)
        for m in ms:
            visit(m['t'])
        if t['ext'] is None:
            t['ext'] = []
    for _, t in mod['types']:
        visit(t)
    return mod


def generate(rng, opts=None, name='M', p_real=.12):
    g = Gen02(rng, opts, p_real)
    mod = g.gen_module(name)
    rt = make_resolver(mod)
    return mod, gen_asn1.render_module(mod, rt), g


# ---------------------------------------------------------------------------
# value walks

def map_value(rt_of, t, v, leaf):
    """Rebuild v with leaf(resolved_type, value) applied to every scalar."""
    t = rt_of(t)
    k = t['k']
    if k in ('SEQUENCE', 'SET'):
        by = {m['name']: m for m in all_members(t)}
        return {n: (map_value(rt_of, by[n]['t'], x, leaf) if n in by else x) for n, x in v.items()}
    if k in ('SEQUENCE OF', 'SET OF'):
        return [map_value(rt_of, t['elem'], x, leaf) for x in v]
    if k == 'CHOICE':
        by = {m['name']: m for m in t['root'] + (t['ext'] or [])}
        if v[0] not in by:
            return v
        return (v[0], map_value(rt_of, by[v[0]]['t'], v[1], leaf))
    return leaf(t, v)


def xml_legal_cp(c):
    return c in (9, 10) or 32 <= c <= 0xd7ff or 0xe000 <= c <= 0xfffd or 0x10000 <= c <= 0x10ffff


def xml_legalize(s):
    """XML 1.0 Char without CR (exclusion [xer_cr]); other code points are
    folded into printable ASCII."""
    return ''.join(ch if xml_legal_cp(ord(ch)) else chr(33 + ord(ch) % 90) for ch in s)


def for_codec(rt_of, t, v, codec, special_reals_only=False, rng=None):
    """The generated value restricted to what the property (XML-legal strings)
    and the documented exclusions allow for this codec."""
    def leaf(rt, x):
        k = rt['k']
        if k == 'STRING' and codec == 'xer':
            return xml_legalize(x)
        if k == 'BIT STRING' and codec == 'jer':
            s = rt['size']
            if s is not None and s['lo'] == s['hi'] and s['ext'] and x[1] != s['lo']:    # [jer_bits_fixed_ext]
                n = s['lo']
                b = bytearray((n + 7) // 8)
                return (bytes(b), n)
        if k == 'REAL' and special_reals_only and not (math.isnan(x) or math.isinf(x) or x == 0):
            return SPECIAL_REALS[int(abs(x) * 7) % 5] if rng is None else rng.choice(SPECIAL_REALS)
        return x
    return map_value(rt_of, t, v, leaf)


def same(a, b):
    """Python equality with floats compared by float.hex() (nan == nan,
    0.0 != -0.0)."""
    if isinstance(a, float) or isinstance(b, float):
        if not isinstance(a, (int, float)) or not isinstance(b, (int, float)) or isinstance(a, bool) or isinstance(b, bool):
            return False
        return float(a).hex() == float(b).hex() and isinstance(a, float) == isinstance(b, float)
    if type(a) != type(b) and not (isinstance(a, (bytes, bytearray)) and isinstance(b, (bytes, bytearray))):
        return False
    if isinstance(a, dict):
        return a.keys() == b.keys() and all(same(a[k], b[k]) for k in a)
    if isinstance(a, (list, tuple)):
        return len(a) == len(b) and all(same(x, y) for x, y in zip(a, b))
    return a == b


def has_kind(rt_of, t, v, kinds):
    found = []

    def leaf(rt, x):
        if rt['k'] in kinds:
            found.append(x)
        return x
    map_value(rt_of, t, v, leaf)
    return found


# ---------------------------------------------------------------------------
# Coq export (Text/Universe.v)

def real_term(f):
    f = float(f)
    if math.isnan(f):
        return C('RNaN')
    if math.isinf(f):
        return C('RInf') if f > 0 else C('RNegInf')
    if f == 0:
        return C('RNegZero') if math.copysign(1, f) < 0 else C('RZero')
    m, e = math.frexp(abs(f))
    mi = int(m * (1 << 53))
    assert mi == m * (1 << 53)
    e -= 53
    while mi % 2 == 0:
        mi //= 2
        e += 1
    return C('RFin', f < 0, mi, e)


def cps(s):
    return [ord(c) for c in s]


def xvalue(rt_of, t, v):
    """Python value -> [xvalue] term, directed by the type; shapes that do not
    fit the type (negative cases, junk keys) are exported by their own shape."""
    t = rt_of(t)
    k = t['k']
    if v is None:
        return C('XNone')
    if isinstance(v, bool):
        return C('XBool', v)
    if isinstance(v, float):
        return C('XReal', real_term(v))
    if isinstance(v, int):
        return C('XInt', v)
    if isinstance(v, (bytes, bytearray)):
        return C('XBytes', bytes(v))
    if isinstance(v, str):
        if k == 'ENUMERATED' and v.isascii():
            return C('XEnum', v)
        return C('XStr', cps(v))
    if isinstance(v, dict):
        by = {m['name']: m for m in all_members(t)} if k in ('SEQUENCE', 'SET') else {}
        return C('XSeq', [(n, xvalue(rt_of, by[n]['t'], x) if n in by else xvalue_untyped(x)) for n, x in v.items()])
    if isinstance(v, list):
        if k in ('SEQUENCE OF', 'SET OF'):
            return C('XList', [xvalue(rt_of, t['elem'], x) for x in v])
        return C('XList', [xvalue_untyped(x) for x in v])
    if isinstance(v, tuple) and len(v) == 2:
        if k == 'BIT STRING' or isinstance(v[0], (bytes, bytearray)):
            return C('XBits', bytes(v[0]), int(v[1]))
        if v[0] is None:
            return C('XUnknownChoice')
        if k == 'CHOICE':
            by = {m['name']: m for m in t['root'] + (t['ext'] or [])}
            if v[0] in by:
                return C('XChoice', v[0], xvalue(rt_of, by[v[0]]['t'], v[1]))
        return C('XChoice', v[0], xvalue_untyped(v[1]))
    raise TypeError('xvalue: %r' % (v,))


def xvalue_untyped(v):
    return xvalue(lambda t: t, {'k': '?'}, v)


def json_term(j):
    """Object returned by json.loads(object_pairs_hook=Pairs) -> [json] term."""
    if j is None:
        return C('JNull')
    if isinstance(j, bool):
        return C('JBool', j)
    if isinstance(j, int):
        return C('JInt', j)
    if isinstance(j, float):
        return C('JFloat', real_term(j))
    if isinstance(j, str):
        return C('JStr', cps(j))
    if isinstance(j, Pairs):
        return C('JObj', [(k, json_term(x)) for k, x in j])
    if isinstance(j, list):
        return C('JArr', [json_term(x) for x in j])
    raise TypeError(j)


class Pairs(list):
    """A JSON object as the list of its (key, value) pairs in document order."""


class Anomaly(Exception):
    pass


def _no_constant(name):
    raise Anomaly('non-JSON constant %s' % name)


def json_tree(data):
    """bytes -> tree (independent of jer.py: own hooks, duplicate keys are an anomaly)."""
    def pairs(ps):
        ks = [k for k, _ in ps]
        if len(set(ks)) != len(ks):
            raise Anomaly('duplicate object key')
        return Pairs(ps)
    return json.loads(data.decode('utf-8'), object_pairs_hook=pairs, parse_constant=_no_constant)


def json_untree(j):
    """tree -> plain Python object."""
    if isinstance(j, Pairs):
        return {k: json_untree(x) for k, x in j}
    if isinstance(j, list):
        return [json_untree(x) for x in j]
    return j


def xml_tree(data):
    """bytes -> (tag, text, [kids]); white-space-only text of an element that
    has children and white-space-only tails are the serialiser's indentation
    and dropped, anything else there is an anomaly."""
    def conv(e, top=False):
        if e.attrib:
            raise Anomaly('attributes on <%s>' % e.tag)
        if e.tail is not None and e.tail.strip() != '' and not top:
            raise Anomaly('text after </%s>' % e.tag)
        kids = [conv(c) for c in e]
        text = e.text
        if kids:
            if text is not None and text.strip() != '':
                raise Anomaly('mixed content in <%s>' % e.tag)
            text = None
        elif text == '':
            text = None
        return (e.tag, text, kids)
    return conv(ET.fromstring(data.decode('utf-8')), True)


def xml_term(x):
    tag, text, kids = x
    return C('XE', tag, None if text is None else C('Some', cps(text)), [xml_term(k) for k in kids])


def result_term(r, conv):
    """lib.attempt result -> [result] term."""
    if r[0] == 'ok':
        return C('Ok', conv(r[1]))
    cls = r[1]
    if cls == 'encode':
        return C('Err', C('EEncode'))
    if cls == 'decode':
        return C('Err', C('EDecode'))
    if cls.startswith('foreign:'):
        return C('Err', C('EForeign', cls.split(':', 1)[1]))
    return C('Err', C('EForeign', cls))


# ---------------------------------------------------------------------------
# independent serialisers (tree -> bytes), deliberately unlike json.dumps /
# ElementTree.tostring in every free choice the syntax leaves

def json_write(j, rng):
    ws = lambda: rng.choice(['', '', ' ', '\n', '\t ', '\r\n  '])

    def s(x):
        out = ['"']
        for ch in x:
            c = ord(ch)
            if ch in '"\\':
                out.append('\\' + ch)
            elif c < 0x20 or rng.random() < .15 or 0xd800 <= c <= 0xdfff:
                if c > 0xffff:
                    c -= 0x10000
                    out.append('\\u%04x\\u%04X' % (0xd800 + (c >> 10), 0xdc00 + (c & 0x3ff)))
                else:
                    out.append({8: '\\b', 9: '\\t', 10: '\\n', 12: '\\f', 13: '\\r'}.get(c, '\\u%04x' % c)
                               if rng.random() < .5 else '\\u%04X' % c)
            elif ch == '/' and rng.random() < .5:
                out.append('\\/')
            else:
                out.append(ch)
        out.append('"')
        return ''.join(out)

    def w(x):
        if x is None:
            return 'null'
        if x is True:
            return 'true'
        if x is False:
            return 'false'
        if isinstance(x, int):
            return str(x)
        if isinstance(x, float):
            r = repr(x)
            return r.replace('e', 'E') if rng.random() < .5 else r
        if isinstance(x, str):
            return s(x)
        if isinstance(x, Pairs):
            return '{' + ws() + (',' + ws()).join(s(k) + ws() + ':' + ws() + w(v) for k, v in x) + ws() + '}'
        if isinstance(x, list):
            return '[' + ws() + (ws() + ',' + ws()).join(w(v) for v in x) + ws() + ']'
        raise TypeError(x)
    return (ws() + w(j) + ws()).encode('utf-8')


def xml_write(x, rng):
    def esc(t):
        out = []
        for ch in t:
            c = ord(ch)
            if ch == '<':
                out.append(rng.choice(['&lt;', '&#60;', '&#x3C;']))
            elif ch == '&':
                out.append(rng.choice(['&amp;', '&#38;']))
            elif ch == '>':
                out.append(rng.choice(['&gt;', '&#62;']))
            elif ch == '\r':
                out.append('&#13;')
            elif c > 126 and rng.random() < .5:
                out.append('&#%d;' % c if rng.random() < .5 else '&#x%X;' % c)
            elif ch in '"\'' and rng.random() < .3:
                out.append('&quot;' if ch == '"' else '&apos;')
            else:
                out.append(ch)
        return ''.join(out)

    def w(e, level):
        tag, text, kids = e
        sp = rng.choice(['', ' ', '\n'])
        if not kids and text is None:
            return rng.choice(['<%s/>' % tag, '<%s />' % tag, '<%s></%s>' % (tag, tag), '<%s%s></%s >' % (tag, sp, tag)])
        if not kids:
            return '<%s>%s</%s>' % (tag, esc(text), tag)
        pad = rng.choice(['', '\n' + '  ' * level, ' ', '\n\t'])
        return '<%s>' % tag + ''.join(pad + w(k, level + 1) for k in kids) + pad + '</%s>' % tag
    head = rng.choice(['', '', '<?xml version="1.0" encoding="UTF-8"?>\n', '<!-- c02 -->'])
    return (head + w(x, 1) + rng.choice(['', '\n'])).encode('utf-8')


# ---------------------------------------------------------------------------
# a fixed module that contains every construct of the text codecs at least
# once, so that no run depends on the random modules for basic coverage

def _m(name, t, opt=None):
    return {'name': name, 't': t, 'opt': opt}


def _ref(n):
    return {'k': 'REF', 'name': n}


def fixture_module():
    INT = {'k': 'INTEGER', 'c': None, 'named': None}
    BOOL = {'k': 'BOOLEAN'}
    NULL = {'k': 'NULL'}
    OID = {'k': 'OBJECT IDENTIFIER'}
    OCT = {'k': 'OCTET STRING', 'size': None}
    BITS = {'k': 'BIT STRING', 'size': None, 'named': None}
    UTF8 = {'k': 'STRING', 'sk': 'UTF8String', 'size': None, 'alpha': None}
    IA5 = {'k': 'STRING', 'sk': 'IA5String', 'size': None, 'alpha': None}

    def of(t, k='SEQUENCE OF'):
        return {'k': k, 'elem': t, 'size': None}
    f0 = {'k': 'ENUMERATED', 'root': [('e0', 0), ('e1', 5)], 'ext': [('x0', 7)]}
    f1 = {'k': 'CHOICE', 'root': [_m('leaf', INT), _m('node', of(_ref('F1'))), _m('flag', BOOL)],
          'ext': [_m('extra', NULL)]}
    f2 = {'k': 'SEQUENCE',
          'root': [_m('b', BOOL, ('default', True)), _m('i', dict(INT), ('default', 5)),
                   _m('e', _ref('F0'), ('default', 'e1')), _m('o', dict(OCT), ('default', b'\xab')),
                   _m('s', dict(IA5), ('default', 'xy')),
                   _m('n', {'k': 'BIT STRING', 'size': None, 'named': [('b0', 0), ('b3', 3)]}, ('default', (b'\x90', 4))),
                   _m('r', dict(REAL_T), 'optional'), _m('must', dict(INT))],
          'ext': [{'group': [_m('g1', dict(INT)), _m('g2', dict(NULL), 'optional'),
                             _m('g3', _ref('F0'), ('default', 'e0')), _m('g4', dict(BITS), ('default', (b'\xa0', 3))),
                             _m('g5', dict(OCT), ('default', b'\xcd'))]},
                  {'member': _m('a', dict(BOOL), 'optional')}]}
    f3 = {'k': 'SEQUENCE',
          'root': [_m('bools', of(dict(BOOL))), _m('enums', of(_ref('F0'))), _m('choices', of(_ref('F1'))),
                   _m('nulls', of(dict(NULL), 'SET OF')), _m('reals', of(dict(REAL_T))), _m('strs', of(dict(UTF8))),
                   _m('bits', of(dict(BITS))), _m('octs', of(dict(OCT))), _m('seqs', of(_ref('F2'))),
                   _m('nested', of(of(dict(BOOL)))), _m('oids', of(dict(OID))), _m('ints', of(dict(INT), 'SET OF')),
                   _m('inline', of({'k': 'CHOICE', 'root': [_m('p', dict(BOOL)), _m('q', _ref('F0'))], 'ext': None}))],
          'ext': None}
    f4 = {'k': 'SEQUENCE',
          'root': [_m('fixed', {'k': 'BIT STRING', 'size': {'lo': 12, 'hi': 12, 'ext': False}, 'named': None}),
                   _m('val', dict(REAL_T)), _m('next', _ref('F4'), 'optional')], 'ext': None}
    f5 = {'k': 'SET', 'root': [_m('x', dict(REAL_T)), _m('c', _ref('F1')), _m('d', _ref('F2'), 'optional'),
                               _m('e', _ref('F0'))], 'ext': []}
    mod = {'name': 'F', 'tags': 'AUTOMATIC', 'ext_implied': False, 'values': [],
           'types': [('F0', f0), ('F1', f1), ('F2', f2), ('F3', f3), ('F4', f4), ('F5', f5)]}
    rt = make_resolver(mod)
    return mod, gen_asn1.render_module(mod, rt)


def fixture(rng):
    mod, text = fixture_module()
    g = Gen02(rng, Opts())
    g.types = mod['types']
    g.pending = {}
    return mod, text, g


def strip_optional(rt_of, T, v):
    """The value with every OPTIONAL/DEFAULT member of the outermost SEQUENCE/SET left out."""
    t = rt_of(T)
    if t['k'] in ('SEQUENCE', 'SET') and isinstance(v, dict):
        keep = {m['name'] for m in all_members(t) if m['opt'] is None}
        return {n: x for n, x in v.items() if n in keep}
    return v
